import QModel.Core
import QModel.C16
/-!
# C07 — tensor products and embeddings (model of `tensor_product` and helpers in
quara/objects/operators.py, `_K` / `_left_permutation_matrix` / `_check_cross_system_position` /
`calc_permutation_matrix` / `convert_list_by_permutation_matrix` in quara/utils/matrix_util.py,
`_permutation_matrix_from_qutrits_to_qubits` / `_calc_matrix_from_qutrits_to_qubits` in
quara/objects/qoperation.py)

Typed kernels (`Kmat`, `Mat.kron`, `kronVec`, `tensorHsHs`) carry their sizes in the type; the functions
whose sizes are *computed at run time* in the code (`_left_permutation_matrix`, `calc_permutation_matrix`)
work on `DMat` = a matrix packed with its dimensions, and matrix products check shapes exactly where numpy
raises.  
-/
namespace QM.C07
open QM

/-! ## index arithmetic on `Fin (a*b)` (row-major pairs) -/

@[inline] def fdiv {a b : Nat} (i : Fin (a * b)) : Fin a :=
  ⟨i.val / b, Nat.div_lt_of_lt_mul (Nat.mul_comm a b ▸ i.isLt)⟩

@[inline] def fmod {a b : Nat} (i : Fin (a * b)) : Fin b :=
  ⟨i.val % b, Nat.mod_lt _ (by
    rcases Nat.eq_zero_or_pos b with h | h
    · exact absurd i.isLt (by simp [h])
    · exact h)⟩

section typed
variable {K : Type}

/-- `np.kron` of two vectors -/
def kronVec [Mul K] {a b : Nat} (u : Vec K a) (v : Vec K b) : Vec K (a * b) :=
  Vec.ofFn fun i => u.get (fdiv i) * v.get (fmod i)

/-- `np.kron` of two matrices -/
def kron [Mul K] {a b c d : Nat} (A : Mat K a b) (B : Mat K c d) : Mat K (a * c) (b * d) :=
  Mat.ofFn fun i j => A.get (fdiv i) (fdiv j) * B.get (fmod i) (fmod j)

/-- `_U(dim1, dim2, i, j)` -/
def unitM [Zero K] [One K] (a b : Nat) (i : Fin a) (j : Fin b) : Mat K a b :=
  Mat.ofFn fun r c => if r = i ∧ c = j then 1 else 0

/-- `_K(dim1, dim2)`: `Σ_row Σ_col kron(U(dim1,dim2,row,col), U(dim2,dim1,col,row))` -/
def Kmat [Add K] [Mul K] [Zero K] [One K] (a b : Nat) : Mat K (a * b) (b * a) :=
  Mat.ofFn fun r c => fsum a fun row => fsum b fun col =>
    (unitM (K := K) a b row col).get (fdiv r) (fdiv c) * (unitM (K := K) b a col row).get (fmod r) (fmod c)

/-- `hs.flatten()` (row major) -/
def flatten {m n : Nat} (A : Mat K m n) : Vec K (m * n) := Vec.ofFn fun i => A.get (fdiv i) (fmod i)

/-- `vec.reshape((m, n))` -/
def reshape {m n : Nat} (v : Vec K (m * n)) : Mat K m n :=
  Mat.ofFn fun i j => v.get ⟨i.val * n + j.val, by
    have hi := i.isLt; have hj := j.isLt
    calc i.val * n + j.val < i.val * n + n := Nat.add_lt_add_left hj _
      _ = (i.val + 1) * n := (Nat.succ_mul _ _).symm
      _ ≤ m * n := Nat.mul_le_mul_right _ hi⟩

/-- matrix–vector product with a matrix given entrywise (not materialised; used for the
`(d1·d2)² × (d1·d2)²` vec-permutation of `_tensor_product_hs_hs`) -/
def mulVecFn [Add K] [Mul K] [Zero K] {m n : Nat} (f : Fin m → Fin n → K) (v : Vec K n) : Vec K m :=
  Vec.ofFn fun i => fsum n fun k => f i k * v.get k

theorem hsSize₁ (n1 n2 : Nat) : n1 * n1 * (n2 * n2) = n1 * (n1 * n2) * n2 := by
  rw [Nat.mul_assoc n1 n1, Nat.mul_assoc n1 (n1 * n2), Nat.mul_assoc n1 n2 n2]
theorem hsSize₂ (n1 n2 : Nat) : n1 * (n2 * n1) * n2 = n1 * n2 * (n1 * n2) := by
  rw [Nat.mul_assoc n1 (n2 * n1), Nat.mul_assoc n2 n1 n2, Nat.mul_assoc n1 n2 (n1 * n2)]

/-- first half of `_tensor_product_hs_hs`: `from_vec = kron(hs1.flatten(), hs2.flatten())`,
`permutation = kron(kron(eye(d1), _K(d2, d1)), eye(d2))`, `to_hs = (permutation @ from_vec).reshape` -/
def tensorHsHs [Add K] [Mul K] [Zero K] [One K] {n1 n2 : Nat} (A : Mat K n1 n1) (B : Mat K n2 n2) :
    Mat K (n1 * n2) (n1 * n2) :=
  let fromVec : Vec K (n1 * n1 * (n2 * n2)) := kronVec (flatten A) (flatten B)
  let km : Mat K (n2 * n1) (n1 * n2) := Kmat n2 n1
  let perm : Fin (n1 * (n2 * n1) * n2) → Fin (n1 * (n1 * n2) * n2) → K := fun i j =>
    ((if fdiv (fdiv i) = fdiv (fdiv j) then (1 : K) else 0) * km.get (fmod (fdiv i)) (fmod (fdiv j)))
      * (if fmod i = fmod j then 1 else 0)
  let toVec : Vec K (n1 * (n2 * n1) * n2) := mulVecFn perm (fromVec.cast (hsSize₁ n1 n2))
  reshape (toVec.cast (hsSize₂ n1 n2))

end typed

/-! ## matrices whose sizes are computed at run time -/

inductive Err
  | shape       -- numpy matmul / reshape dimension mismatch (ValueError)
  | index       -- IndexError
  | dupName     -- CompositeSystem: duplicate ElementalSystem name
  | typeErr     -- unsupported type combination
  | emptyReduce -- reduce() of empty sequence
  | fuel        -- model artefact: loop bound exhausted (never happens, see `calcPerm_never_fuel` in QProps/C07.lean)
  | dist (e : QM.C16.Err)
deriving Repr, DecidableEq

def Err.toString : Err → String
  | .shape => "shape" | .index => "index" | .dupName => "dupName" | .typeErr => "type"
  | .emptyReduce => "emptyReduce" | .fuel => "fuel" | .dist e => e.toString

structure DMat (K : Type) where
  r : Nat
  c : Nat
  m : Mat K r c

namespace DMat
variable {K : Type}

def eye [Zero K] [One K] (n : Nat) : DMat K := ⟨n, n, Mat.one⟩

def kron [Mul K] (A B : DMat K) : DMat K := ⟨A.r * B.r, A.c * B.c, C07.kron A.m B.m⟩

/-- `A @ B`; numpy raises ValueError on a dimension mismatch -/
def mul [Add K] [Mul K] [Zero K] (A B : DMat K) : Except Err (DMat K) :=
  if h : A.c = B.r then .ok ⟨A.r, B.c, A.m.mul (h ▸ B.m)⟩ else .error .shape

def transpose (A : DMat K) : DMat K := ⟨A.c, A.r, A.m.transpose⟩

def map {L : Type} (f : K → L) (A : DMat K) : DMat L := ⟨A.r, A.c, Mat.ofFn fun i j => f (A.m.get i j)⟩

def toList? {α : Type} (l : List α) (n : Nat) : Option (Vector α n) :=
  if h : l.length = n then some ⟨l.toArray, by simp [h]⟩ else none

/-- `A @ v` for a 1-d array -/
def mulVecL [Add K] [Mul K] [Zero K] (A : DMat K) (v : List K) : Except Err (List K) :=
  match toList? v A.c with
  | some w => .ok (A.m.mulVec w).toList
  | none => .error .shape

def entries (A : DMat K) : List K := A.m.toList.flatMap (·.toList)

end DMat

def sumL (l : List Nat) : Nat := l.foldl (· + ·) 0
def prodL (l : List Nat) : Nat := l.foldl (· * ·) 1

section perm
variable {K : Type} [Add K] [Mul K] [Zero K] [One K]

/-- `_left_permutation_matrix(position, size_list)`: `I_head ⊗ K(size[pos], size[pos-1]) ⊗ I_tail` with the head /
tail identity sizes `reduce(mul, …)` of the sizes before / after the swapped pair (1 when there are none). -/
def leftPerm (position : Nat) (sizes : List Nat) : Except Err (DMat K) := do
  let head := if position < 2 then 1 else prodL (sizes.take (position - 1))
  let sp ← match sizes[position]? with | some s => pure s | none => throw Err.index
  -- Python: size_list[position - 1] with position = 0 would wrap to the last element; position ≥ 1 here
  let sq ← match sizes[position - 1]? with | some s => pure s | none => throw Err.index
  let k : DMat K := ⟨sp * sq, sq * sp, Kmat sp sq⟩
  let tail := if position < sizes.length - 1 then prodL (sizes.drop (position + 1)) else 1
  return ((DMat.eye head).kron k).kron (DMat.eye tail)

end perm

/-- `_check_cross_system_position`: first position whose name is smaller than its predecessor's -/
def checkCrossFrom : Nat → Nat → List Nat → Option Nat
  | _, _, [] => none
  | pos, former, x :: xs => if former > x then some pos else checkCrossFrom (pos + 1) x xs

def checkCross : List Nat → Option Nat
  | [] => none
  | x :: xs => checkCrossFrom 1 x xs

/-- `l[p-1], l[p] = l[p], l[p-1]` -/
def swapAt {α : Type} (l : List α) (p : Nat) : List α :=
  match l[p - 1]?, l[p]? with
  | some a, some b => (l.set (p - 1) b).set p a
  | _, _ => l

/-- the `while` loop of `calc_permutation_matrix` (fuel = a bound on the number of adjacent swaps).
Returns the accumulated matrix together with the final `tmp_system_order` / `tmp_size_list` (local variables
of the Python function, exposed so that theorems can speak about them). -/
def calcPermLoop {K : Type} [Add K] [Mul K] [Zero K] [One K]
    (lp : Nat → List Nat → Except Err (DMat K)) :
    Nat → List Nat → List Nat → DMat K → Except Err (DMat K × List Nat × List Nat)
  | 0, _, _, _ => .error .fuel
  | fuel + 1, order, sizes, perm =>
    match checkCross order with
    | none => .ok (perm, order, sizes)
    | some pos =>
      match lp pos sizes with
      | .error e => .error e
      | .ok left =>
        match left.mul perm with
        | .error e => .error e
        | .ok perm' => calcPermLoop lp fuel (swapAt order pos) (swapAt sizes pos) perm'

/-- `calc_permutation_matrix(system_order, size_list)` -/
def calcPerm {K : Type} [Add K] [Mul K] [Zero K] [One K] (order sizes : List Nat) : Except Err (DMat K) :=
  (calcPermLoop leftPerm (order.length * order.length + 1) order sizes (DMat.eye (prodL sizes))).map (·.1)

/-- `convert_list_by_permutation_matrix`: `new[row] = old[col]` for the first `col` with a 1 in that row;
`none` = the placeholder `True` the code leaves when a row has no 1. -/
def convertList {K α : Type} [DecidableEq K] [One K] (P : DMat K) (old : List α) :
    Except Err (List (Option α)) :=
  (List.finRange P.r).mapM fun row =>
    match (List.finRange P.c).find? fun col => P.m.get row col = 1 with
    | none => pure none
    | some col => match old[col.val]? with
      | some x => pure (some x)
      | none => throw Err.index

/-! ## objects and the per-type tensor products -/

/-- an elemental system: (name, dim) -/
abbrev ESys := Nat × Nat

def insertSorted (x : ESys) : List ESys → List ESys
  | [] => [x]
  | y :: ys => if x.1 ≤ y.1 then x :: y :: ys else y :: insertSorted x ys

/-- `CompositeSystem(e_sys_list)`: duplicate names rejected, systems sorted by name -/
def mkCSys (l : List ESys) : Except Err (List ESys) :=
  if (l.map (·.1)).Nodup then .ok (l.foldr insertSorted []) else .error .dupName

abbrev Dist := QM.C16.Dist

inductive TObj
  | state (sys : List ESys) (v : List Rat)
  | gate (sys : List ESys) (hs : DMat Rat)
  | povm (sys : List ESys) (nums : List Nat) (vecs : List (List Rat))
  | mprocess (sys : List ESys) (shape : List Nat) (hss : List (DMat Rat))
  | ensemble (states : List (List ESys × List Rat)) (d : Dist)

def kronL (u v : List Rat) : List Rat := u.flatMap fun x => v.map fun y => x * y

def ratPerm (order sizes : List Nat) : Except Err (DMat Rat) := do
  let p ← calcPerm (K := Int) order sizes
  return p.map fun (z : Int) => (z : Rat)

def sq (n : Nat) : Nat := n * n

/-- `_tensor_product_State_State` -/
def tensorStateState (s1 : List ESys) (v1 : List Rat) (s2 : List ESys) (v2 : List Rat) :
    Except Err (List ESys × List Rat) := do
  let e := s1 ++ s2
  let c ← mkCSys e
  let perm ← ratPerm (e.map (·.1)) (e.map fun x => sq x.2)
  let v ← perm.mulVecL (kronL v1 v2)
  return (c, v)

/-- `_tensor_product_hs_hs(hs1, hs2, e_sys_list)`, with the first half (`kron` of the flattened matrices, the
`(d1·d2)² × (d1·d2)²` vec-permutation, `reshape`) passed in as `core`: `tensorHsHs` is the code as written,
`kron` is what it equals for all sizes (theorem `hs_tensor` in QProps/C07.lean) and what the driver executes on
large inputs, where materialising the vec-permutation entry by entry is too slow. -/
def tensorHsWith (core : {n1 n2 : Nat} → Mat Rat n1 n1 → Mat Rat n2 n2 → Mat Rat (n1 * n2) (n1 * n2))
    (hs1 hs2 : DMat Rat) (e : List ESys) : Except Err (DMat Rat) := do
  -- hs.shape[0] is used for both dimensions: a non-square input fails in the matmul / reshape
  if h : hs1.r = hs1.c ∧ hs2.r = hs2.c then
    let A : Mat Rat hs1.r hs1.r := h.1 ▸ hs1.m
    let B : Mat Rat hs2.r hs2.r := h.2 ▸ hs2.m
    let t : DMat Rat := ⟨hs1.r * hs2.r, hs1.r * hs2.r, core A B⟩
    let perm ← ratPerm (e.map (·.1)) (e.map fun x => sq x.2)
    let pt ← perm.mul t
    pt.mul perm.transpose
  else .error .shape

/-- the code as written -/
def tensorHs (hs1 hs2 : DMat Rat) (e : List ESys) : Except Err (DMat Rat) :=
  tensorHsWith (fun A B => tensorHsHs A B) hs1 hs2 e

/-- `_tensor_product_Povm_Povm` -/
def tensorPovmPovm (s1 : List ESys) (n1 : List Nat) (vs1 : List (List Rat))
    (s2 : List ESys) (n2 : List Nat) (vs2 : List (List Rat)) :
    Except Err (List ESys × List Nat × List (List Rat)) := do
  let e := s1 ++ s2
  let c ← mkCSys e
  let raw := vs1.flatMap fun a => vs2.map fun b => kronL a b
  let order := e.map (·.1)
  let perm ← ratPerm order (e.map fun x => sq x.2)
  let vecs ← raw.mapM fun v => perm.mulVecL v
  let nums := n1 ++ n2
  let permO ← calcPerm (K := Int) order nums
  let vecs' ← convertList permO vecs
  -- a row without a 1 would leave the placeholder `True` in the list and the Povm constructor fails
  let vecs'' ← vecs'.mapM fun o => match o with | some v => pure v | none => throw Err.typeErr
  let newNums := ((order.zip nums).foldr insertSorted []).map (·.2)
  return (c, newNums, vecs'')

def tensorObjWith (core : {n1 n2 : Nat} → Mat Rat n1 n1 → Mat Rat n2 n2 → Mat Rat (n1 * n2) (n1 * n2)) :
    TObj → TObj → Except Err TObj
  | .gate s1 h1, .gate s2 h2 => do
      let c ← mkCSys (s1 ++ s2)
      let hs ← tensorHsWith core h1 h2 (s1 ++ s2)
      return .gate c hs
  | .gate s1 h1, .mprocess s2 shape hss => do
      let c ← mkCSys (s1 ++ s2)
      let hss' ← hss.mapM fun h2 => tensorHsWith core h1 h2 (s1 ++ s2)
      return .mprocess c shape hss'
  | .mprocess s1 shape hss, .gate s2 h2 => do
      let c ← mkCSys (s1 ++ s2)
      let hss' ← hss.mapM fun h1 => tensorHsWith core h1 h2 (s1 ++ s2)
      return .mprocess c shape hss'
  | .mprocess s1 sh1 hss1, .mprocess s2 sh2 hss2 => do
      let c ← mkCSys (s1 ++ s2)
      -- as coded: `for hs2 in elem2.hss: for hs1 in elem1.hss`, shape = shape1 + shape2
      let hss' ← (hss2.flatMap fun h2 => hss1.map fun h1 => (h1, h2)).mapM fun (h1, h2) =>
        tensorHsWith core h1 h2 (s1 ++ s2)
      return .mprocess c (sh1 ++ sh2) hss'
  | .state s1 v1, .state s2 v2 => do
      let (c, v) ← tensorStateState s1 v1 s2 v2
      return .state c v
  | .state s1 v1, .ensemble sts d => do
      let sts' ← sts.mapM fun (s2, v2) => tensorStateState s1 v1 s2 v2
      return .ensemble sts' d
  | .ensemble sts d, .state s2 v2 => do
      let sts' ← sts.mapM fun (s1, v1) => tensorStateState s1 v1 s2 v2
      return .ensemble sts' d
  | .ensemble sts1 d1, .ensemble sts2 d2 => do
      let pairs := (sts1.zip d1.ps).flatMap fun a => (sts2.zip d2.ps).map fun b => (a, b)
      let sts' ← pairs.mapM fun (a, b) => tensorStateState a.1.1 a.1.2 b.1.1 b.1.2
      let ps := pairs.map fun (a, b) => a.2 * b.2
      let d ← match QM.C16.ctor ps (d1.shape ++ d2.shape) QM.C16.epsValidate with
        | .ok d => pure d | .error e => throw (Err.dist e)
      return .ensemble sts' d
  | .povm s1 n1 vs1, .povm s2 n2 vs2 => do
      let (c, nums, vecs) ← tensorPovmPovm s1 n1 vs1 s2 n2 vs2
      return .povm c nums vecs
  | _, _ => .error .typeErr

/-- `_tensor_product(elem1, elem2)` as written -/
def tensorObj : TObj → TObj → Except Err TObj := tensorObjWith (fun A B => tensorHsHs A B)

/-- the same with `kron` substituted for the vec-permutation pipeline (equal by `hs_tensor`) -/
def tensorObjExec : TObj → TObj → Except Err TObj := tensorObjWith (fun A B => kron A B)

/-- `tensor_product(*elements)`: left fold (`none` = fewer than two elements) -/
def tensorFoldWith (op : TObj → TObj → Except Err TObj) : List TObj → Option (Except Err TObj)
  | [] => none
  | [_] => none
  | x :: xs => some (xs.foldl (fun acc e => acc.bind fun t => op t e) (.ok x))

def tensorFold : List TObj → Option (Except Err TObj) := tensorFoldWith tensorObj

/-! ## qutrit → qubit embedding -/

/-- all words of length `k` over `{0,1,2,3}` in `itertools.product` order -/
def words : Nat → List (List Nat)
  | 0 => [[]]
  | k + 1 => [0, 1, 2, 3].flatMap fun a => (words k).map fun w => a :: w

/-- `_permutation_matrix_from_qutrits_to_qubits`: for each qubit index its qutrit-block index -/
def embedIndexLoop : List (List Nat) → Nat → Nat → Nat → List Nat
  | [], _, _, _ => []
  | w :: ws, num, nIncl, nExcl =>
    if w.contains 3 then (3 ^ num + (nIncl + 1) - 1) :: embedIndexLoop ws num (nIncl + 1) nExcl
    else ((nExcl + 1) - 1) :: embedIndexLoop ws num nIncl (nExcl + 1)

def embedIndex (num : Nat) : List Nat := embedIndexLoop (words num) num 0 0

/-- `_calc_matrix_from_qutrits_to_qubits`: `P · [[M, 0], [0, coeff·I]] · Pᵀ`, entrywise:
entry `(i,j)` is the block entry at `(π i, π j)`. `mat` is the `3^num × 3^num` input as a function. -/
def embedEntry {K : Type} [Zero K] (num : Nat) (mat : Nat → Nat → K) (coeff : K) (i j : Nat) : Option K := do
  let pi ← (embedIndex num)[i]?
  let pj ← (embedIndex num)[j]?
  let t := 3 ^ num
  if pi < t ∧ pj < t then some (mat pi pj)
  else if pi = pj then some coeff else some 0

/-! ## driver -/

def chunksL {α : Type} (k : Nat) : Nat → List α → List (List α)
  | 0, _ => []
  | m + 1, l => l.take k :: chunksL k m (l.drop k)

def toDMat? (l : List Rat) (r c : Nat) : Option (DMat Rat) :=
  if l.length ≠ r * c then none else do
    let rows ← (chunksL c r l).mapM fun row => DMat.toList? row c
    let m ← DMat.toList? rows r
    some ⟨r, c, m⟩

def parseSys? (s : String) : Option (List ESys) := do
  -- name:dim,name:dim
  if s = "-" then some [] else
  (s.splitOn ",").mapM fun t => match t.splitOn ":" with
    | [a, b] => do some (← parseNat? a, ← parseNat? b)
    | _ => none

def showSys (l : List ESys) : String := showList (fun (x : ESys) => s!"{x.1}:{x.2}") l

def parseObj? (s : String) : Option TObj :=
  match s.splitOn ";" with
  | ["S", sys, v] => do some (.state (← parseSys? sys) (← parseList? parseRat? v))
  | ["G", sys, n, hs] => do
      let n ← parseNat? n
      some (.gate (← parseSys? sys) (← toDMat? (← parseList? parseRat? hs) n n))
  | ["P", sys, nums, m, n, vs] => do
      let m ← parseNat? m; let n ← parseNat? n
      let l ← parseList? parseRat? vs
      if l.length ≠ m * n then none
      some (.povm (← parseSys? sys) (← parseList? parseNat? nums) (chunksL n m l))
  | ["M", sys, shape, m, n, hss] => do
      let m ← parseNat? m; let n ← parseNat? n
      let l ← parseList? parseRat? hss
      if l.length ≠ m * (n * n) then none
      let hss ← (chunksL (n * n) m l).mapM fun c => toDMat? c n n
      some (.mprocess (← parseSys? sys) (← parseList? parseNat? shape) hss)
  | ["E", sys, shape, ps, isZero, m, n, sts] => do
      -- all states of the ensemble live on the same composite system
      let m ← parseNat? m; let n ← parseNat? n
      let l ← parseList? parseRat? sts
      if l.length ≠ m * n then none
      let sys ← parseSys? sys
      let d : Dist := { ps := ← parseList? parseRat? ps, shape := ← parseList? parseNat? shape,
                        isZero := isZero = "true" }
      some (.ensemble ((chunksL n m l).map fun v => (sys, v)) d)
  | _ => none

def showObj : TObj → String
  | .state sys v => s!"S {showSys sys} {showList showRat v}"
  | .gate sys hs => s!"G {showSys sys} {hs.r} {showList showRat hs.entries}"
  | .povm sys nums vecs => s!"P {showSys sys} {showList toString nums} {vecs.length} {showList showRat vecs.flatten}"
  | .mprocess sys shape hss =>
      s!"M {showSys sys} {showList toString shape} {hss.length} {showList showRat (hss.flatMap (·.entries))}"
  | .ensemble sts d =>
      s!"E {showList toString d.shape} {d.isZero} {showList showRat d.ps} {sts.length} {showList showSys (sts.map (·.1))} {showList showRat (sts.flatMap (·.2))}"

def showRes (r : Except Err TObj) : String :=
  match r with
  | .ok x => "ok " ++ showObj x
  | .error e => "err " ++ e.toString

/-- reverse-polish grouping: a number pushes that object, `x` pops `b` then `a` and pushes `a ⊗ b` -/
def rpn (op : TObj → TObj → Except Err TObj) (objs : Array TObj) :
    List String → List (Except Err TObj) → Option (Except Err TObj)
  | [], [r] => some r
  | [], _ => none
  | "x" :: ts, b :: a :: st => rpn op objs ts ((do let p ← a; let q ← b; op p q) :: st)
  | "x" :: _, _ => none
  | t :: ts, st => do
      let i ← parseNat? t
      let o ← objs[i]?
      rpn op objs ts (.ok o :: st)

def showDMatInt (r : Except Err (DMat Int)) : String :=
  match r with
  | .ok p => s!"ok {p.r} {p.c} {showList toString p.entries}"
  | .error e => "err " ++ e.toString

def handle (args : List String) : Option String :=
  match args with
  | ["K", a, b] => do
      let a ← parseNat? a; let b ← parseNat? b
      some (showDMatInt (.ok ⟨a * b, b * a, Kmat (K := Int) a b⟩))
  | ["leftperm", pos, sizes] => do
      some (showDMatInt (leftPerm (K := Int) (← parseNat? pos) (← parseList? parseNat? sizes)))
  | ["cross", order] => do
      match checkCross (← parseList? parseNat? order) with
      | none => some "ok none"
      | some p => some s!"ok {p}"
  | ["calcperm", order, sizes] => do
      some (showDMatInt (calcPerm (K := Int) (← parseList? parseNat? order) (← parseList? parseNat? sizes)))
  | ["calcpermdim", order, sizes] => do
      -- only the verdict and the dimensions (large cases)
      match calcPerm (K := Int) (← parseList? parseNat? order) (← parseList? parseNat? sizes) with
      | .ok p => some s!"ok {p.r} {p.c}"
      | .error e => some ("err " ++ e.toString)
  | ["convert", order, sizes, old] => do
      let old ← parseList? parseNat? old
      let order ← parseList? parseNat? order
      let sizes ← parseList? parseNat? sizes
      match (do let p ← calcPerm (K := Int) order sizes
                convertList p old : Except Err _) with
      | .ok l => some s!"ok {showList (fun (o : Option Nat) => match o with | some x => toString x | none => "T") l}"
      | .error e => some ("err " ++ e.toString)
  | ["hshs", n1, n2, a, b] => do
      let n1 ← parseNat? n1; let n2 ← parseNat? n2
      let A ← toDMat? (← parseList? parseRat? a) n1 n1
      let B ← toDMat? (← parseList? parseRat? b) n2 n2
      if h : A.r = A.c ∧ B.r = B.c then
        let t : DMat Rat := ⟨A.r * B.r, A.r * B.r, tensorHsHs (h.1 ▸ A.m : Mat Rat A.r A.r) (h.2 ▸ B.m : Mat Rat B.r B.r)⟩
        some s!"ok {t.r} {showList showRat t.entries}"
      else none
  | "tensor" :: mode :: k :: rest => do
      -- mode `coded`: the vec-permutation pipeline as written; `exec`: `kron` substituted (theorem `hs_tensor`)
      let k ← parseNat? k
      if rest.length < k then none
      let objs ← (rest.take k).mapM parseObj?
      let op ← if mode = "coded" then some tensorObj else if mode = "exec" then some tensorObjExec else none
      let r ← rpn op objs.toArray (rest.drop k) []
      some (showRes r)
  | "fold" :: mode :: objs => do
      let objs ← objs.mapM parseObj?
      let op ← if mode = "coded" then some tensorObj else if mode = "exec" then some tensorObjExec else none
      match tensorFoldWith op objs with
      | none => some "err tooFew"
      | some r => some (showRes r)
  | ["embedindex", num] => do
      some s!"ok {showList toString (embedIndex (← parseNat? num))}"
  | ["embed", num, coeff, mat] => do
      let num ← parseNat? num
      let coeff ← parseRat? coeff
      let l ← parseList? parseRat? mat
      let t := 3 ^ num
      if l.length ≠ t * t then none
      let arr := l.toArray
      let f : Nat → Nat → Rat := fun i j => arr.getD (i * t + j) 0
      let n := 4 ^ num
      let es ← (List.range n).mapM fun i => (List.range n).mapM fun j => embedEntry num f coeff i j
      some s!"ok {showList showRat es.flatten}"
  | _ => none

end QM.C07
