import QModel.C04
/-!
# C05 — physical projection (model of `QOperation.calc_proj_physical` / `calc_proj_physical_with_var`,
quara/objects/qoperation.py)

The two routines run the same loop (Dykstra's alternating projection with correction terms `p`, `q`) on the stacked
parameter vector: the object-level one through `__add__/__sub__` and `calc_proj_*_constraint()` of the objects, the
variable-level one through `calc_proj_*_constraint_with_var(…, on_para_eq_constraint=False)` on stacked vectors.
The model is the loop on `Vec R N`; the two constraint projections are parameters `P1 P2 : Nat → Vec R N → Vec R N`
(first and second projection of sweep `k`; for `"eq_ineq"` first = equality, second = inequality, otherwise the
other way round — `sweepMode`).  The inequality projection of sweep `k` is built by the driver from the `k`-th
`np.linalg.eigh` result of the real run (QModel.C04).

Mirrored as coded: `p,q` start at the zero object, `x` at the input; one sweep
`y = P1(x+p); p' = x+p−y; x' = P2(y+q); q' = y+q−x'`; the stopping value
`np.sum((p−p')**2 + (q−q')**2)` is computed only for `k ≥ 1` and compared with `<` against `eps_proj_physical`;
the loop ends on `is_stopping` or after `max_iteration` sweeps; the warning is printed when `k == max_iteration−1`
(also when the criterion fired in that very sweep); `max_iteration = 0` leaves `k` unbound (`none` here).
The history is kept as one record per sweep; the five lists of the Python dict are read off it (`histP` … `histE`).
-/
namespace QM.C05
open QM.C04

section loop
variable {R : Type} [Add R] [Sub R] [Mul R] [Zero R] [LT R] [DecidableRel (α := R) (· < ·)] {N : Nat}

structure St (R : Type) (N : Nat) where
  x : Vec R N
  p : Vec R N
  q : Vec R N

/-- one history record: sweep index, state before, state after, the intermediate `y`, the stopping value -/
structure Rec (R : Type) (N : Nat) where
  k : Nat
  prev : St R N
  next : St R N
  y : Vec R N
  err : Option R

/-- body of one loop iteration -/
def sweep (P1 P2 : Vec R N → Vec R N) (s : St R N) : St R N × Vec R N :=
  let y := P1 (s.x.add s.p)
  let p' := (s.x.add s.p).sub y
  let x' := P2 (y.add s.q)
  let q' := (y.add s.q).sub x'
  (⟨x', p', q'⟩, y)

/-- `if self.mode_proj_order == "eq_ineq": … else: …` -/
def sweepMode (eqIneq : Bool) (Peq Pineq : Vec R N → Vec R N) (s : St R N) : St R N × Vec R N :=
  if eqIneq then sweep Peq Pineq s else sweep Pineq Peq s

/-- `_calc_stopping_criterion_birgin_raydan2_vectors`: `np.sum((p_prev-p_next)**2 + (q_prev-q_next)**2)` -/
def errVal (s s' : St R N) : R :=
  fsum N fun i =>
    (s.p.get i - s'.p.get i) * (s.p.get i - s'.p.get i) + (s.q.get i - s'.q.get i) * (s.q.get i - s'.q.get i)

structure Out (R : Type) (N : Nat) where
  x : Vec R N            -- returned `x_next`
  recs : List (Rec R N)  -- newest first
  k : Nat                -- value of the loop variable after the loop
  warned : Bool          -- `k == max_iteration - 1`

/-- `loop r k s acc`: `r` sweeps remain (including the one about to run), `k` is the loop variable -/
def loop (eps : R) (P1 P2 : Nat → Vec R N → Vec R N) :
    Nat → Nat → St R N → List (Rec R N) → Out R N
  | 0, k, s, acc => ⟨s.x, acc, k, true⟩
  | r + 1, k, s, acc =>
    let sy := sweep (P1 k) (P2 k) s
    let err : Option R := if 1 ≤ k then some (errVal s sy.1) else none
    let stop : Bool := match err with
      | some e => decide (e < eps)
      | none => false
    let acc' := (⟨k, s, sy.1, sy.2, err⟩ : Rec R N) :: acc
    if stop || r == 0 then ⟨sy.1.x, acc', k, r == 0⟩ else loop eps P1 P2 r (k + 1) sy.1 acc'

/-- the whole routine on stacked vectors; `none` = `max_iteration == 0` (UnboundLocalError on `k`) -/
def run (eps : R) (P1 P2 : Nat → Vec R N → Vec R N) (maxIter : Nat) (x0 : Vec R N) : Option (Out R N) :=
  if maxIter = 0 then none else some (loop eps P1 P2 maxIter 0 ⟨x0, Vec.zero, Vec.zero⟩ [])

/-- projections of sweep `k` for the two orders -/
def runMode (eps : R) (eqIneq : Bool) (Peq : Vec R N → Vec R N) (Pineq : Nat → Vec R N → Vec R N)
    (maxIter : Nat) (x0 : Vec R N) : Option (Out R N) :=
  if eqIneq then run eps (fun _ => Peq) Pineq maxIter x0 else run eps Pineq (fun _ => Peq) maxIter x0

/-! the five lists of the history dict -/
def histP (o : Out R N) : List (Vec R N) := Vec.zero :: o.recs.reverse.map (·.next.p)
def histQ (o : Out R N) : List (Vec R N) := Vec.zero :: o.recs.reverse.map (·.next.q)
def histX (x0 : Vec R N) (o : Out R N) : List (Vec R N) := x0 :: o.recs.reverse.map (·.next.x)
def histY (o : Out R N) : List (Option (Vec R N)) := none :: o.recs.reverse.map (some ·.y)
def histE (o : Out R N) : List (Option R) := o.recs.reverse.map (·.err)

end loop

/-! ## stacked vectors ↔ the shapes of QModel.C04 -/
section shapes
variable {K : Type} {m n : Nat}

theorem idx_lt {m n : Nat} (i : Fin m) (j : Fin n) : i.val * n + j.val < m * n :=
  Nat.lt_of_lt_of_le (Nat.add_lt_add_left j.isLt _)
    (by rw [← Nat.succ_mul]; exact Nat.mul_le_mul_right n i.isLt)

def unflatten (v : Vec K (m * n)) : Mat K m n := Mat.ofFn fun i j => v.get ⟨i.val * n + j.val, idx_lt i j⟩
def tenOfVec (v : Vec K (m * (n * n))) : Ten K m n n := Vector.ofFn fun x => unflatten ((unflatten v)[x])
def vecOfTen (T : Ten K m n n) : Vec K (m * (n * n)) := flatten (Vector.ofFn fun x => flatten T[x])
end shapes

/-! ## the equality projections of the four types on stacked vectors (`…_with_var(…, False)`) -/
section eqs
variable {R : Type} [Add R] [Sub R] [Mul R] [Div R] [Neg R] [Zero R] [One R] [NatCast R] {m n : Nat}
def peqState (s : R) (v : Vec R n) : Vec R n := State.projEqVar s false v
def peqPovm (t : R) (v : Vec R (m * n)) : Vec R (m * n) := flatten (Povm.projEqVarF t (unflatten v))
def peqGate (v : Vec R (n * n)) : Vec R (n * n) := Gate.projEqVar n false v
def peqMProcess (v : Vec R (m * (n * n))) : Vec R (m * (n * n)) := vecOfTen (MProcess.projEqVarF (tenOfVec v))
end eqs

/-! ## driver -/
section driver

abbrev Q := Rat
abbrev CQ := Cx Rat

/-- everything the driver needs for one run of one type on stacked vectors of length `N` -/
structure Kit (N : Nat) where
  peq : Vec Q N → Vec Q N
  /-- result of the inequality projection of sweep `k` (depends on the supplied eigh result only) -/
  pin : List (Except Err (Vec Q N))
  /-- eigh contract residuals of sweep `k` for the vector that the code hands to the inequality projection -/
  res : List (Vec Q N → Q × Q)

def slice {α : Type} (l : List α) (k size : Nat) : List α := (l.drop (k * size)).take size

def kitState (d n : Nat) (s eps : Q) (basis : List CQ) (steps : Nat) (lams : List Q) (us : List CQ) :
    Option (Kit n) := do
  let B ← tenOf? n d d basis
  let eig ← (List.range steps).mapM fun k => do
    let lam ← vecOf? d (slice lams k d)
    let U ← matOf? d d (slice us k (d * d))
    pure (lam, U)
  pure { peq := peqState s
         pin := eig.map fun e => State.projIneq B eps e.1 e.2
         res := eig.map fun e v => (eighResidual (State.ineqInput B v) e.1 e.2, unitaryResidual e.2) }

def kitPovm (d n m : Nat) (t eps : Q) (basis : List CQ) (steps : Nat) (lams : List Q) (us : List CQ) :
    Option (Kit (m * n)) := do
  let B ← tenOf? n d d basis
  let eig ← (List.range steps).mapM fun k => eigs? m d (slice lams k (m * d)) (slice us k (m * (d * d)))
  pure { peq := peqPovm t
         pin := eig.map fun e => (Povm.projIneq B eps e).map flatten
         res := eig.map fun e v => resid (Povm.ineqInput B (unflatten v)) e }

def kitGate (d n : Nat) (eps : Q) (basis : List CQ) (steps : Nat) (lams : List Q) (us : List CQ) :
    Option (Kit (n * n)) := do
  let B ← tenOf? n d d basis
  let D := d * d
  let eig ← (List.range steps).mapM fun k => do
    let lam ← vecOf? D (slice lams k D)
    let U ← matOf? D D (slice us k (D * D))
    pure (lam, U)
  pure { peq := peqGate
         pin := eig.map fun e => Gate.projIneq B eps e.1 e.2
         res := eig.map fun e v => (eighResidual (Gate.ineqInput B (unflatten v)) e.1 e.2, unitaryResidual e.2) }

def kitMProcess (d n m : Nat) (eps : Q) (basis : List CQ) (steps : Nat) (lams : List Q) (us : List CQ) :
    Option (Kit (m * (n * n))) := do
  let B ← tenOf? n d d basis
  let D := d * d
  let eig ← (List.range steps).mapM fun k => eigs? m D (slice lams k (m * D)) (slice us k (m * (D * D)))
  pure { peq := peqMProcess
         pin := eig.map fun e => (MProcess.projIneq B eps e).map flatten
         res := eig.map fun e v => resid (MProcess.ineqInput B (tenOfVec v)) e }

def showOptV {N : Nat} : Option (Vec Q N) → String
  | none => "none"
  | some v => showV v
def showOptQ : Option Q → String
  | none => "none"
  | some e => showRat e

/-- run the loop with the kit; replies
`ok k warned |x| p-list | q-list | x-list | y-list | errs | eighres unitres`  (lists separated by `;`) -/
def runKit {N : Nat} (kit : Kit N) (eqIneq : Bool) (epsProj : Q) (maxIter : Nat) (x0 : List Q) : Option String := do
  let x0 ← vecOf? N x0
  -- a projection error (imaginary parts) of any supplied step is reported before running
  let pins ← (kit.pin.mapM fun r => match r with
    | .ok v => some v
    | .error _ => none) <|> some []
  if pins.length ≠ kit.pin.length then some "err imag" else
  let arr := pins.toArray
  -- total lookup for the loop; steps beyond the supplied data are detected afterwards (`need-more`), never reported
  let pinF : Nat → Vec Q N → Vec Q N := fun k v => if h : k < arr.size then arr[k] else v
  match runMode epsProj eqIneq kit.peq pinF maxIter x0 with
  | none => some "err unbound-k"
  | some o =>
    if o.recs.length > arr.size then some "need-more" else
    let recs := o.recs.reverse
    let inputs : List (Vec Q N) := recs.map fun r => if eqIneq then r.y.add r.prev.q else r.prev.x.add r.prev.p
    let rs := (inputs.zip kit.res).map fun (v, f) => f v
    let e1 := rs.foldl (fun a r => a + r.1) 0
    let e2 := rs.foldl (fun a r => a + r.2) 0
    let j (l : List String) := ";".intercalate l
    some s!"ok {o.k} {o.warned} {showV o.x} {j ((histP o).map showV)} {j ((histQ o).map showV)} {j ((histX x0 o).map showV)} {j ((histY o).map showOptV)} {j ((histE o).map showOptQ)} {showRat e1} {showRat e2}"

/-- one sweep from a recorded state: replies `ok y x' p' q' errval eighres unitres` -/
def stepKit {N : Nat} (kit : Kit N) (eqIneq : Bool) (x p q : List Q) : Option String := do
  let s : St Q N := ⟨← vecOf? N x, ← vecOf? N p, ← vecOf? N q⟩
  match kit.pin, kit.res with
  | [.error _], _ => some "err imag"
  | [.ok pv], [rf] =>
    let sy := sweepMode eqIneq kit.peq (fun _ => pv) s
    let input := if eqIneq then sy.2.add s.q else s.x.add s.p
    let r := rf input
    some s!"ok {showV sy.2} {showV sy.1.x} {showV sy.1.p} {showV sy.1.q} {showRat (errVal s sy.1)} {showRat r.1} {showRat r.2}"
  | _, _ => none

def withKit (typ : String) (d n m : Nat) (c eps : Q) (basis : List CQ) (steps : Nat) (lams : List Q) (us : List CQ)
    (f : {N : Nat} → Kit N → Option String) : Option String :=
  match typ with
  | "State" => (kitState d n c eps basis steps lams us).bind f
  | "Povm" => (kitPovm d n m c eps basis steps lams us).bind f
  | "Gate" => (kitGate d n eps basis steps lams us).bind f
  | "MProcess" => (kitMProcess d n m eps basis steps lams us).bind f
  | _ => none

/-- requests:
`run  typ order d n m c eps basis epsProj maxIter steps x0 lams us`
`step typ order d n m c eps basis x p q lams us`
(`c` = `1/√d` for State, `√d` for Povm, unused otherwise; `order` = `eq_ineq` or anything else) -/
def handle (args : List String) : Option String :=
  match args with
  | ["run", typ, order, d, n, m, c, eps, basis, epsProj, maxIter, steps, x0, lams, us] => do
      let d ← parseNat? d; let n ← parseNat? n; let m ← parseNat? m
      let c ← parseRat? c; let eps ← parseRat? eps; let epsProj ← parseRat? epsProj
      let maxIter ← parseNat? maxIter; let steps ← parseNat? steps
      let basis ← cxs? basis; let x0 ← rats? x0; let lams ← rats? lams; let us ← cxs? us
      withKit typ d n m c eps basis steps lams us fun kit => runKit kit (order == "eq_ineq") epsProj maxIter x0
  | ["step", typ, order, d, n, m, c, eps, basis, x, p, q, lams, us] => do
      let d ← parseNat? d; let n ← parseNat? n; let m ← parseNat? m
      let c ← parseRat? c; let eps ← parseRat? eps
      let basis ← cxs? basis; let x ← rats? x; let p ← rats? p; let q ← rats? q
      let lams ← rats? lams; let us ← cxs? us
      withKit typ d n m c eps basis 1 lams us fun kit => stepKit kit (order == "eq_ineq") x p q
  | _ => none

end driver

end QM.C05
