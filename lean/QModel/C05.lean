import QModel.Core
/-! C05 — model (not built yet) -/
namespace QM.C05
def handle (_args : List String) : Option String := none
end QM.C05
