import QModel.Core
/-! C20 — model (not built yet) -/
namespace QM.C20
def handle (_args : List String) : Option String := none
end QM.C20
