import QModel.Core
import QGen.C20
/-!
# C20 — schedule acceptance (model of quara/qcircuit/experiment.py validation, setters,
`calc_prob_dist`, and the four tomography classes' schedule handling)

The model mirrors the code as it is:

* `validateItem`   = `Experiment._validate_schedule_item` (same sequence of tests, the Python exception
  type of each failing test), on a small universe of Python values (`PyVal`: `bool` is not `int`);
* `validateOrder`  = `Experiment._validate_schedule_order`;
* `validateSchedules` = `Experiment._validate_schedules`: first failing schedule decides, item errors
  before order errors; `j, item = None, schedule` is set at the top of every outer iteration, so a non-iterable
  schedule (`TypeError` from `enumerate` inside the `try`) is reported as the schedule-item error without an
  item position (`j = None`);
* `construct`, `setList`, `setSchedules` = constructor and setters (validate first, assign on success);
* `calcProbDist` = `Experiment.calc_prob_dist` (index check, `None` placeholders, composition from the state
  outwards with the type dispatch of `operators._compose_qoperations`, final `.ps`);
* `tomoCtor` = the schedule handling at the head of `StandardQst/Povmt/Qpt/Qmpt.__init__`.

All literal tables (`kinds`, `minLen`, …, the positional tests of the tomography classes and the lists they
hand to `Experiment`) come from `QGen.C20`, regenerated from the source on every run.
-/
namespace QM.C20

/-! ## Python values, items, schedules -/

inductive PyVal
  | str (s : String)
  | int (i : Int)
  | bool (b : Bool)
  | none
  | float
  | other
deriving Repr, DecidableEq

inductive Item
  | nonTuple                   -- `type(item) != tuple`: None, list, str, int, …
  | tuple (fs : List PyVal)
deriving Repr, DecidableEq

/-- iterables that are not sequences: the item loop runs over them, but `len(schedule)` / `schedule[0]` of the order
check do not work as for a list -/
inductive NonSeq
  | noLen        -- generator / iterator: `len(schedule)` raises TypeError (and the item loop has consumed it)
  | keyed        -- dict: iterating yields the keys, `len` works, `schedule[0]` raises KeyError
  | unordered    -- set / frozenset / dict view: `len` works, `schedule[0]` raises TypeError
deriving Repr, DecidableEq

inductive Schedule
  | nonIterable                -- `enumerate(schedule)` raises TypeError (None, int, …)
  | items (l : List Item)      -- list / tuple / deque / str … (a sequence)
  | nonSequence (k : NonSeq) (l : List Item)   -- an iterable yielding `l` that is not a sequence
deriving Repr, DecidableEq

/-- the well-formed item `(name, idx)` -/
def Item.mk (name : String) (idx : Int) : Item := .tuple [.str name, .int idx]

inductive PyExc
  | typeError | valueError | indexError | keyError | attributeError
deriving Repr, DecidableEq

def PyExc.toString : PyExc → String
  | .typeError => "TypeError" | .valueError => "ValueError" | .indexError => "IndexError"
  | .keyError => "KeyError" | .attributeError => "AttributeError"

/-! ## tables and object lists -/

structure Tables where
  kinds : List String
  needNonEmpty : List String
  minLen : Nat
  firstKind : String
  lastKinds : List String
  limits : List (String × Nat)
deriving Repr, DecidableEq

/-- the tables of the code as it is (generated) -/
def tables : Tables :=
  { kinds := QGen.C20.kinds, needNonEmpty := QGen.C20.needNonEmpty, minLen := QGen.C20.minLen,
    firstKind := QGen.C20.firstKind, lastKinds := QGen.C20.lastKinds, limits := QGen.C20.limits }

/-- an object list: `none` = the `None` placeholder, `some sh` = an object with outcome shape `sh`
(POVM: `nums_local_outcomes`, measurement process: `shape`; e.g. `[2]`, or `[2, 3]` for a tensor product; states and gates: `[]`) -/
abbrev ObjList := List (Option (List Nat))

structure Lists where
  state : ObjList
  povm : ObjList
  gate : ObjList
  mprocess : ObjList
deriving Repr, DecidableEq

/-- `objdict[name]` / `key_map[name]`: the dict has exactly these four keys -/
def Lists.get? (L : Lists) (name : String) : Option ObjList :=
  if name = "state" then some L.state
  else if name = "povm" then some L.povm
  else if name = "gate" then some L.gate
  else if name = "mprocess" then some L.mprocess
  else none

/-! ## `_validate_schedule_item` -/

/-- returns the item's kind on success (used by the order check afterwards) -/
def validateItem (T : Tables) (L : Lists) : Item → Except PyExc String
  | .nonTuple => .error .typeError
  | .tuple [name, idx] =>
    match name with
    | .str s =>
      match idx with
      | .int i =>
        if !T.kinds.contains s then .error .valueError
        else match L.get? s with
          | none => .error .keyError
          | some l =>
            if T.needNonEmpty.contains s && l.isEmpty then .error .indexError
            else if 0 ≤ i ∧ i < (l.length : Int) then .ok s
            else .error .indexError
      | _ => .error .typeError
    | _ => .error .typeError
  | .tuple _ => .error .valueError

/-- the loop `for j, item in enumerate(schedule)`; error = (j, exception) -/
def validateItems (T : Tables) (L : Lists) : List Item → Nat → Except (Nat × PyExc) (List String)
  | [], _ => .ok []
  | it :: rest, j =>
    match validateItem T L it with
    | .error e => .error (j, e)
    | .ok n =>
      match validateItems T L rest (j + 1) with
      | .error e => .error e
      | .ok ns => .ok (n :: ns)

/-! ## `_validate_schedule_order` (on the kinds of the already validated items) -/

inductive OrderErr
  | tooShort
  | first
  | last
  | tooMany (kind : String)
  | pyIndex          -- `schedule[0]` on an empty schedule (only if `minLen = 0`): IndexError, converted like ValueError
  | notSequence      -- `len(schedule)` / `schedule[0]` fails on an iterable that is not a sequence (TypeError / KeyError, converted)
deriving Repr, DecidableEq

def OrderErr.toString : OrderErr → String
  | .tooShort => "tooShort" | .first => "first" | .last => "last"
  | .tooMany k => s!"tooMany:{k}" | .pyIndex => "pyIndex" | .notSequence => "notSequence"

def checkLimits (names : List String) : List (String × Nat) → Except OrderErr Unit
  | [] => .ok ()
  | (k, n) :: rest => if names.count k ≥ n then .error (.tooMany k) else checkLimits names rest

def validateOrder (T : Tables) (names : List String) : Except OrderErr Unit :=
  if names.length < T.minLen then .error .tooShort
  else match names.head?, names.getLast? with
    | some f, some l =>
      if f ≠ T.firstKind then .error .first
      else if !T.lastKinds.contains l then .error .last
      else checkLimits names T.limits
    | _, _ => .error .pyIndex

/-! ## `_validate_schedules` -/

inductive Err
  | item (i j : Nat) (e : PyExc)      -- QuaraScheduleItemError raised for item j of schedule i
  | itemNoPos (i : Nat)               -- QuaraScheduleItemError for a schedule that cannot be iterated (`j` is `None`)
  | order (i : Nat) (r : OrderErr)    -- QuaraScheduleOrderError
  | escaped (e : PyExc)               -- an exception that is not converted
deriving Repr, DecidableEq

def Err.toString : Err → String
  | .item i j e => s!"item {i} {j} {e.toString}"
  | .order i r => s!"order {i} {r.toString}"
  | .itemNoPos i => s!"item {i} None TypeError"
  | .escaped e => s!"escaped {e.toString}"

def validateSchedulesAux (T : Tables) (L : Lists) : List Schedule → Nat → Except Err Unit
  | [], _ => .ok ()
  | .nonIterable :: _, i => .error (.itemNoPos i)
  | .nonSequence k its :: _, i =>
    -- the item loop works on any iterable; the order check then calls `len(schedule)` and `schedule[0]`, whose
    -- TypeError / KeyError / IndexError are converted to the schedule-order error like ValueError (fix df6ca25, D18)
    match validateItems T L its 0 with
    | .error (_, .keyError) => .error (.escaped .keyError)
    | .error (j, e) => .error (.item i j e)
    | .ok _ =>
      match k with
      | .noLen => .error (.order i .notSequence)
      | .keyed => if its.length < T.minLen then .error (.order i .tooShort) else .error (.order i .notSequence)
      | .unordered => if its.length < T.minLen then .error (.order i .tooShort) else .error (.order i .notSequence)
  | .items its :: rest, i =>
    match validateItems T L its 0 with
    | .error (_, .keyError) => .error (.escaped .keyError)
    | .error (j, e) => .error (.item i j e)
    | .ok names =>
      match validateOrder T names with
      | .error r => .error (.order i r)
      | .ok () => validateSchedulesAux T L rest (i + 1)

def validateSchedules (T : Tables) (L : Lists) (ss : List Schedule) : Except Err Unit :=
  validateSchedulesAux T L ss 0

/-! ## constructor and setters -/

structure ExpState where
  lists : Lists
  schedules : List Schedule
deriving Repr, DecidableEq

def construct (T : Tables) (L : Lists) (ss : List Schedule) : Except Err ExpState :=
  match validateSchedules T L ss with
  | .error e => .error e
  | .ok () => .ok { lists := L, schedules := ss }

inductive Which | state | povm | gate | mprocess
deriving Repr, DecidableEq

def Lists.set (L : Lists) : Which → ObjList → Lists
  | .state, v => { L with state := v }
  | .povm, v => { L with povm := v }
  | .gate, v => { L with gate := v }
  | .mprocess, v => { L with mprocess := v }

inductive Op
  | setList (w : Which) (v : ObjList)
  | setSchedules (ss : List Schedule)
deriving Repr, DecidableEq

def Which.idx : Which → Nat
  | .state => 0 | .povm => 1 | .gate => 2 | .mprocess => 3

/-- an `objdict` entry of a setter: 0..3 = the experiment's own states / povms / gates / mprocesses list, otherwise the
new value (generated table `QGen.C20.setterDicts`) -/
def Lists.pick (L : Lists) (v : ObjList) (code : Nat) : ObjList :=
  if code = 0 then L.state else if code = 1 then L.povm else if code = 2 then L.gate
  else if code = 3 then L.mprocess else v

/-- the `objdict` the setter for `w` validates against (table look-ups default to "own list of that key": the pin
theorem `setters_eq` shows the generated tables are complete) -/
def setterLists (L : Lists) (w : Which) (v : ObjList) : Lists :=
  let d := QGen.C20.setterDicts.getD w.idx [0, 1, 2, 3]
  { state := L.pick v (d.getD 0 0), povm := L.pick v (d.getD 1 1), gate := L.pick v (d.getD 2 2),
    mprocess := L.pick v (d.getD 3 3) }

/-- `self._<list> = value` of the setter for `w` (which own list is assigned: generated `QGen.C20.setterAssigns`) -/
def setterAssign (L : Lists) (w : Which) (v : ObjList) : Lists :=
  let c := QGen.C20.setterAssigns.getD w.idx w.idx
  if c = 0 then { L with state := v } else if c = 1 then { L with povm := v }
  else if c = 2 then { L with gate := v } else { L with mprocess := v }

/-- one setter call: validate against the would-be state, assign only on success -/
def step (T : Tables) (st : ExpState) : Op → Except Err ExpState
  | .setList w v =>
    match validateSchedules T (setterLists st.lists w v) st.schedules with
    | .error e => .error e
    | .ok () => .ok { st with lists := setterAssign st.lists w v }
  | .setSchedules ss =>
    match validateSchedules T st.lists ss with
    | .error e => .error e
    | .ok () => .ok { st with schedules := ss }

/-- `Experiment.copy()`: a new Experiment is constructed from (shallow copies of) the lists and schedules, without seed -/
def copyExp (T : Tables) (st : ExpState) : Except Err ExpState := construct T st.lists st.schedules

/-- a history of setter calls; a failing call leaves the state unchanged (the exception is caught by the caller).
Returns the per-call results and the final state. -/
def runOps (T : Tables) : ExpState → List Op → List (Option Err) × ExpState
  | st, [] => ([], st)
  | st, o :: os =>
    match step T st o with
    | .error e => let (rs, f) := runOps T st os; (some e :: rs, f)
    | .ok st' => let (rs, f) := runOps T st' os; (none :: rs, f)

/-! ## `calc_prob_dist` -/

/-- run-time type of an intermediate composition result, with the outcome shape where there is one -/
inductive QT
  | state
  | gate
  | povm (sh : List Nat)
  | mproc (sh : List Nat)
  | ens (shape : List Nat)     -- StateEnsemble
  | dist (shape : List Nat)    -- MultinomialDistribution
deriving Repr, DecidableEq

inductive CalcErr
  | badIndexType               -- TypeError: schedule_index not an int
  | badIndex                   -- IndexError: schedule_index out of range
  | isNone (pos : Nat)         -- ValueError "...s[i] is None" raised at item `pos`
  | py (e : PyExc)             -- anything else (unpacking, lookup, composition, `.ps`)
deriving Repr, DecidableEq

def CalcErr.toString : CalcErr → String
  | .badIndexType => "badIndexType" | .badIndex => "badIndex"
  | .isNone p => s!"isNone {p}" | .py e => s!"py {e.toString}"

/-- Python list indexing with an `int` (negative indices wrap) -/
def pyIndex {α : Type} (l : List α) (i : Int) : Option α :=
  if 0 ≤ i then l[i.toNat]? else if -i ≤ (l.length : Int) then l[l.length - (-i).toNat]? else none

def qtOf (name : String) (m : List Nat) : QT :=
  if name = "state" then .state else if name = "gate" then .gate
  else if name = "povm" then .povm m else .mproc m

/-- the loop over the schedule: look every object up, reject `None`; result in schedule order -/
def lookupTargets (L : Lists) : List Item → Nat → Except CalcErr (List QT)
  | [], _ => .ok []
  | .tuple [.str k, .int i] :: rest, pos =>
    match L.get? k with
    | none => .error (.py .keyError)
    | some l =>
      match pyIndex l i with
      | none => .error (.py .indexError)
      | some none => .error (.isNone pos)
      | some (some m) =>
        match lookupTargets L rest (pos + 1) with
        | .error e => .error e
        | .ok ts => .ok (qtOf k m :: ts)
  | _ :: _, _ => .error (.py .typeError)      -- `k, i = item` / lookup fails

def prodNat (l : List Nat) : Nat := l.foldr (· * ·) 1

/-- `_compose_qoperations(elem1, elem2)`: type dispatch. Unless one side is a StateEnsemble both
`composite_system` attributes are read first (a MultinomialDistribution has none). -/
def compose (e1 e2 : QT) : Except PyExc QT :=
  let isEns : QT → Bool := fun | .ens _ => true | _ => false
  let isDist : QT → Bool := fun | .dist _ => true | _ => false
  if !(isEns e1 || isEns e2) && (isDist e1 || isDist e2) then .error .attributeError
  else match e1, e2 with
    | .gate, .gate => .ok .gate
    | .gate, .mproc m => .ok (.mproc m)
    | .mproc m, .gate => .ok (.mproc m)
    | .mproc m1, .mproc m2 => .ok (.mproc (m1 ++ m2))
    | .gate, .state => .ok .state
    | .gate, .ens sh => .ok (.ens sh)
    | .mproc m, .state => .ok (.ens m)                    -- MultinomialDistribution(ps, shape=elem1.shape)
    | .mproc m, .ens sh => .ok (.ens (sh ++ m))           -- shape = elem2.prob_dist.shape + elem1.shape
    | .povm m, .gate => .ok (.povm m)
    | .povm m, .mproc m2 => .ok (.povm [prodNat m2 * prodNat m])
    | .povm m, .state => .ok (.dist [prodNat m])          -- MultinomialDistribution(prob, prob.shape): FLAT
    | .povm m, .ens sh => .ok (.dist (sh ++ m))           -- shape + elem1.nums_local_outcomes
    | _, _ => .error .typeError

/-- `temp = element_list[-1]; for elem in reversed(element_list[:-1]): temp = compose(elem, temp)` where
`element_list` is the schedule reversed: the fold runs over the schedule from its second item -/
def composeFrom (temp : QT) : List QT → Except PyExc QT
  | [] => .ok temp
  | e :: rest =>
    match compose e temp with
    | .error x => .error x
    | .ok t => composeFrom t rest

/-- returns the shape of the distribution whose `.ps` is returned -/
def calcProbDist (st : ExpState) (idx : PyVal) : Except CalcErr (List Nat) :=
  match idx with
  | .int i =>
    if ¬ (0 ≤ i ∧ i < (st.schedules.length : Int)) then .error .badIndex
    else match st.schedules[i.toNat]? with
      | some (.items its) =>
        match lookupTargets st.lists its 0 with
        | .error e => .error e
        | .ok [] => .error (.py .valueError)          -- compose_qoperations: fewer than two arguments
        | .ok (t :: ts) =>
          if ts.isEmpty then .error (.py .valueError)
          else match composeFrom t ts with
            | .error x => .error (.py x)
            | .ok (.dist sh) => .ok sh
            | .ok _ => .error (.py .attributeError)    -- `.ps` of a non-distribution
      | _ => .error (.py .typeError)
  | _ => .error .badIndexType

/-! ## tomography classes: schedule handling at the head of `__init__` -/

structure TomoSpec where
  pos : List (Nat × String)     -- `schedule[p][0] != k or …` (left to right, short-circuit)
  zero : Nat                    -- `schedule[zero][1] != 0`
  lists : List Nat              -- states, povms, gates, mprocesses: 0 = [], 1 = [None], 2 = parameter
  len : Option Nat              -- leading test `len(schedule) != n or …` (none: the class has no length test)
deriving Repr, DecidableEq

def qstSpec : TomoSpec := ⟨QGen.C20.qstPos, QGen.C20.qstZero, QGen.C20.qstLists, QGen.C20.qstLen⟩
def povmtSpec : TomoSpec := ⟨QGen.C20.povmtPos, QGen.C20.povmtZero, QGen.C20.povmtLists, QGen.C20.povmtLen⟩
def qptSpec : TomoSpec := ⟨QGen.C20.qptPos, QGen.C20.qptZero, QGen.C20.qptLists, QGen.C20.qptLen⟩
def qmptSpec : TomoSpec := ⟨QGen.C20.qmptPos, QGen.C20.qmptZero, QGen.C20.qmptLists, QGen.C20.qmptLen⟩

inductive Cls | qst | povmt | qpt | qmpt
deriving Repr, DecidableEq

def Cls.spec : Cls → TomoSpec
  | .qst => qstSpec | .povmt => povmtSpec | .qpt => qptSpec | .qmpt => qmptSpec

inductive TomoErr
  | str                        -- ValueError of `_validate_schedules_str`
  | exp (e : Err)              -- raised by the Experiment constructor
  | value (i : Nat)            -- ValueError "schedules[i] is invalid"
  | index                      -- IndexError: positional test on a short schedule
  | unmodelled
deriving Repr, DecidableEq

def TomoErr.toString : TomoErr → String
  | .str => "str" | .exp e => e.toString | .value i => s!"value {i}" | .index => "index"
  | .unmodelled => "unmodelled"

/-- the `or` chain: `some true` = some test fired, `none` = IndexError while evaluating it -/
def posTests (s : List (String × Int)) : List (Nat × String) → Option Bool
  | [] => some false
  | (p, k) :: rest =>
    match s[p]? with
    | none => none
    | some (n, _) => if n ≠ k then some true else posTests s rest

/-- the first `if`: optional length test, then the positional kind tests (one short-circuit `or` chain) -/
def firstTest (sp : TomoSpec) (s : List (String × Int)) : Option Bool :=
  match sp.len with
  | some n => if s.length ≠ n then some true else posTests s sp.pos
  | none => posTests s sp.pos

def tomoValidateOne (sp : TomoSpec) (i : Nat) (s : List (String × Int)) : Except TomoErr Unit :=
  match firstTest sp s with
  | none => .error .index
  | some true => .error (.value i)
  | some false =>
    match s[sp.zero]? with
    | none => .error .index
    | some (_, x) => if x ≠ 0 then .error (.value i) else .ok ()

def tomoValidate (sp : TomoSpec) : List (List (String × Int)) → Nat → Except TomoErr Unit
  | [], _ => .ok ()
  | s :: rest, i =>
    match tomoValidateOne sp i s with
    | .error e => .error e
    | .ok () => tomoValidate sp rest (i + 1)

def Item.pair? : Item → Option (String × Int)
  | .tuple [.str n, .int i] => some (n, i)
  | _ => none

def Schedule.pairs? : Schedule → Option (List (String × Int))
  | .items its => its.mapM Item.pair?
  | .nonIterable => none
  | .nonSequence _ _ => none

/-- the `schedules == "all"` expansions -/
def allSchedules (c : Cls) (nStates nPovms : Nat) : List Schedule :=
  match c with
  | .qst => (List.range nPovms).map fun (i : Nat) => .items [Item.mk "state" 0, Item.mk "povm" i]
  | .povmt => (List.range nStates).map fun (i : Nat) => .items [Item.mk "state" i, Item.mk "povm" 0]
  | .qpt => (List.range nStates).flatMap fun (i : Nat) => (List.range nPovms).map fun (j : Nat) =>
      .items [Item.mk "state" i, Item.mk "gate" 0, Item.mk "povm" j]
  | .qmpt => (List.range nStates).flatMap fun (i : Nat) => (List.range nPovms).map fun (j : Nat) =>
      .items [Item.mk "state" i, Item.mk "mprocess" 0, Item.mk "povm" j]

def listOfCode (code n : Nat) : ObjList :=
  if code = 0 then [] else if code = 1 then [none] else List.replicate n (some [2])

/-- the lists the class hands to `Experiment` given its `states`/`povms` parameters of these sizes -/
def tomoLists (sp : TomoSpec) (nStates nPovms : Nat) : Lists :=
  { state := listOfCode (sp.lists.getD 0 0) nStates, povm := listOfCode (sp.lists.getD 1 0) nPovms,
    gate := listOfCode (sp.lists.getD 2 0) 0, mprocess := listOfCode (sp.lists.getD 3 0) 0 }

inductive SchedArg
  | str (s : String)
  | list (ss : List Schedule)
deriving Repr, DecidableEq

/-- head of `Standard*.__init__`: string check, `"all"` expansion, Experiment construction, class-specific test.
Returns the schedules the experiment holds. -/
def tomoCtor (T : Tables) (c : Cls) (nStates nPovms : Nat) (a : SchedArg) : Except TomoErr (List Schedule) :=
  let go (ss : List Schedule) : Except TomoErr (List Schedule) :=
    match construct T (tomoLists c.spec nStates nPovms) ss with
    | .error e => .error (.exp e)
    | .ok _ =>
      match ss.mapM Schedule.pairs? with
      | none => .error .unmodelled      -- unreachable after a successful construction (QProps: `tomo_reject_kinds` shows `.unmodelled` and `.index` never result)
      | some ps =>
        match tomoValidate c.spec ps 0 with
        | .error e => .error e
        | .ok () => .ok ss
  match a with
  | .str s =>
    if !QGen.C20.supportedStrs.contains s then .error .str
    else if s = "all" then go (allSchedules c nStates nPovms)
    else .error .unmodelled             -- a supported string other than "all" would be iterated as a schedule list
  | .list ss => go ss

/-! ## driver (text protocol) -/

/-- `-` | one char per object (`N` = None, digit `m` = shape `[m]`) | with a `.`: objects separated by `.`, each `N` or
dimensions joined by `x` (`2x3`) -/
def parseObjList? (s : String) : Option ObjList :=
  if s = "-" then some []
  else if s.contains '.' then
    ((s.splitOn ".").filter (· ≠ "")).mapM fun t =>
      if t = "N" then some none else ((t.splitOn "x").mapM String.toNat?).map some
  else s.toList.mapM fun c =>
    if c = 'N' then some none
    else if c.isDigit then some (some [c.toNat - '0'.toNat]) else none

def parseLists? (a b c d : String) : Option Lists := do
  let a ← parseObjList? a; let b ← parseObjList? b; let c ← parseObjList? c; let d ← parseObjList? d
  pure ⟨a, b, c, d⟩

def parsePyVal? (s : String) : Option PyVal :=
  match s.splitOn ":" with
  | ["s", n] => some (.str n)
  | ["i", n] => n.toInt?.map .int
  | ["b", n] => if n = "1" then some (.bool true) else if n = "0" then some (.bool false) else none
  | ["n"] => some .none
  | ["f"] => some .float
  | ["o"] => some .other
  | _ => none

/-- `X` | `T` (empty tuple) | `Tf,f,…` -/
def parseItem? (s : String) : Option Item :=
  if s = "X" then some .nonTuple
  else if s = "T" then some (.tuple [])
  else match s.toList with
    | 'T' :: rest => ((String.ofList rest).splitOn ",").mapM parsePyVal? |>.map .tuple
    | _ => none

def parseItems? (s : String) : Option (List Item) :=
  if s = "-" then some [] else (s.splitOn ";").mapM parseItem?

/-- `!` | `-` (empty) | items joined by `;` | `G:`/`D:`/`Z:` + items (generator / dict / set yielding these items) -/
def parseSchedule? (s : String) : Option Schedule :=
  if s = "!" then some .nonIterable
  else match s.splitOn ":" with
    | _ => 
      if s.startsWith "G:" then (parseItems? (String.ofList (s.toList.drop 2))).map (.nonSequence .noLen)
      else if s.startsWith "D:" then (parseItems? (String.ofList (s.toList.drop 2))).map (.nonSequence .keyed)
      else if s.startsWith "Z:" then (parseItems? (String.ofList (s.toList.drop 2))).map (.nonSequence .unordered)
      else (parseItems? s).map .items

/-- `~` (no schedule) | schedules joined by `|` -/
def parseSchedules? (s : String) : Option (List Schedule) :=
  if s = "~" then some [] else (s.splitOn "|").mapM parseSchedule?

def showPyVal : PyVal → String
  | .str s => s!"s:{s}" | .int i => s!"i:{i}" | .bool b => if b then "b:1" else "b:0"
  | .none => "n" | .float => "f" | .other => "o"

def showItem : Item → String
  | .nonTuple => "X"
  | .tuple fs => "T" ++ ",".intercalate (fs.map showPyVal)

def showSchedule : Schedule → String
  | .nonIterable => "!"
  | .nonSequence k l =>
    (match k with | .noLen => "G:" | .keyed => "D:" | .unordered => "Z:") ++
      (if l.isEmpty then "-" else ";".intercalate (l.map showItem))
  | .items [] => "-"
  | .items l => ";".intercalate (l.map showItem)

def showSchedules (ss : List Schedule) : String :=
  if ss.isEmpty then "~" else "|".intercalate (ss.map showSchedule)

def showObjList (l : ObjList) : String :=
  if l.isEmpty then "-"
  else if l.all (fun | none => true | some [d] => d < 10 | some _ => false) then
    String.join (l.map fun | none => "N" | some sh => String.join (sh.map toString))
  else ".".intercalate (l.map fun | none => "N" | some sh => "x".intercalate (sh.map toString)) ++ "."

def showLists (L : Lists) : String :=
  s!"{showObjList L.state} {showObjList L.povm} {showObjList L.gate} {showObjList L.mprocess}"

def showRes (r : Except Err Unit) : String :=
  match r with | .ok () => "ok" | .error e => e.toString

def parseOp? (s : String) : Option Op :=
  match s.splitOn "=" with
  | ["S", v] => (parseObjList? v).map (.setList .state)
  | ["P", v] => (parseObjList? v).map (.setList .povm)
  | ["G", v] => (parseObjList? v).map (.setList .gate)
  | ["M", v] => (parseObjList? v).map (.setList .mprocess)
  | ["C", v] => (parseSchedules? v).map .setSchedules
  | _ => none

def parseCls? (s : String) : Option Cls :=
  if s = "qst" then some .qst else if s = "povmt" then some .povmt
  else if s = "qpt" then some .qpt else if s = "qmpt" then some .qmpt else none

def handle (args : List String) : Option String :=
  match args with
  | ["exp", a, b, c, d, ss] => do
      let L ← parseLists? a b c d
      let ss ← parseSchedules? ss
      some (showRes (validateSchedules tables L ss))
  | ["item", a, b, c, d, it] => do
      let L ← parseLists? a b c d
      let it ← parseItem? it
      match validateItem tables L it with
      | .ok _ => some "ok"
      | .error e => some e.toString
  | ["order", names] => do
      let names ← parseList? (fun s => some s) names
      match validateOrder tables names with
      | .ok () => some "ok"
      | .error r => some r.toString
  | "seq" :: a :: b :: c :: d :: ss :: ops => do
      let L ← parseLists? a b c d
      let ss ← parseSchedules? ss
      let ops ← ops.mapM parseOp?
      match construct tables L ss with
      | .error e => some s!"ctor {e.toString}"
      | .ok st =>
        let (rs, f) := runOps tables st ops
        let rtxt := "/".intercalate (rs.map fun | none => "ok" | some e => e.toString)
        some s!"{rtxt} # {showLists f.lists} # {showSchedules f.schedules}"
  | ["copy", a, b, c, d, ss] => do
      let L ← parseLists? a b c d
      let ss ← parseSchedules? ss
      match construct tables L ss with
      | .error e => some s!"ctor {e.toString}"
      | .ok st =>
        match copyExp tables st with
        | .error e => some e.toString
        | .ok f => some s!"ok # {showLists f.lists} # {showSchedules f.schedules}"
  | ["calc", a, b, c, d, ss, idx] => do
      let L ← parseLists? a b c d
      let ss ← parseSchedules? ss
      let idx ← parsePyVal? idx
      match construct tables L ss with
      | .error e => some s!"ctor {e.toString}"
      | .ok st =>
        match calcProbDist st idx with
        | .ok sh => some s!"ok {showList toString sh}"
        | .error e => some e.toString
  | ["tomo", cls, ns, np, kind, arg] => do
      let c ← parseCls? cls
      let ns ← parseNat? ns
      let np ← parseNat? np
      let a ← if kind = "str" then some (SchedArg.str arg)
              else if kind = "list" then (parseSchedules? arg).map SchedArg.list else none
      match tomoCtor tables c ns np a with
      | .ok ss => some s!"ok {showSchedules ss}"
      | .error e => some e.toString
  | _ => none

end QM.C20
