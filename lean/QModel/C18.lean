import QModel.Core
/-! C18 — model (not built yet) -/
namespace QM.C18
def handle (_args : List String) : Option String := none
end QM.C18
