import QModel.Core
import QGen.C18
/-!
# C18 — Lindbladian generators (model of quara/objects/effective_lindbladian.py and the
sparse tables `basis_basisconjugate_T_sparse_from_1` / `basishermitian_basis_T_from_1` of
quara/objects/composite_system.py)

Two layers.

* A scalar-polymorphic **core** (`convertHs`, `calcHMat`, `calcJMat`, `calcKMat`, the part builders,
  `jMatFromKMat`, the rebuild functions, the jump-operator builders, `projEq`, `expSeries`) over any type
  with the core arithmetic classes plus a conjugation (`HasConj`) and an imaginary unit (`HasI`);
  it is executed at `CRat` (complex rationals: every float is one) and reasoned about at Mathlib fields.
* A `CRat`/`Rat`-specific **wrapper** layer with the float-threshold logic of the code as it is:
  the Hermitian guards `_check_*_mat`, `_truncate_hs`, `is_tp`, `is_cp`, `calc_proj_ineq_constraint`.

The model mirrors the code *as it is*: `calcJMat` enumerates the whole basis with `delta = 1` on the identity
element (D12 repaired upstream by `fix:` 8192d10), `jPartCbFromJump` uses the jump operators themselves
(not `c†c`, D13).
-/
namespace QM.C18
open QM

class HasConj (K : Type) where conj : K → K
class HasI (K : Type) where ii : K
export HasConj (conj)
export HasI (ii)

/-! ## complex rationals -/
structure CRat where
  re : Rat
  im : Rat
deriving DecidableEq, Repr

namespace CRat
instance : Add CRat := ⟨fun a b => ⟨a.re + b.re, a.im + b.im⟩⟩
instance : Sub CRat := ⟨fun a b => ⟨a.re - b.re, a.im - b.im⟩⟩
instance : Neg CRat := ⟨fun a => ⟨-a.re, -a.im⟩⟩
instance : Mul CRat := ⟨fun a b => ⟨a.re * b.re - a.im * b.im, a.re * b.im + a.im * b.re⟩⟩
instance : Zero CRat := ⟨⟨0, 0⟩⟩
instance : One CRat := ⟨⟨1, 0⟩⟩
instance : NatCast CRat := ⟨fun n => ⟨(n : Rat), 0⟩⟩
instance : Div CRat := ⟨fun a b =>
  let n := b.re * b.re + b.im * b.im
  ⟨(a.re * b.re + a.im * b.im) / n, (a.im * b.re - a.re * b.im) / n⟩⟩
instance : HasConj CRat := ⟨fun a => ⟨a.re, -a.im⟩⟩
instance : HasI CRat := ⟨⟨0, 1⟩⟩
def ofRat (q : Rat) : CRat := ⟨q, 0⟩
/-- squared modulus -/
def abs2 (a : CRat) : Rat := a.re * a.re + a.im * a.im
end CRat

instance : HasConj Rat := ⟨id⟩

/-! ## index helpers: `Fin (d*d)` as row-major pairs -/
section idx
variable {d : Nat}

def pr (i j : Fin d) : Fin (d * d) :=
  ⟨i.val * d + j.val, by
    have h1 : i.val * d + j.val < (i.val + 1) * d := by
      rw [Nat.add_mul, Nat.one_mul]; exact Nat.add_lt_add_left j.isLt _
    exact Nat.lt_of_lt_of_le h1 (Nat.mul_le_mul_right d i.isLt)⟩

def p1 (r : Fin (d * d)) : Fin d := ⟨r.val / d, Nat.div_lt_of_lt_mul r.isLt⟩

def p2 (r : Fin (d * d)) : Fin d :=
  ⟨r.val % d, Nat.mod_lt _ (Nat.pos_of_ne_zero (by
    intro h; have := r.isLt; subst h; simp at this))⟩

/-- index `a+1` of the full basis for an index `a` of `basis[1:]` -/
def suc (a : Fin (d * d - 1)) : Fin (d * d) := ⟨a.val + 1, by have := a.isLt; omega⟩
end idx

/-! ## polymorphic core -/
section core
variable {K : Type} [Add K] [Mul K] [Neg K] [Sub K] [Zero K] [One K] [Div K] [NatCast K]
  [HasConj K] [HasI K] {d m n : Nat}

/-- entrywise sum of a family of matrices -/
def msum (k : Nat) (f : Fin k → Mat K m n) : Mat K m n :=
  let fs : Vector (Mat K m n) k := Vector.ofFn f   -- materialise the summands once
  Mat.ofFn fun i j => fsum k fun a => (fs[a]).get i j

/-- `np.trace(A @ B)` -/
def trMul (A B : Mat K n n) : K := fsum n fun r => fsum n fun c => A.get r c * B.get c r

def conjM (A : Mat K m n) : Mat K m n := Mat.ofFn fun i j => conj (A.get i j)
/-- conjugate transpose -/
def adj (A : Mat K m n) : Mat K n m := Mat.ofFn fun i j => conj (A.get j i)

/-- `np.kron` of two `d×d` matrices -/
def kron (A B : Mat K d d) : Mat K (d * d) (d * d) :=
  Mat.ofFn fun r c => A.get (p1 r) (p1 c) * B.get (p2 r) (p2 c)

/-- row-major `flatten` / `reshape` -/
def flatten (A : Mat K d d) : Vec K (d * d) := Vec.ofFn fun r => A.get (p1 r) (p2 r)
def unflatten (v : Vec K (d * d)) : Mat K d d := Mat.ofFn fun i j => v.get (pr i j)

/-- `np.vdot(a, b)` on matrices -/
def vdot (A B : Mat K d d) : K := fsum d fun i => fsum d fun j => conj (A.get i j) * B.get i j

abbrev Basis (K : Type) (d : Nat) := Vec (Mat K d d) (d * d)

/-- `get_comp_basis(dim)` (row major) -/
def compBasis (K : Type) [Zero K] [One K] (d : Nat) : Basis K d :=
  Vec.ofFn fun r => Mat.ofFn fun i j => if i = p1 r ∧ j = p2 r then 1 else 0

/-- `U[α,β] = vdot(to_basis[α], from_basis[β])` -/
def transMat (fromB toB : Basis K d) : Mat K (d * d) (d * d) :=
  Mat.ofFn fun a b => vdot (toB.get a) (fromB.get b)

/-- `convert_hs(from_hs, from_basis, to_basis) = U @ from_hs @ U.conj().T` -/
def convertHs (hs : Mat K (d * d) (d * d)) (fromB toB : Basis K d) : Mat K (d * d) (d * d) :=
  let U := transMat fromB toB
  (U.mul hs).mul (adj U)

/-- `lindbladian_cb = convert_hs(self.hs, basis, comp_basis)` -/
def toComp (B : Basis K d) (hs : Mat K (d * d) (d * d)) : Mat K (d * d) (d * d) :=
  convertHs hs B (compBasis K d)
def toHerm (B : Basis K d) (cb : Mat K (d * d) (d * d)) : Mat K (d * d) (d * d) :=
  convertHs cb (compBasis K d) B

def two : K := 1 + 1
def dK (d : Nat) : K := (d : K)

/-- coefficient of `B_α` in `calc_h_mat`: `1j/(2 dim) · tr(L_cb (B_α⊗1 − 1⊗conj B_α))` -/
def hCoef (B : Basis K d) (L : Mat K (d * d) (d * d)) (a : Fin (d * d)) : K :=
  let Ba := B.get a
  ii / (two * dK d) * trMul L ((kron Ba Mat.one).sub (kron Mat.one (conjM Ba)))

/-- coefficient of `B_α` in `calc_j_mat`: `1/(2 dim (1+δ)) · tr(L_cb (B_α⊗1 + 1⊗conj B_α))`;
`first` says whether this is the first enumerated element (`delta = 1`). -/
def jCoef (B : Basis K d) (L : Mat K (d * d) (d * d)) (a : Fin (d * d)) (first : Bool) : K :=
  let Ba := B.get a
  let delta : K := if first then 1 else 0
  1 / (two * dK d * (1 + delta)) * trMul L ((kron Ba Mat.one).add (kron Mat.one (conjM Ba)))

/-! ### extraction loops, driven by the constants GENERATED from the source (lean/QGen/C18.lean)

`harness/c18.py:translate` re-reads `calc_h_mat`, `calc_j_mat`, `calc_k_mat` on every run and regenerates the slice start of
the loop over the basis, the sign between the two Kronecker terms, the conjugation flag, numerator / denominator of the
coefficient and the position of `delta`. The executed extraction below is the generic loop instantiated with those
constants; `QProofs/C18.lean` proves it equal to the reference formulas (`hCoef`, `jCoef`), so a source edit of the
index glue re-opens that proof obligation. -/

/-- `np.trace(L_cb @ (kron(B, 1) ± kron(1, B[.conj()])))` -/
def pairG (neg cj : Bool) (L : Mat K (d * d) (d * d)) (Ba : Mat K d d) : K :=
  let second := kron Mat.one (if cj then conjM Ba else Ba)
  trMul L (if neg then (kron Ba Mat.one).sub second else (kron Ba Mat.one).add second)

/-- `(1j | 1) / (den * dim [* (1 + delta)]) * trace` -/
def coefG (imag : Bool) (den : Nat) (neg cj isDelta : Bool) (B : Basis K d) (L : Mat K (d * d) (d * d))
    (a : Fin (d * d)) : K :=
  (if imag then ii else 1) / ((den : K) * dK d * (1 + (if isDelta then 1 else 0))) * pairG neg cj L (B.get a)

/-- `for alpha, B_alpha in enumerate(basis[start:])`: elements before `start` are not visited; `alpha` counts from the
slice start; `delta = 1 if alpha == deltaAt` -/
def extractG (start : Nat) (deltaAt : Option Nat) (imag : Bool) (den : Nat) (neg cj : Bool)
    (B : Basis K d) (L : Mat K (d * d) (d * d)) : Mat K d d :=
  msum (d * d) fun a =>
    if a.val < start then Mat.zero
    else (B.get a).smul (coefG imag den neg cj (deltaAt == some (a.val - start)) B L a)

/-- `calc_h_mat` on the comp-basis generator -/
def calcHMatCb (B : Basis K d) (L : Mat K (d * d) (d * d)) : Mat K d d :=
  extractG QGen.C18.hLoopStart QGen.C18.hDeltaAt QGen.C18.hNumImag QGen.C18.hDen QGen.C18.hNegSecond
    QGen.C18.hConjSecond B L

/-- `calc_j_mat` on the comp-basis generator (whole basis, `delta` on the identity element since `fix:` 8192d10) -/
def calcJMatCb (B : Basis K d) (L : Mat K (d * d) (d * d)) : Mat K d d :=
  extractG QGen.C18.jLoopStart QGen.C18.jDeltaAt QGen.C18.jNumImag QGen.C18.jDen QGen.C18.jNegSecond
    QGen.C18.jConjSecond B L

/-- `calc_k_mat`: `k[α,β] = tr(L_cb · B_{α+1} ⊗ conj B_{β+1})` (both loops over `basis[1:]` — the translator insists on
the slice start 1, which the shape `dim² − 1` of the result needs; the conjugation flag is generated) -/
def calcKMatCb (B : Basis K d) (L : Mat K (d * d) (d * d)) : Mat K (d * d - 1) (d * d - 1) :=
  Mat.ofFn fun a b => trMul L (kron (B.get (suc a))
    (if QGen.C18.kConjSecond then conjM (B.get (suc b)) else B.get (suc b)))

/-- the methods start with `lindbladian_cb = convert_hs(self.hs, basis, comp_basis)` -/
def calcHMat (B : Basis K d) (hs : Mat K (d * d) (d * d)) : Mat K d d := calcHMatCb B (toComp B hs)
def calcJMat (B : Basis K d) (hs : Mat K (d * d) (d * d)) : Mat K d d := calcJMatCb B (toComp B hs)
def calcKMat (B : Basis K d) (hs : Mat K (d * d) (d * d)) : Mat K (d * d - 1) (d * d - 1) :=
  calcKMatCb B (toComp B hs)

/-- `_calc_h_part_from_h_mat` -/
def hPart (h : Mat K d d) : Mat K (d * d) (d * d) :=
  ((kron h Mat.one).sub (kron Mat.one (conjM h))).smul (-ii)

/-- `_calc_j_part_from_j_mat` -/
def jPart (j : Mat K d d) : Mat K (d * d) (d * d) :=
  (kron j Mat.one).add (kron Mat.one (conjM j))

/-- `_calc_k_part_from_k_mat` (sparse table `basis_basisconjugate_T_sparse_from_1 · k.flatten()`):
`Σ_{a,b} k[a,b] · B_{a+1} ⊗ conj B_{b+1}` -/
def kPart (B : Basis K d) (k : Mat K (d * d - 1) (d * d - 1)) : Mat K (d * d) (d * d) :=
  msum (d * d - 1) fun a => msum (d * d - 1) fun b =>
    (kron (B.get (suc a)) (conjM (B.get (suc b)))).smul (k.get a b)

/-- `_calc_j_mat_from_k_mat` (table `basishermitian_basis_T_from_1`):
`−1/2 · Σ_{a,b} k[a,b] · B_{b+1}† B_{a+1}` -/
def jMatFromKMat (B : Basis K d) (k : Mat K (d * d - 1) (d * d - 1)) : Mat K d d :=
  (msum (d * d - 1) fun a => msum (d * d - 1) fun b =>
    ((adj (B.get (suc b))).mul (B.get (suc a))).smul (k.get a b)).smul (-(1 / two))

/-- comp-basis generator of `generate_hs_from_hjk` before conversion -/
def cbFromHjk (B : Basis K d) (h j : Mat K d d) (k : Mat K (d * d - 1) (d * d - 1)) :
    Mat K (d * d) (d * d) :=
  ((hPart h).add (jPart j)).add (kPart B k)

def cbFromH (h : Mat K d d) : Mat K (d * d) (d * d) := hPart h

def cbFromHk (B : Basis K d) (h : Mat K d d) (k : Mat K (d * d - 1) (d * d - 1)) :
    Mat K (d * d) (d * d) :=
  ((hPart h).add (jPart (jMatFromKMat B k))).add (kPart B k)

def cbFromK (B : Basis K d) (k : Mat K (d * d - 1) (d * d - 1)) : Mat K (d * d) (d * d) :=
  (jPart (jMatFromKMat B k)).add (kPart B k)

/-- sum of a list of matrices (`reduce(add, terms)`; the empty list is a `TypeError`) -/
def lsumM : List (Mat K m n) → Option (Mat K m n)
  | [] => none
  | x :: xs => some (xs.foldl Mat.add x)

/-- `generate_j_part_cb_from_jump_operators` as coded: the operators themselves enter, not `c†c`. -/
def jPartCbFromJump (cs : List (Mat K d d)) : Option (Mat K (d * d) (d * d)) :=
  (lsumM (cs.map fun c => (kron c Mat.one).add (kron Mat.one (conjM c)))).map
    fun s => s.smul (-(1 / two))

/-- `generate_k_part_cb_from_jump_operators` -/
def kPartCbFromJump (cs : List (Mat K d d)) : Option (Mat K (d * d) (d * d)) :=
  lsumM (cs.map fun c => kron c (conjM c))

/-- `generate_d_part_cb_from_jump_operators` -/
def dPartCbFromJump (cs : List (Mat K d d)) : Option (Mat K (d * d) (d * d)) := do
  let j ← jPartCbFromJump cs
  let k ← kPartCbFromJump cs
  pure (j.add k)

/-- what the GKSL equation prescribes for the anti-commutator part: `−1/2 Σ (c†c ⊗ 1 + 1 ⊗ conj(c†c))` -/
def jPartCbFromJumpGksl (cs : List (Mat K d d)) : Option (Mat K (d * d) (d * d)) :=
  (lsumM (cs.map fun c =>
      let g := (adj c).mul c
      (kron g Mat.one).add (kron Mat.one (conjM g)))).map
    fun s => s.smul (-(1 / two))

/-- the GKSL dissipator `Σ_c (c ⊗ conj c − ½(c†c ⊗ 1 + 1 ⊗ conj(c†c)))` — what the property prescribes -/
def dPartCbFromJumpGksl (cs : List (Mat K d d)) : Option (Mat K (d * d) (d * d)) := do
  let j ← jPartCbFromJumpGksl cs
  let k ← kPartCbFromJump cs
  pure (j.add k)

/-- action of a comp-basis superoperator on a matrix: `unvec(L_cb · vec ρ)` -/
def act (L : Mat K (d * d) (d * d)) (rho : Mat K d d) : Mat K d d :=
  unflatten (L.mulVec (flatten rho))

/-- Choi matrix `Σ_ij E_ij ⊗ Φ(E_ij)` of the map with comp-basis matrix `L` (a reshuffle of its entries):
entry `((i,k),(j,l)) = Φ(E_ij)[k,l] = L[(k,l),(i,j)]` -/
def choiCb (L : Mat K (d * d) (d * d)) : Mat K (d * d) (d * d) :=
  Mat.ofFn fun r c => L.get (pr (p2 r) (p2 c)) (pr (p1 r) (p1 c))

/-- `calc_proj_eq_constraint`: `new_hs[0, :] = 0` -/
def projEq {R : Type} [Zero R] (hs : Mat R n n) : Mat R n n :=
  Mat.ofFn fun i j => if i.val = 0 then 0 else hs.get i j

end core

/-! ## truncated exponential series (independent reference for `to_gate`'s `expm`) -/
section expo
variable {R : Type} [Add R] [Mul R] [Zero R] [One R] [Div R] [NatCast R] {n : Nat}

/-- `(term_k, sum_{j≤k} term_j)` with `term_k = L^k / k!` -/
def expLoop (L : Mat R n n) : Nat → Mat R n n × Mat R n n
  | 0 => (Mat.one, Mat.one)
  | k + 1 =>
    let (t, s) := expLoop L k
    let t' := (t.mul L).smul (1 / ((k + 1 : Nat) : R))
    (t', s.add t')

def expSeries (L : Mat R n n) (N : Nat) : Mat R n n := (expLoop L N).2
end expo

/-! ## float-threshold layer (`CRat`, `Rat`) -/

inductive Err
  | notHermitianH | notHermitianJ | notHermitianK | imagPart | emptyJump
deriving Repr, DecidableEq

def Err.toString : Err → String
  | .notHermitianH => "notHermitianH" | .notHermitianJ => "notHermitianJ"
  | .notHermitianK => "notHermitianK" | .imagPart => "imagPart" | .emptyJump => "emptyJump"

def rabs (q : Rat) : Rat := if q < 0 then -q else q

/-- `mutil.is_hermitian(matrix, atol)`: `|a − conj(aᵀ)| ≤ atol` entrywise (complex modulus, `rtol = 0`),
decided exactly through squares. -/
def isHermitian {n : Nat} (A : Mat CRat n n) (atol : Rat) : Bool :=
  (List.finRange n).all fun i => (List.finRange n).all fun j =>
    decide (CRat.abs2 (A.get i j - conj (A.get j i)) ≤ atol * atol)

/-- `_truncate_hs(hs, eps)`: imaginary parts below `eps` dropped, any surviving one is a `ValueError`;
then real entries below `eps` in modulus are set to 0. -/
def truncateHs {n : Nat} (A : Mat CRat n n) (eps : Rat) : Except Err (Mat Rat n n) :=
  if (List.finRange n).any fun i => (List.finRange n).any fun j =>
      let x := A.get i j
      decide (¬ (rabs x.im < eps) ∧ x.im ≠ 0) then .error .imagPart
  else .ok (Mat.ofFn fun i j =>
      let x := (A.get i j).re
      if rabs x < eps then 0 else x)

def embed {m n : Nat} (A : Mat Rat m n) : Mat CRat m n := Mat.ofFn fun i j => CRat.ofRat (A.get i j)

variable {d : Nat}

/-- `generate_hs_from_hjk` -/
def hsFromHjk (B : Basis CRat d) (h j : Mat CRat d d) (k : Mat CRat (d * d - 1) (d * d - 1))
    (eps atol : Rat) : Except Err (Mat Rat (d * d) (d * d)) := do
  if !isHermitian h atol then throw .notHermitianH
  if !isHermitian j atol then throw .notHermitianJ
  if !isHermitian k atol then throw .notHermitianK
  truncateHs (toHerm B (cbFromHjk B h j k)) eps

/-- `generate_hs_from_h` -/
def hsFromH (B : Basis CRat d) (h : Mat CRat d d) (eps atol : Rat) :
    Except Err (Mat Rat (d * d) (d * d)) := do
  if !isHermitian h atol then throw .notHermitianH
  truncateHs (toHerm B (cbFromH h)) eps

/-- `generate_hs_from_hk` -/
def hsFromHk (B : Basis CRat d) (h : Mat CRat d d) (k : Mat CRat (d * d - 1) (d * d - 1))
    (eps atol : Rat) : Except Err (Mat Rat (d * d) (d * d)) := do
  if !isHermitian h atol then throw .notHermitianH
  if !isHermitian k atol then throw .notHermitianK
  truncateHs (toHerm B (cbFromHk B h k)) eps

/-- `generate_hs_from_k` -/
def hsFromK (B : Basis CRat d) (k : Mat CRat (d * d - 1) (d * d - 1))
    (eps atol : Rat) : Except Err (Mat Rat (d * d) (d * d)) := do
  if !isHermitian k atol then throw .notHermitianK
  truncateHs (toHerm B (cbFromK B k)) eps

/-- hs of `generate_effective_lindbladian_from_jump_operators` (the two `_truncate_hs` calls compose
to one because truncation is idempotent on its own output). -/
def hsFromJump (B : Basis CRat d) (cs : List (Mat CRat d d)) (eps : Rat) :
    Except Err (Mat Rat (d * d) (d * d)) :=
  match dPartCbFromJump cs with
  | none => .error .emptyJump
  | some cb => do
    let a ← truncateHs (toHerm B cb) eps
    truncateHs (embed a) eps

/-- `calc_?_part(mode_basis)`: comp basis = raw complex matrix, hermitian basis = converted and truncated -/
def partHerm (B : Basis CRat d) (cb : Mat CRat (d * d) (d * d)) (eps : Rat) :
    Except Err (Mat Rat (d * d) (d * d)) :=
  truncateHs (toHerm B cb) eps

/-- `is_tp`: `np.allclose(hs[0], 0, atol, rtol=0)` -/
def isTp {n : Nat} (hs : Mat Rat n n) (atol : Rat) : Bool :=
  (List.finRange n).all fun i => (List.finRange n).all fun j =>
    decide (i.val ≠ 0 ∨ rabs (hs.get i j) ≤ atol)

/-- `mutil.is_positive_semidefinite(k, atol)` with the `eigvalsh` result as a parameter:
Hermitian within `atol`, and every eigenvalue not within `atol` of 0 is `≥ 0`. -/
def isPsdVerdict {n : Nat} (k : Mat CRat n n) (eigs : List Rat) (atol : Rat) : Bool :=
  isHermitian k atol && eigs.all fun e => decide (rabs e ≤ atol ∨ 0 ≤ e)

/-- `is_cp` -/
def isCp (B : Basis CRat d) (hs : Mat Rat (d * d) (d * d)) (eigs : List Rat) (atol : Rat) : Bool :=
  isPsdVerdict (calcKMat B (embed hs)) eigs atol

/-- numpy's `<` on complex scalars is lexicographic -/
def cltZero (z : CRat) : Bool := decide (z.re < 0 ∨ (z.re = 0 ∧ z.im < 0))

def diagC {n : Nat} (v : Vec CRat n) : Mat CRat n n := Mat.ofFn fun i j => if i = j then v.get i else 0

/-- the clipped dissipator matrix of `calc_proj_ineq_constraint`:
`eigenvecs @ diag(eigenvals with negatives zeroed) @ eigenvecs.T.conj()`; `(eigenvals, eigenvecs)` is
numpy's `eig(k_mat)` result, a parameter. -/
def clipK {n : Nat} (lam : Vec CRat n) (V : Mat CRat n n) : Mat CRat n n :=
  let lam' : Vec CRat n := Vec.ofFn fun i => if cltZero (lam.get i) then 0 else lam.get i
  (V.mul (diagC lam')).mul (adj V)

/-- `calc_proj_ineq_constraint` (hs of the result); `calc_j_mat` is the coded one. -/
def projIneq (B : Basis CRat d) (hs : Mat Rat (d * d) (d * d))
    (lam : Vec CRat (d * d - 1)) (V : Mat CRat (d * d - 1) (d * d - 1)) (eps atol : Rat) :
    Except Err (Mat Rat (d * d) (d * d)) :=
  let e := embed hs
  hsFromHjk B (calcHMat B e) (calcJMat B e) (clipK lam V) eps atol

/-! ## constructor guards (`EffectiveLindbladian.__init__` → `Gate.__init__`) -/

inductive CtorErr
  | basisNotOnh0     -- "basis is not a orthonormal Hermitian matrix basis and 0th prop I."
  | notSquare        -- "HS must be square matrix."
  | dimNotSquare     -- "dim of HS must be square number."
  | notReal          -- "HS must be real matrix." (dtype != float64)
  | dimMismatch      -- "dim of HS must equal dim of CompositeSystem."
  | notPhysical      -- "the gate is not physically correct."
deriving Repr, DecidableEq

def CtorErr.toString : CtorErr → String
  | .basisNotOnh0 => "basisNotOnh0" | .notSquare => "notSquare" | .dimNotSquare => "dimNotSquare"
  | .notReal => "notReal" | .dimMismatch => "dimMismatch" | .notPhysical => "notPhysical"

/-- the ValueError branches of the constructor, in the order of the code: the basis flag of the composite system
(`is_orthonormal_hermitian_0thprop_identity`) first; then shape square, `int(sqrt(rows))² = rows`, dtype `float64`,
`dim = c_sys.dim`; last `is_physicality_required and not is_physical()` — `physical` is the verdict `is_tp and is_cp`
and is only consulted when physicality is required. -/
def ctorCheck (basisOnh0 : Bool) (rows cols : Nat) (isFloat64 : Bool) (csysDim : Nat) (required physical : Bool) :
    Except CtorErr Unit :=
  if !basisOnh0 then .error .basisNotOnh0
  else if rows ≠ cols then .error .notSquare
  else if (Nat.sqrt rows) * (Nat.sqrt rows) ≠ rows then .error .dimNotSquare
  else if !isFloat64 then .error .notReal
  else if Nat.sqrt rows ≠ csysDim then .error .dimMismatch
  else if required && !physical then .error .notPhysical
  else .ok ()

/-! ## driver -/

def listToVec? {α : Type} (l : List α) (n : Nat) : Option (Vector α n) :=
  if h : l.toArray.size = n then some ⟨l.toArray, h⟩ else none

/-- consecutive chunks of length `k` -/
def chunks {α : Type} (k : Nat) : Nat → List α → List (List α)
  | 0, _ => []
  | c + 1, l => l.take k :: chunks k c (l.drop k)

def toMat? {α : Type} (l : List α) (m n : Nat) : Option (Mat α m n) := do
  if l.length ≠ m * n then none
  let rows ← (chunks n m l).mapM fun r => listToVec? r n
  listToVec? rows m

def pairUp : List Rat → Option (List CRat)
  | [] => some []
  | a :: b :: r => (pairUp r).map fun t => ⟨a, b⟩ :: t
  | _ => none

def parseCMat (s : String) (m n : Nat) : Option (Mat CRat m n) := do
  let l ← parseList? parseRat? s
  let c ← pairUp l
  toMat? c m n

def parseRMat (s : String) (m n : Nat) : Option (Mat Rat m n) := do
  let l ← parseList? parseRat? s
  toMat? l m n

def parseCVec (s : String) (n : Nat) : Option (Vec CRat n) := do
  let l ← parseList? parseRat? s
  let c ← pairUp l
  listToVec? c n

/-- basis: `d*d` matrices of size `d×d`, concatenated -/
def parseBasis (s : String) (d : Nat) : Option (Basis CRat d) := do
  let l ← parseList? parseRat? s
  let c ← pairUp l
  if c.length ≠ d * d * (d * d) then none
  let ms ← (chunks (d * d) (d * d) c).mapM fun r => toMat? r d d
  listToVec? ms (d * d)

/-- list of `d×d` matrices, concatenated (any count) -/
def parseCMats (s : String) (d : Nat) : Option (List (Mat CRat d d)) := do
  let l ← parseList? parseRat? s
  let c ← pairUp l
  if d = 0 then none
  if c.length % (d * d) ≠ 0 then none
  (chunks (d * d) (c.length / (d * d)) c).mapM fun r => toMat? r d d

def matList {α : Type} {m n : Nat} (A : Mat α m n) : List α :=
  (List.finRange m).flatMap fun i => (List.finRange n).map fun j => A.get i j

def showCMat {m n : Nat} (A : Mat CRat m n) : String :=
  showList showRat ((matList A).flatMap fun z => [z.re, z.im])

def showRMat {m n : Nat} (A : Mat Rat m n) : String := showList showRat (matList A)

def showExc {m n : Nat} (r : Except Err (Mat Rat m n)) : String :=
  match r with
  | .error e => s!"err {e.toString}"
  | .ok A => s!"ok {showRMat A}"

def handle (args : List String) : Option String :=
  match args with
  | ["ext", op, ds, bs, hss] => do
      -- extraction from a (real) hs
      let d ← parseNat? ds
      let B ← parseBasis bs d
      let hs ← parseRMat hss (d * d) (d * d)
      let e := embed hs
      match op with
      | "hmat" => some s!"ok {showCMat (calcHMat B e)}"
      | "jmat" => some s!"ok {showCMat (calcJMat B e)}"
      | "kmat" => some s!"ok {showCMat (calcKMat B e)}"
      | "tocomp" => some s!"ok {showCMat (toComp B e)}"
      | "hpartcb" => some s!"ok {showCMat (hPart (calcHMat B e))}"
      | "jpartcb" => some s!"ok {showCMat (jPart (calcJMat B e))}"
      | "kpartcb" => some s!"ok {showCMat (kPart B (calcKMat B e))}"
      | _ => none
  | ["part", op, ds, bs, hss, eps] => do
      let d ← parseNat? ds
      let B ← parseBasis bs d
      let hs ← parseRMat hss (d * d) (d * d)
      let eps ← parseRat? eps
      let e := embed hs
      match op with
      | "hpart" => some (showExc (partHerm B (hPart (calcHMat B e)) eps))
      | "jpart" => some (showExc (partHerm B (jPart (calcJMat B e)) eps))
      | "kpart" => some (showExc (partHerm B (kPart B (calcKMat B e)) eps))
      | "dpart" => some (showExc (partHerm B ((jPart (calcJMat B e)).add (kPart B (calcKMat B e))) eps))
      | _ => none
  | ["fromhjk", ds, bs, h, j, k, eps, atol] => do
      let d ← parseNat? ds
      let B ← parseBasis bs d
      let h ← parseCMat h d d
      let j ← parseCMat j d d
      let k ← parseCMat k (d * d - 1) (d * d - 1)
      some (showExc (hsFromHjk B h j k (← parseRat? eps) (← parseRat? atol)))
  | ["fromh", ds, bs, h, eps, atol] => do
      let d ← parseNat? ds
      let B ← parseBasis bs d
      let h ← parseCMat h d d
      some (showExc (hsFromH B h (← parseRat? eps) (← parseRat? atol)))
  | ["fromhk", ds, bs, h, k, eps, atol] => do
      let d ← parseNat? ds
      let B ← parseBasis bs d
      let h ← parseCMat h d d
      let k ← parseCMat k (d * d - 1) (d * d - 1)
      some (showExc (hsFromHk B h k (← parseRat? eps) (← parseRat? atol)))
  | ["fromk", ds, bs, k, eps, atol] => do
      let d ← parseNat? ds
      let B ← parseBasis bs d
      let k ← parseCMat k (d * d - 1) (d * d - 1)
      some (showExc (hsFromK B k (← parseRat? eps) (← parseRat? atol)))
  | ["jfromk", ds, bs, k] => do
      let d ← parseNat? ds
      let B ← parseBasis bs d
      let k ← parseCMat k (d * d - 1) (d * d - 1)
      some s!"ok {showCMat (jMatFromKMat B k)}"
  | ["jump", ds, bs, cs, eps] => do
      let d ← parseNat? ds
      let B ← parseBasis bs d
      let cs ← if cs = "-" then some [] else parseCMats cs d
      some (showExc (hsFromJump B cs (← parseRat? eps)))
  | ["jumpparts", ds, cs] => do
      let d ← parseNat? ds
      let cs ← parseCMats cs d
      match jPartCbFromJump cs, kPartCbFromJump cs with
      | some j, some k => some s!"ok {showCMat j} {showCMat k}"
      | _, _ => some "err emptyJump"
  | ["istp", ns, hss, atol] => do
      let n ← parseNat? ns
      let hs ← parseRMat hss n n
      some s!"ok {isTp hs (← parseRat? atol)}"
  | ["iscp", ds, bs, hss, eigs, atol] => do
      let d ← parseNat? ds
      let B ← parseBasis bs d
      let hs ← parseRMat hss (d * d) (d * d)
      let eigs ← parseList? parseRat? eigs
      some s!"ok {isCp B hs eigs (← parseRat? atol)}"
  | ["projeq", ns, hss] => do
      let n ← parseNat? ns
      let hs ← parseRMat hss n n
      some s!"ok {showRMat (projEq hs)}"
  | ["projineq", ds, bs, hss, lam, V, eps, atol] => do
      let d ← parseNat? ds
      let B ← parseBasis bs d
      let hs ← parseRMat hss (d * d) (d * d)
      let lam ← parseCVec lam (d * d - 1)
      let V ← parseCMat V (d * d - 1) (d * d - 1)
      some (showExc (projIneq B hs lam V (← parseRat? eps) (← parseRat? atol)))
  | ["expseries", ns, hss, N] => do
      let n ← parseNat? ns
      let hs ← parseRMat hss n n
      let N ← parseNat? N
      some s!"ok {showRMat (expSeries hs N)}"
  | ["ctor", bok, rows, cols, isf, cd, req, phys] => do
      let b := fun (x : String) => if x = "1" then some true else if x = "0" then some false else none
      match ctorCheck (← b bok) (← parseNat? rows) (← parseNat? cols) (← b isf) (← parseNat? cd) (← b req) (← b phys) with
      | .ok () => some "ok"
      | .error e => some s!"err {e.toString}"
  | ["act", ds, cb, rho] => do
      let d ← parseNat? ds
      let cb ← parseCMat cb (d * d) (d * d)
      let rho ← parseCMat rho d d
      some s!"ok {showCMat (act cb rho)}"
  | _ => none

end QM.C18
