import QModel.Core
/-! C01 — model (not built yet) -/
namespace QM.C01
def handle (_args : List String) : Option String := none
end QM.C01
