import QModel.Core
import QGen.C01
/-!
# C01 — physicality verdicts (model of the verdict wiring of quara/objects/{state,povm,gate,mprocess,qoperation}.py
and quara/utils/matrix_util.py `is_hermitian` / `is_positive_semidefinite`)

Numbers are exact rationals (every float64 is one). `np.isclose(a, b, atol, rtol)` is `|a − b| ≤ atol + rtol·|b|`;
complex moduli are compared squared. The relative tolerance of every call site is the GENERATED constant
`QGen.C01.*_rtol` (regenerated from the source on every run); the absolute tolerance is the caller's.
External kernels are parameters: the operator matrices (density matrix, POVM elements and their sum, Choi matrices)
as computed by the code's own conversions (their correctness is C02), and the `np.linalg.eigvalsh` result.
`none` = outside the modelled domain (size mismatch, relative tolerance against a complex reference).
-/
namespace QM.C01
open QGen.C01

def rabs (q : Rat) : Rat := if q < 0 then -q else q

/-- `np.isclose(a, b, atol=atol, rtol=rtol)` for finite reals -/
def isClose (a b atol rtol : Rat) : Bool := decide (rabs (a - b) ≤ atol + rtol * rabs b)

/-- complex numbers as (re, im) -/
abbrev C := Rat × Rat

/-- `np.isclose(a, b, …)` for complex `a` and real `b`: `|a − b| ≤ t`, `t = atol + rtol·|b|`, compared squared -/
def isCloseCR (a : C) (b atol rtol : Rat) : Bool :=
  let t := atol + rtol * rabs b
  decide (0 ≤ t) && decide ((a.1 - b) * (a.1 - b) + a.2 * a.2 ≤ t * t)

/-- complex `a` against complex `b`: exact only for `rtol = 0` (`|b|` is irrational in general) -/
def isCloseCC (a b : C) (atol rtol : Rat) : Option Bool :=
  if rtol = 0 then
    some (decide (0 ≤ atol) &&
      decide ((a.1 - b.1) * (a.1 - b.1) + (a.2 - b.2) * (a.2 - b.2) ≤ atol * atol))
  else none

def allSome (l : List (Option Bool)) : Option Bool := (l.mapM id).map fun bs => bs.all id

/-- a `d × d` complex matrix, row-major -/
structure CMat where
  d : Nat
  e : List C

def CMat.ok (M : CMat) : Bool := M.e.length = M.d * M.d

/-- `np.trace` -/
def CMat.trace (M : CMat) : Option C :=
  ((List.range M.d).mapM fun i => M.e[i * M.d + i]?).map fun ds =>
    (ds.foldl (fun acc z => acc + z.1) 0, ds.foldl (fun acc z => acc + z.2) 0)

/-- `matrix.conj().T` -/
def CMat.adjoint (M : CMat) : Option (List C) :=
  (List.range (M.d * M.d)).mapM fun k => (M.e[(k % M.d) * M.d + k / M.d]?).map fun z => (z.1, -z.2)

/-- matrix_util.is_hermitian: `allclose(matrix, adjoint, atol=atol, rtol=0.0)` -/
def isHermitian (M : CMat) (atol : Rat) : Option Bool := do
  if !M.ok then none
  let adj ← M.adjoint
  allSome ((M.e.zip adj).map fun (a, b) => isCloseCC a b atol mutil_is_hermitian_rtol)

/-- the eigenvalue part of matrix_util.is_positive_semidefinite: eigenvalues with `isclose(λ, 0, atol, rtol=0)`
are deleted, the rest must be `>= 0` -/
def psdEig (eigs : List Rat) (atol : Rat) : Bool :=
  eigs.all fun l => isClose l 0 atol mutil_is_psd_eig_rtol || decide (0 ≤ l)

/-- matrix_util.is_positive_semidefinite(matrix, atol); `eigs` = `np.linalg.eigvalsh(matrix)` (one value per row of the
matrix: a list of any other length is outside the modelled domain, `none`) -/
def psdVerdict (M : CMat) (eigs : List Rat) (atol : Rat) : Option Bool :=
  if eigs.length ≠ M.d then none
  else do
    let h ← isHermitian M atol
    some (h && psdEig eigs atol)

/-! ## State -/

/-- State.is_trace_one: `np.isclose(np.trace(density), 1, atol=atol)` -/
def stateTraceOne (rho : CMat) (atol : Rat) : Option Bool := do
  let tr ← rho.trace
  some (isCloseCR tr 1 atol state_is_trace_one_rtol)

/-- QOperation.is_physical: `eq(atol_eq) and ineq(atol_ineq)` -/
def physical (eq ineq : Bool) : Bool := eq && ineq

/-- `atol = Settings.get_atol() if atol is None else atol` — resolved separately inside each sub-verdict -/
def resolveTol (a : Option Rat) (g : Rat) : Rat :=
  match a with
  | some x => x
  | none => g

/-- `is_physical(atol_eq_const, atol_ineq_const)` with optional tolerances and the global setting `g`:
each missing tolerance is the global one, independently of the other -/
def physicalArgs (eq ineq : Rat → Bool) (ae ai : Option Rat) (g : Rat) : Bool :=
  is_physical (fun a => eq (resolveTol a g)) (fun a => ineq (resolveTol a g)) ae ai

def statePhysical (rho : CMat) (eigs : List Rat) (atolEq atolIneq : Rat) : Option Bool := do
  let a ← stateTraceOne rho atolEq
  let b ← psdVerdict rho eigs atolIneq
  some (physical a b)

/-! ## POVM -/

def delta (d k : Nat) : Rat := if k / d = k % d then 1 else 0

/-- Povm.is_identity_sum: `np.allclose(sum_matrix, identity, atol=atol)` -/
def povmIdentitySum (S : CMat) (atol : Rat) : Option Bool :=
  if !S.ok || S.d = 0 then none
  else some (S.e.zipIdx.all fun (z, k) => isCloseCR z (delta S.d k) atol povm_is_identity_sum_rtol)

/-- Povm.is_positive_semidefinite: every element -/
def povmPsd (Ms : List CMat) (eigss : List (List Rat)) (atol : Rat) : Option Bool :=
  if Ms.length ≠ eigss.length then none
  else allSome ((Ms.zip eigss).map fun (M, eigs) => psdVerdict M eigs atol)

def povmPhysical (S : CMat) (Ms : List CMat) (eigss : List (List Rat)) (atolEq atolIneq : Rat) :
    Option Bool := do
  let a ← povmIdentitySum S atolEq
  let b ← povmPsd Ms eigss atolIneq
  some (physical a b)

/-! ## Gate (HS matrix `n × n` real, row-major, `n = d²`) -/

/-- first branch of gate.is_tp: `np.allclose(hs[0], e₀, atol=atol, rtol=0.0)` -/
def tpRow (n : Nat) (hs : List Rat) (atol : Rat) : Option Bool :=
  if hs.length ≠ n * n || n = 0 then none
  else some ((hs.take n).zipIdx.all fun (x, j) => isClose x (if j = 0 then 1 else 0) atol gate_is_tp_row_rtol)

/-- second branch: for every basis index α, `Tr[A(B_α)] = Σ_β hs[β][α]·Tr B_β` against `Tr B_α`
(`t` = the traces `basis.diagonal().sum()`) -/
def tpTrace (n : Nat) (t : List C) (hs : List Rat) (atol : Rat) : Option Bool :=
  if hs.length ≠ n * n || t.length ≠ n then none
  else allSome ((List.range n).map fun a => do
    let col ← (List.range n).mapM fun b => hs[b * n + a]?
    let after : C := ((col.zip t).foldl (fun acc (p : Rat × C) => acc + p.1 * p.2.1) 0,
                      (col.zip t).foldl (fun acc (p : Rat × C) => acc + p.1 * p.2.2) 0)
    let before ← t[a]?
    isCloseCC after before atol gate_is_tp_trace_rtol)

/-- gate.is_tp -/
def isTp (onh0 : Bool) (n : Nat) (t : List C) (hs : List Rat) (atol : Rat) : Option Bool :=
  if is_tp_first_row_branch onh0 then tpRow n hs atol else tpTrace n t hs atol

def gatePhysical (onh0 : Bool) (n : Nat) (t : List C) (hs : List Rat) (choi : CMat) (eigs : List Rat)
    (atolEq atolIneq : Rat) : Option Bool := do
  let a ← isTp onh0 n t hs atolEq
  let b ← psdVerdict choi eigs atolIneq
  some (physical a b)

/-! ## MProcess -/

/-- `np.sum(hss, axis=0)` -/
def sumHss (n : Nat) (hss : List (List Rat)) : List Rat :=
  hss.foldl (fun acc h => List.zipWith (· + ·) acc h) (List.replicate (n * n) 0)

def mpSumTp (onh0 : Bool) (n : Nat) (t : List C) (hss : List (List Rat)) (atol : Rat) : Option Bool :=
  if hss.any (fun h => h.length ≠ n * n) then none else isTp onh0 n t (sumHss n hss) atol

def mpCp (chois : List CMat) (eigss : List (List Rat)) (atol : Rat) : Option Bool := povmPsd chois eigss atol

def mpPhysical (onh0 : Bool) (n : Nat) (t : List C) (hss : List (List Rat)) (chois : List CMat)
    (eigss : List (List Rat)) (atolEq atolIneq : Rat) : Option Bool := do
  let a ← mpSumTp onh0 n t hss atolEq
  let b ← mpCp chois eigss atolIneq
  some (physical a b)

/-! ## constructors: `if self.is_physicality_required and not self.is_physical(): raise ValueError` -/

inductive Ctor | ok | notPhysical
deriving DecidableEq, Repr

/-- constructor outcome from a GENERATED guard (`QGen.C01.*_ctor_raises`) -/
def mkWith (raises : Bool → Bool → Bool) (required phys : Bool) : Ctor :=
  if raises required phys then .notPhysical else .ok

def mk (required phys : Bool) : Ctor := mkWith state_ctor_raises required phys
def mkPovm (required phys : Bool) : Ctor := mkWith povm_ctor_raises required phys
def mkGate (required phys : Bool) : Ctor := mkWith gate_ctor_raises required phys
def mkMProcess (required phys : Bool) : Ctor := mkWith mprocess_ctor_raises required phys

/-! ## the basis verdicts of `MatrixBasis` / `SparseMatrixBasis` (is_hermitian, is_orthogonal, is_normal); `is_0thpropI` stays a parameter -/

/-- `np.vdot(a, b)` of two matrices: `Σ_k conj(a_k)·b_k` -/
def vdot (A B : List C) : C :=
  (A.zip B).foldl (fun acc (p : C × C) =>
    (acc.1 + (p.1.1 * p.2.1 + p.1.2 * p.2.2), acc.2 + (p.1.1 * p.2.2 - p.1.2 * p.2.1))) (0, 0)

/-- `is_hermitian()`: every element passes `mutil.is_hermitian(mat)` (atol omitted ⇒ the global setting `g`) -/
def basisIsHermitian (B : List CMat) (g : Rat) : Option Bool := allSome (B.map fun M => isHermitian M g)

/-- all pairs `(left, right)` with `left` before `right`, in the order of the double loop -/
def pairsBefore {α : Type} : List α → List (α × α)
  | [] => []
  | a :: l => l.map (fun b => (a, b)) ++ pairsBefore l

/-- `is_orthogonal()`: `np.isclose(np.vdot(left, right), 0, atol=Settings.get_atol())` for every pair (`rtol` generated) -/
def basisIsOrthogonal (B : List CMat) (g rtol : Rat) : Bool :=
  (pairsBefore B).all fun p => isCloseCR (vdot p.1.e p.2.e) 0 g rtol

/-- `is_normal()`: `isclose(vdot(mat, mat), 1, atol=Settings.get_atol())` for every element (`rtol` generated) -/
def basisIsNormal (B : List CMat) (g rtol : Rat) : Bool :=
  B.all fun M => isCloseCR (vdot M.e M.e) 1 g rtol

/-! ## the basis flag that selects the branch of gate.is_tp (generated aggregation) -/

/-- `CompositeSystem.is_orthonormal_hermitian_0thprop_identity` from the four basis verdicts
(is_normal, is_orthogonal, is_hermitian, is_0thpropI) of every subsystem -/
def onh0Flag (subs : List (Bool × Bool × Bool × Bool)) : Bool :=
  composite_flag (subs.map fun s => elemental_flag s.1 s.2.1 s.2.2.1 s.2.2.2)

/-! ## origin / zero objects (`_generate_origin_obj`, `_generate_zero_obj`), `n = d²` -/

def unit0 (c : Rat) (n : Nat) : List Rat := c :: List.replicate (n - 1) 0
/-- state: `vec[0] = 1/np.sqrt(d)` (parameter `s`) -/
def originState (n : Nat) (s : Rat) : List Rat := unit0 s n
/-- POVM: `m` copies of `[np.sqrt(d)/m, 0, …]` (parameter `c`) -/
def originPovm (n m : Nat) (c : Rat) : List (List Rat) := List.replicate m (unit0 c n)
/-- gate: `hs[0][0] = 1` -/
def originGate (n : Nat) : List Rat := unit0 1 (n * n)
/-- mprocess: `m` copies of `hs[0][0] = 1/m` -/
def originMp (n m : Nat) : List (List Rat) := List.replicate m (unit0 (1 / (m : Rat)) (n * n))
def zeroVec (n : Nat) : List Rat := List.replicate n 0

/-! ## driver -/

def bit (b : Bool) : String := if b then "1" else "0"
def obit (b : Option Bool) : String := match b with | some b => bit b | none => "x"

def parseC? (re im : String) : Option (List C) := do
  let r ← parseList? parseRat? re
  let i ← parseList? parseRat? im
  if r.length ≠ i.length then none else some (r.zip i)

/-- split a flat list into `k` blocks of length `len` -/
def blocks {α : Type} (len : Nat) : Nat → List α → List (List α)
  | 0, _ => []
  | k + 1, l => l.take len :: blocks len k (l.drop len)

def handle (args : List String) : Option String :=
  match args with
  | ["isclose", a, b, atol, rtol] => do
      let a ← parseRat? a; let b ← parseRat? b; let atol ← parseRat? atol; let rtol ← parseRat? rtol
      some (bit (isClose a b atol rtol))
  | ["state", d, re, im, eigs, ae, ai] => do
      let d ← parseNat? d; let e ← parseC? re im; let eigs ← parseList? parseRat? eigs
      let ae ← parseRat? ae; let ai ← parseRat? ai
      let rho : CMat := ⟨d, e⟩
      some s!"{obit (stateTraceOne rho ae)} {obit (isHermitian rho ai)} {obit (psdVerdict rho eigs ai)} {obit (statePhysical rho eigs ae ai)}"
  | ["povm", d, m, sre, sim, mre, mim, eigs, ae, ai] => do
      let d ← parseNat? d; let m ← parseNat? m
      let s ← parseC? sre sim; let ms ← parseC? mre mim; let eigs ← parseList? parseRat? eigs
      let ae ← parseRat? ae; let ai ← parseRat? ai
      let Ms : List CMat := (blocks (d * d) m ms).map fun e => ⟨d, e⟩
      let eigss := blocks d m eigs
      some s!"{obit (povmIdentitySum ⟨d, s⟩ ae)} {obit (povmPsd Ms eigss ai)} {obit (povmPhysical ⟨d, s⟩ Ms eigss ae ai)}"
  | ["tp", onh0, n, tre, tim, hs, atol] => do
      let onh0 ← parseNat? onh0; let n ← parseNat? n; let t ← parseC? tre tim
      let hs ← parseList? parseRat? hs; let atol ← parseRat? atol
      some (obit (isTp (onh0 = 1) n t hs atol))
  | ["gate", onh0, n, tre, tim, hs, cre, cim, eigs, ae, ai] => do
      let onh0 ← parseNat? onh0; let n ← parseNat? n; let t ← parseC? tre tim
      let hs ← parseList? parseRat? hs; let c ← parseC? cre cim; let eigs ← parseList? parseRat? eigs
      let ae ← parseRat? ae; let ai ← parseRat? ai
      let choi : CMat := ⟨n, c⟩
      some s!"{obit (isTp (onh0 = 1) n t hs ae)} {obit (psdVerdict choi eigs ai)} {obit (gatePhysical (onh0 = 1) n t hs choi eigs ae ai)}"
  | ["mp", onh0, n, m, tre, tim, hss, cre, cim, eigs, ae, ai] => do
      let onh0 ← parseNat? onh0; let n ← parseNat? n; let m ← parseNat? m; let t ← parseC? tre tim
      let hss ← parseList? parseRat? hss; let c ← parseC? cre cim; let eigs ← parseList? parseRat? eigs
      let ae ← parseRat? ae; let ai ← parseRat? ai
      let H := blocks (n * n) m hss
      let chois : List CMat := (blocks (n * n) m c).map fun e => ⟨n, e⟩
      let eigss := blocks n m eigs
      some s!"{obit (mpSumTp (onh0 = 1) n t H ae)} {obit (mpCp chois eigss ai)} {obit (mpPhysical (onh0 = 1) n t H chois eigss ae ai)}"
  | ["physargs", ae, ai, g, eGiven, eGlobal, iGiven, iGlobal] => do
      -- sub-verdicts of the implementation at the given tolerance (`a`) and at the global one; "n" = tolerance omitted
      let g ← parseRat? g
      let ae ← if ae = "n" then some none else (parseRat? ae).map some
      let ai ← if ai = "n" then some none else (parseRat? ai).map some
      let eG ← parseNat? eGiven; let eg ← parseNat? eGlobal; let iG ← parseNat? iGiven; let ig ← parseNat? iGlobal
      let eq := fun (t : Rat) => if t = g then eg = 1 else eG = 1
      let ineq := fun (t : Rat) => if t = g then ig = 1 else iG = 1
      some (bit (physicalArgs eq ineq ae ai g))
  | ["mkt", ty, req, phys] => do
      let req ← parseNat? req; let phys ← parseNat? phys
      let r ← match ty with
        | "state" => some (mk (req = 1) (phys = 1)) | "povm" => some (mkPovm (req = 1) (phys = 1))
        | "gate" => some (mkGate (req = 1) (phys = 1)) | "mprocess" => some (mkMProcess (req = 1) (phys = 1))
        | _ => none
      some (match r with | .ok => "ok" | .notPhysical => "notPhysical")
  | ["basis", cls, d, k, re, im, g] => do
      -- the three modelled basis verdicts of one basis (k matrices of size d): replies `hermitian orthogonal normal`
      let d ← parseNat? d; let k ← parseNat? k; let es ← parseC? re im; let g ← parseRat? g
      let B : List CMat := (blocks (d * d) k es).map fun e => ⟨d, e⟩
      let (ro, rn) ← match cls with
        | "MatrixBasis" => some (mb_is_orthogonal_rtol, mb_is_normal_rtol)
        | "SparseMatrixBasis" => some (smb_is_orthogonal_rtol, smb_is_normal_rtol)
        | _ => none
      some s!"{obit (basisIsHermitian B g)} {bit (basisIsOrthogonal B g ro)} {bit (basisIsNormal B g rn)}"
  | ["onh0", subs] => do
      -- one group of four bits per subsystem: is_normal, is_orthogonal, is_hermitian, is_0thpropI
      let gs ← (subs.splitOn ",").mapM fun g =>
        match g.toList with
        | [a, b, c, d] => some (a = '1', b = '1', c = '1', d = '1')
        | _ => none
      some s!"{bit (onh0Flag gs)} {"".intercalate (gs.map fun s => bit (elemental_flag s.1 s.2.1 s.2.2.1 s.2.2.2))}"
  | ["mk", req, phys] => do
      let req ← parseNat? req; let phys ← parseNat? phys
      some (match mk (req = 1) (phys = 1) with | .ok => "ok" | .notPhysical => "notPhysical")
  | ["origin", ty, n, m, c] => do
      let n ← parseNat? n; let m ← parseNat? m; let c ← parseRat? c
      match ty with
      | "state" => some (showList showRat (originState n c))
      | "povm" => some (showList showRat (originPovm n m c).flatten)
      | "gate" => some (showList showRat (originGate n))
      | "mprocess" => some (showList showRat (originMp n m).flatten)
      | _ => none
  | ["zero", n] => do
      let n ← parseNat? n
      some (showList showRat (zeroVec n))
  | ["atol0"] => some (showRat settings_atol)
  | _ => none

end QM.C01
