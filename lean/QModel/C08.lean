import QModel.Core
/-!
# C08 — tomography forward model (model of `_set_coeffs` of StandardQst / StandardPovmt / StandardQpt
(`calc_c_qpt`) / StandardQmpt (`cqpt_to_cqmpt`), of `calc_matA / calc_vecB / calc_prob_dists` in
standard_qtomography.py, of `convert_var_to_*` (the object built from a variable vector) and of the circuit
`Experiment.calc_prob_dist → compose_qoperations`)

Objects are real coefficient lists: a state / POVM element is a list of `n = d²` scalars, a gate a list of `n`
rows, a POVM a list of elements, a measurement process a list of gates.  numpy's `hstack / split / tile /
outer(...).flatten() / block_diag / reshape` are the list operations `++ / take,drop / tile / outerFlat /
blockRow / chunks`.  The float constant `np.sqrt(dim)` is the parameter `r` (theorems hold for every `r`).
The coefficient dictionaries `_coeffs_1st/_coeffs_0th` keyed by `(schedule_index, outcome)` are the association
list `List Coeff`; `calc_matA / calc_vecB` sort it by key (`sorted(dict.items())`).
-/
namespace QM.C08

variable {K : Type}

/-! ## numpy on lists -/

def ldot [Add K] [Mul K] [Zero K] (a b : List K) : K := lsum (List.zipWith (· * ·) a b)
def lsub [Sub K] (a b : List K) : List K := List.zipWith (· - ·) a b
def lneg [Neg K] (a : List K) : List K := a.map (- ·)
def zeros [Zero K] (k : Nat) : List K := List.replicate k 0
/-- `np.tile(c, k)` -/
def tile (k : Nat) (c : List K) : List K := (List.replicate k c).flatten
/-- `np.outer(u, v).flatten()` -/
def outerFlat [Mul K] (u v : List K) : List K := u.flatMap fun a => v.map fun x => a * x
/-- `reshape((cnt, n))` of a flat list into `cnt` rows of length `n` -/
def chunks (n : Nat) : Nat → List K → List (List K)
  | 0, _ => []
  | c + 1, l => l.take n :: chunks n c (l.drop n)
/-- matrix (list of rows) times vector: `hs @ vec` -/
def matVec [Add K] [Mul K] [Zero K] (hs : List (List K)) (v : List K) : List K := hs.map fun row => ldot row v
/-- column sums of a list of rows: `rows.sum(axis=0)` (rows of length `n`) -/
def colSum [Add K] [Zero K] (n : Nat) (rows : List (List K)) : List K :=
  rows.foldr (fun row acc => List.zipWith (· + ·) row acc) (zeros n)
/-- row `k` of `block_diag(c, …, c)` (`cnt` blocks of width `w`) restricted to the row `c` of the block:
`zeros(k·w) ++ c ++ zeros((cnt−1−k)·w)` -/
def blockRow [Zero K] (w cnt k : Nat) (c : List K) : List K :=
  zeros (k * w) ++ c ++ zeros ((cnt - 1 - k) * w)

/-! ### numpy on matrices given as lists of rows (used by the generated `cqpt_to_cqmpt`, QGen/C08.lean) -/

/-- `M.shape[1]` -/
def matWidth (M : List (List K)) : Nat := match M with | r :: _ => r.length | [] => 0
/-- `M[:, :k]` -/
def colsTo (k : Nat) (M : List (List K)) : List (List K) := M.map (List.take k)
/-- `M[:, k:]` -/
def colsFrom (k : Nat) (M : List (List K)) : List (List K) := M.map (List.drop k)
/-- `-M` -/
def negMat [Neg K] (M : List (List K)) : List (List K) := M.map lneg
/-- `np.zeros((r, c))` -/
def zerosMat [Zero K] (r c : Nat) : List (List K) := List.replicate r (zeros c)
/-- `np.hstack([A, B])` -/
def hstack2 (A B : List (List K)) : List (List K) := List.zipWith (· ++ ·) A B
/-- `np.hstack([D] * k + [E])` -/
def hstackRep (k : Nat) (D E : List (List K)) : List (List K) := List.zipWith (fun d e => tile k d ++ e) D E
/-- `block_diag(*([C] * k))`: `k` copies of `C` on the diagonal -/
def blockDiagRep [Zero K] (k : Nat) (C : List (List K)) : List (List K) :=
  (List.range k).flatMap fun i => C.map fun c => zeros (i * matWidth C) ++ c ++ zeros ((k - 1 - i) * matWidth C)
/-- `M.T[j]` (IndexError ⇒ `none`) -/
def colAt? (j : Nat) (M : List (List K)) : Option (List K) := M.mapM (·[j]?)

/-! ## the object built from a variable vector (`generate_from_var`, both parametrisations) -/

/-- `convert_var_to_vec`: `np.insert(var, 0, 1/np.sqrt(dim))` -/
def stateOf [Div K] [One K] (flag : Bool) (r : K) (var : List K) : List K :=
  if flag then (1 / r) :: var else var

/-- `convert_var_to_vecs` for `m` outcomes, element length `n`:
flag ⇒ last element `[√d,0,…,0] − Σ others` -/
def povmOf [Add K] [Sub K] [Zero K] (flag : Bool) (r : K) (n m : Nat) (var : List K) : List (List K) :=
  if flag then
    let pre := chunks n (m - 1) var
    pre ++ [lsub (r :: zeros (n - 1)) (colSum n pre)]
  else chunks n m var

/-- `convert_var_to_hs`: flag ⇒ first row `np.eye(1, n)` inserted -/
def gateOf [Zero K] [One K] (flag : Bool) (n : Nat) (var : List K) : List (List K) :=
  if flag then (1 :: zeros (n - 1)) :: chunks n (n - 1) var else chunks n n var

/-- `convert_var_to_hss`: flag ⇒ first row of the last gate is `e₀ − Σ_k (first row of gate k)` -/
def mprocessOf [Add K] [Sub K] [Zero K] [One K] (flag : Bool) (n m : Nat) (var : List K) :
    List (List (List K)) :=
  if flag then
    let pre := (chunks (n * n) (m - 1) var).map (chunks n n)
    let firstRows := pre.map fun hs => match hs with | row :: _ => row | [] => []
    let lastFirst := lsub (1 :: zeros (n - 1)) (colSum n firstRows)
    let lastRest := chunks n (n - 1) (var.drop ((m - 1) * (n * n)))
    pre ++ [lastFirst :: lastRest]
  else (chunks (n * n) m var).map (chunks n n)

/-! ## Born rule as the circuit evaluates it (`compose_qoperations`, ideal values — no clipping) -/

/-- (Povm, State): `np.vdot(povm_element, state.vec)` per element -/
def bornPovmState [Add K] [Mul K] [Zero K] (povm : List (List K)) (rho : List K) : List K :=
  povm.map fun e => ldot e rho

/-- state → gate → povm: (Gate, State) gives `hs @ vec`, then (Povm, State) -/
def bornPovmGateState [Add K] [Mul K] [Zero K] (povm : List (List K)) (hs : List (List K))
    (rho : List K) : List K :=
  bornPovmState povm (matVec hs rho)

/-- state → mprocess → povm, outcome order (mprocess outcome, povm outcome), ideal joint probabilities
`E_y · (hs_x ρ)` -/
def bornPovmMprocessState [Add K] [Mul K] [Zero K] (povm : List (List K)) (hss : List (List (List K)))
    (rho : List K) : List K :=
  hss.flatMap fun hs => bornPovmGateState povm hs rho

/-- `Mx_rho[0]` (the identity component); gates have at least one row, an empty product gives 0 -/
def firstEntry [Zero K] (l : List K) : K := match l with | x :: _ => x | [] => 0

/-- the same circuit as the code walks it: (MProcess, State) gives the ensemble `p_x = r·(hs_x ρ)[0]`,
`ρ_x = hs_x ρ / p_x` (zero state when `p_x = 0`), then (Povm, StateEnsemble) gives `p_x · (E_y · ρ_x)`.
(`eps_zero` clipping is not modelled: the theorem needs `p_x ≠ 0`.) -/
def circuitPovmMprocessState [Add K] [Mul K] [Div K] [Zero K] [DecidableEq K] (r : K)
    (povm : List (List K)) (hss : List (List (List K))) (rho : List K) : List K :=
  hss.flatMap fun hs =>
    let mrho := matVec hs rho
    let p := r * firstEntry mrho
    if p = 0 then povm.map fun _ => 0
    else (bornPovmState povm (mrho.map (· / p))).map (p * ·)

/-! ## coefficient dictionaries -/

structure Coeff (K : Type) where
  key : Nat × Nat
  a : List K
  b : K
deriving DecidableEq

/-- tuple order of Python on `(schedule_index, outcome)` -/
def keyLe (p q : Nat × Nat) : Bool := p.1 < q.1 || (p.1 == q.1 && p.2 ≤ q.2)

/-- `sorted(self._coeffs_1st.items())` -/
def sortCoeffs (cs : List (Coeff K)) : List (Coeff K) := cs.mergeSort fun p q => keyLe p.key q.key

/-- `calc_matA`: rows in key order -/
def matA (cs : List (Coeff K)) : List (List K) := (sortCoeffs cs).map (·.a)
/-- `calc_vecB` -/
def vecB (cs : List (Coeff K)) : List K := (sortCoeffs cs).map (·.b)

/-- the dictionaries after the loops `for schedule_index … for element_index …`: `per[si][x]` is the pair
`(_coeffs_1st[(si, x)], _coeffs_0th[(si, x)])`, inserted in loop order -/
def mkCoeffs (per : List (List (List K × K))) : List (Coeff K) :=
  per.zipIdx.flatMap fun (rows, si) => rows.zipIdx.map fun (ab, x) => ⟨(si, x), ab.1, ab.2⟩

/-- one POVM element in `StandardQst._set_coeffs`: flag ⇒ `(vec[1:], vec[0] / np.sqrt(dim))`.
`none` = IndexError on an empty vector. -/
def qstRow [Div K] [Zero K] (flag : Bool) (r : K) (vec : List K) : Option (List K × K) :=
  if flag then
    match vec with
    | v0 :: rest => some (rest, v0 / r)
    | [] => none
  else some (vec, 0)

def qstSched [Div K] [Zero K] (flag : Bool) (r : K) (povm : List (List K)) : Option (List (List K × K)) :=
  povm.mapM (qstRow flag r)

/-- `StandardQst._set_coeffs`; schedule = index of the tester POVM.  `none` = IndexError. -/
def qstCoeffs [Div K] [Zero K] (flag : Bool) (r : K) (povms : List (List (List K))) (scheds : List Nat) :
    Option (List (Coeff K)) := do
  let per ← scheds.mapM fun pj => do
    let povm ← povms[pj]?
    qstSched flag r povm
  pure (mkCoeffs per)

/-- one row of `StandardPovmt._set_coeffs`: state vector `rho` (length `n`), outcome `x` of `m` -/
def povmtRow [Mul K] [Sub K] [Zero K] (flag : Bool) (r : K) (m : Nat) (rho : List K) (x : Nat) :
    Option (List K × K) :=
  let n := rho.length
  let c := zeros (x * n) ++ rho ++ zeros ((m - 1 - x) * n)        -- hstack(pre_zeros, vec, post_zeros)
  if flag then
    let aPrime := c.take (n * (m - 1))                              -- np.split(c, [vec_size*(m-1)])
    let cPrime := c.drop (n * (m - 1))
    match cPrime with
    | x0 :: _ => some (lsub aPrime (tile (m - 1) cPrime), r * x0)   -- b = np.sqrt(dim) * c_prime[0]
    | [] => none
  else some (c, 0)

def povmtSched [Mul K] [Sub K] [Zero K] (flag : Bool) (r : K) (m : Nat) (rho : List K) :
    Option (List (List K × K)) :=
  (List.range m).mapM (povmtRow flag r m rho)

/-- `StandardPovmt._set_coeffs`; schedule = index of the tester state -/
def povmtCoeffs [Mul K] [Sub K] [Zero K] (flag : Bool) (r : K) (m : Nat) (states : List (List K))
    (scheds : List Nat) : Option (List (Coeff K)) := do
  let per ← scheds.mapM fun i => do
    let rho ← states[i]?
    povmtSched flag r m rho
  pure (mkCoeffs per)

/-- rows `c` of `calc_c_qpt` for one schedule: `np.outer(povm_vec, state.vec).flatten()` per element -/
def cQpt [Mul K] (rho : List K) (povm : List (List K)) : List (List K) := povm.map fun e => outerFlat e rho

/-- flag ⇒ `a = c[int(dim*dim):]`, `b = c[0]` (`n = int(dim*dim)` = length of the state vector) -/
def qptRow [Zero K] (flag : Bool) (n : Nat) (c : List K) : Option (List K × K) :=
  if flag then
    match c with
    | c0 :: _ => some (c.drop n, c0)
    | [] => none
  else some (c, 0)

def qptSched [Mul K] [Zero K] (flag : Bool) (rho : List K) (povm : List (List K)) :
    Option (List (List K × K)) :=
  (cQpt rho povm).mapM (qptRow flag rho.length)

/-- `calc_c_qpt` (what `StandardQpt._set_coeffs` stores); schedule = (state index, povm index) -/
def qptCoeffs [Mul K] [Zero K] (flag : Bool) (states : List (List K)) (povms : List (List (List K)))
    (scheds : List (Nat × Nat)) : Option (List (Coeff K)) := do
  let per ← scheds.mapM fun (i, j) => do
    let rho ← states[i]?
    let povm ← povms[j]?
    qptSched flag rho povm
  pure (mkCoeffs per)

/-- last block row of `cqpt_to_cqmpt` (flag): `a_1 = [d_dash × (m−1) | e_qpt]`, `d_dash = [−d_qpt | 0]`,
`b_1 = d_qpt.T[0]` -/
def qmptLastRow [Neg K] [Zero K] (n m : Nat) (c : List K) : Option (List K × K) :=
  match c with
  | c0 :: _ => some (tile (m - 1) (lneg (c.take n) ++ zeros (n * n - n)) ++ c.drop n, c0)
  | [] => none

/-- `cqpt_to_cqmpt` for one schedule: rows (with offsets) in the order (mprocess outcome, povm outcome).
`n` = `dim ** 2`. -/
def cqptToCqmpt [Neg K] [Zero K] (flag : Bool) (n m : Nat) (cq : List (List K)) :
    Option (List (List K × K)) :=
  let w := n * n
  if flag then do
    -- a_0 = [block_diag(c_qpt × (m−1)) | 0],  b_0 = 0
    let a0 := (List.range (m - 1)).flatMap fun k =>
      cq.map fun c => (blockRow w (m - 1) k c ++ zeros (w - n), (0 : K))
    let a1 ← cq.mapM (qmptLastRow n m)
    pure (a0 ++ a1)
  else
    some ((List.range m).flatMap fun k => cq.map fun c => (blockRow w m k c, (0 : K)))

def qmptSched [Mul K] [Neg K] [Zero K] (flag : Bool) (m : Nat) (rho : List K) (povm : List (List K)) :
    Option (List (List K × K)) :=
  cqptToCqmpt flag rho.length m (cQpt rho povm)

/-- `StandardQmpt._set_coeffs` -/
def qmptCoeffs [Mul K] [Neg K] [Zero K] (flag : Bool) (m : Nat) (states : List (List K))
    (povms : List (List (List K))) (scheds : List (Nat × Nat)) : Option (List (Coeff K)) := do
  let per ← scheds.mapM fun (i, j) => do
    let rho ← states[i]?
    let povm ← povms[j]?
    qmptSched flag m rho povm
  pure (mkCoeffs per)

/-! ## decoding a schedule: which items name the tester state / tester POVM -/

/-- `schedule[k][1]` on the list of the items' indices; negative `k` counts from the end (Python) -/
def itemAt (sched : List Nat) (k : Int) : Option Nat :=
  if 0 ≤ k then sched[k.toNat]? else
    if (-k).toNat ≤ sched.length then sched[sched.length - (-k).toNat]? else none

/-- the pair (tester state index, tester POVM index) the coefficient loops read from one schedule
(`0` where the class has no such tester): QST `schedule[-1][1]` is the POVM; POVMT `schedule[0][1]` the state;
QPT / QMPT `schedule[0][1]` the state and `schedule[2][1]` the POVM -/
def schedPair (kind : String) (sched : List Nat) : Option (Nat × Nat) :=
  match kind with
  | "qst" => do let j ← itemAt sched (-1); pure (0, j)
  | "povmt" => do let i ← itemAt sched 0; pure (i, 0)
  | "qpt" => do let i ← itemAt sched 0; let j ← itemAt sched 2; pure (i, j)
  | "qmpt" => do let i ← itemAt sched 0; let j ← itemAt sched 2; pure (i, j)
  | _ => none

/-! ## `calc_prob_dists` -/

inductive Err
  | index       -- a schedule refers to a tester that does not exist
  | shape       -- `matA @ var`: length of var ≠ number of columns
  | reshape     -- `reshape((num_schedules, -1))`: size not divisible (finding D8)
deriving Repr, DecidableEq

def Err.toString : Err → String
  | .index => "index" | .shape => "shape" | .reshape => "reshape"

/-- `matA @ var + vecB` (numpy refuses a `var` whose length differs from the number of columns) -/
def predictRaw [Add K] [Mul K] [Zero K] (cs : List (Coeff K)) (var : List K) : List K :=
  (sortCoeffs cs).map fun c => ldot c.a var + c.b

def predict [Add K] [Mul K] [Zero K] (cs : List (Coeff K)) (var : List K) : Except Err (List K) :=
  if (sortCoeffs cs).all (fun c => c.a.length == var.length) then .ok (predictRaw cs var)
  else .error .shape

/-- `matrix_util.truncate_and_normalize` on one row -/
def truncNorm [Add K] [Div K] [Zero K] [LT K] [DecidableLT K] (eps : K) (row : List K) : List K :=
  let t := row.map fun p => if p < eps then 0 else p
  t.map (· / lsum t)

/-- the (MProcess, State) → (Povm, StateEnsemble) path WITH its thresholds, as coded
(`_compose_qoperations_MProcess_State_for_States`, `_compose_qoperations_Povm_StateEnsemble`, `(Povm, State)`):
`p_x = r·(hs_x ρ)[0]`; `p_x ≤ eps_zero` is clipped to 0 (`truncate`); if something was clipped and the sum is not 0 the
probabilities are renormalised; the post state is `hs_x ρ / p_x` with the UNrenormalised `p_x` (zero state when clipped);
an ensemble member of weight `< eps_zero` contributes zeros, the others `weight · truncate_and_normalize(E_y · ρ_x)`.
(The re-normalisations inside `MultinomialDistribution` are C16's; they are the identity on proper distributions.) -/
def circuitPovmMprocessStateEps [Add K] [Mul K] [Div K] [Zero K] [DecidableEq K] [LT K] [DecidableLT K]
    [LE K] [DecidableLE K] (r epsZero epsTrunc : K)
    (povm : List (List K)) (hss : List (List (List K))) (rho : List K) : List K :=
  let ms := hss.map fun hs => matVec hs rho
  let raw := ms.map fun mrho => (let p := r * firstEntry mrho; if p ≤ epsZero then 0 else p)
  let truncate := ms.any fun mrho => decide (r * firstEntry mrho ≤ epsZero)
  let total := lsum raw
  let ps := if truncate && decide (total ≠ 0) then raw.map (· / total) else raw
  ((ms.zip raw).zip ps).flatMap fun ((mrho, pRaw), w) =>
    let rhoX := if pRaw = 0 then mrho.map fun _ => 0 else mrho.map (· / pRaw)
    if w < epsZero then povm.map fun _ => 0
    else (truncNorm epsTrunc (bornPovmState povm rhoX)).map (w * ·)

/-- `calc_prob_dists`: `tmp.reshape((num_schedules, -1))` then `truncate_and_normalize` row by row.
The reshape ignores the schedules' own outcome counts. -/
def calcProbDists [Add K] [Mul K] [Div K] [Zero K] [LT K] [DecidableLT K] (eps : K) (numSched : Nat)
    (cs : List (Coeff K)) (var : List K) : Except Err (List (List K)) := do
  let tmp ← predict cs var
  if numSched = 0 then throw .reshape
  if tmp.length % numSched ≠ 0 then throw .reshape
  pure ((chunks (tmp.length / numSched) numSched tmp).map (truncNorm eps))

/-- `calc_prob_dist(qope, schedule_index)` = `calc_prob_dists(qope)[schedule_index]` (IndexError ⇒ `Err.index`) -/
def calcProbDist [Add K] [Mul K] [Div K] [Zero K] [LT K] [DecidableLT K] (eps : K) (numSched : Nat)
    (cs : List (Coeff K)) (var : List K) (i : Nat) : Except Err (List K) := do
  let ds ← calcProbDists eps numSched cs var
  match ds[i]? with
  | some d => pure d
  | none => throw .index

/-! ## driver -/

def parseVecL? (s : String) : Option (List Rat) := parseList? parseRat? s
/-- list of vectors separated by `;` (`_` = empty list) -/
def parseVecs? (s : String) : Option (List (List Rat)) :=
  if s = "_" then some [] else (s.splitOn ";").mapM parseVecL?
/-- list of lists of vectors separated by `|` -/
def parsePovms? (s : String) : Option (List (List (List Rat))) :=
  if s = "_" then some [] else (s.splitOn "|").mapM parseVecs?
def parsePairs? (s : String) : Option (List (Nat × Nat)) :=
  if s = "_" then some [] else
  (s.splitOn ";").mapM fun t => match t.splitOn ":" with
    | [a, b] => do let a ← parseNat? a; let b ← parseNat? b; some (a, b)
    | _ => none
def parseBool? (s : String) : Option Bool :=
  if s = "1" then some true else if s = "0" then some false else none

def showVecs (vs : List (List Rat)) : String :=
  if vs.isEmpty then "_" else ";".intercalate (vs.map (showList showRat))

def showCoeffs (cs : Option (List (Coeff Rat))) : String :=
  match cs with
  | none => "err index"
  | some cs => s!"ok {showVecs (matA cs)} {showList showRat (vecB cs)}"

def showDists (r : Except Err (List (List Rat))) : String :=
  match r with
  | .error e => s!"err {e.toString}"
  | .ok d => s!"ok {showVecs d}"

/-- coefficient list of one of the four tomography classes from the textual request -/
def coeffsOf (kind : String) (flag : Bool) (r : Rat) (m : Nat) (states : List (List Rat))
    (povms : List (List (List Rat))) (scheds : List (Nat × Nat)) : Option (Option (List (Coeff Rat))) :=
  match kind with
  | "qst" => some (qstCoeffs flag r povms (scheds.map (·.2)))
  | "povmt" => some (povmtCoeffs flag r m states (scheds.map (·.1)))
  | "qpt" => some (qptCoeffs flag states povms scheds)
  | "qmpt" => some (qmptCoeffs flag m states povms scheds)
  | _ => none

/-! ## the circuits of all schedules with the unknown replaced by the object built from `var`
(`generate_prob_dists_sequence` → `Experiment.calc_prob_dists`), ideal values -/

def qstCircuit [Add K] [Mul K] [Div K] [Zero K] [One K] (flag : Bool) (r : K)
    (povms : List (List (List K))) (scheds : List Nat) (var : List K) : Option (List (List K)) :=
  scheds.mapM fun pj => do
    let povm ← povms[pj]?
    pure (bornPovmState povm (stateOf flag r var))

def povmtCircuit [Add K] [Mul K] [Sub K] [Zero K] (flag : Bool) (r : K) (n m : Nat)
    (states : List (List K)) (scheds : List Nat) (var : List K) : Option (List (List K)) :=
  scheds.mapM fun i => do
    let rho ← states[i]?
    pure (bornPovmState (povmOf flag r n m var) rho)

def qptCircuit [Add K] [Mul K] [Zero K] [One K] (flag : Bool) (n : Nat) (states : List (List K))
    (povms : List (List (List K))) (scheds : List (Nat × Nat)) (var : List K) : Option (List (List K)) :=
  scheds.mapM fun (i, j) => do
    let rho ← states[i]?
    let povm ← povms[j]?
    pure (bornPovmGateState povm (gateOf flag n var) rho)

def qmptCircuit [Add K] [Mul K] [Sub K] [Zero K] [One K] (flag : Bool) (n m : Nat)
    (states : List (List K)) (povms : List (List (List K))) (scheds : List (Nat × Nat)) (var : List K) :
    Option (List (List K)) :=
  scheds.mapM fun (i, j) => do
    let rho ← states[i]?
    let povm ← povms[j]?
    pure (bornPovmMprocessState povm (mprocessOf flag n m var) rho)

/-- the QMPT circuit as the code walks it (ensemble with division by `p_x`) -/
def qmptCircuitWalk [Add K] [Mul K] [Sub K] [Div K] [Zero K] [One K] [DecidableEq K] (flag : Bool) (r : K)
    (n m : Nat) (states : List (List K)) (povms : List (List (List K))) (scheds : List (Nat × Nat))
    (var : List K) : Option (List (List K)) :=
  scheds.mapM fun (i, j) => do
    let rho ← states[i]?
    let povm ← povms[j]?
    pure (circuitPovmMprocessState r povm (mprocessOf flag n m var) rho)

/-- the QMPT circuit with the thresholds of the code (`eps_zero` of the measurement process, `atol` of
`truncate_and_normalize`) -/
def qmptCircuitWalkEps [Add K] [Mul K] [Sub K] [Div K] [Zero K] [One K] [DecidableEq K] [LT K] [DecidableLT K]
    [LE K] [DecidableLE K] (flag : Bool) (r epsZero epsTrunc : K) (n m : Nat) (states : List (List K))
    (povms : List (List (List K))) (scheds : List (Nat × Nat)) (var : List K) : Option (List (List K)) :=
  scheds.mapM fun (i, j) => do
    let rho ← states[i]?
    let povm ← povms[j]?
    pure (circuitPovmMprocessStateEps r epsZero epsTrunc povm (mprocessOf flag n m var) rho)

/-- driver dispatch -/
def circuitOf (kind : String) (flag : Bool) (r : Rat) (n m : Nat) (states : List (List Rat))
    (povms : List (List (List Rat))) (scheds : List (Nat × Nat)) (var : List Rat) (walk : Bool) :
    Option (Option (List (List Rat))) :=
  match kind with
  | "qst" => some (qstCircuit flag r povms (scheds.map (·.2)) var)
  | "povmt" => some (povmtCircuit flag r n m states (scheds.map (·.1)) var)
  | "qpt" => some (qptCircuit flag n states povms scheds var)
  | "qmpt" => some (if walk then qmptCircuitWalk flag r n m states povms scheds var
                    else qmptCircuit flag n m states povms scheds var)
  | _ => none

def handle (args : List String) : Option String :=
  match args with
  -- coeffs kind flag r m states povms scheds  →  matA rows and vecB (sorted by key)
  | ["coeffs", kind, flag, r, m, states, povms, scheds] => do
      let flag ← parseBool? flag; let r ← parseRat? r; let m ← parseNat? m
      let states ← parseVecs? states; let povms ← parsePovms? povms; let scheds ← parsePairs? scheds
      let cs ← coeffsOf kind flag r m states povms scheds
      some (showCoeffs cs)
  -- probdists kind flag r m eps states povms scheds var  →  calc_prob_dists
  | ["probdists", kind, flag, r, m, eps, states, povms, scheds, var] => do
      let flag ← parseBool? flag; let r ← parseRat? r; let m ← parseNat? m; let eps ← parseRat? eps
      let states ← parseVecs? states; let povms ← parsePovms? povms; let scheds ← parsePairs? scheds
      let var ← parseVecL? var
      let cs ← coeffsOf kind flag r m states povms scheds
      match cs with
      | none => some "err index"
      | some cs => some (showDists (calcProbDists eps scheds.length cs var))
  -- schedpair kind i0,i1,…  →  (tester state index, tester povm index) read from a schedule's item indices
  | ["schedpair", kind, sched] => do
      let sched ← parseList? parseNat? sched
      match schedPair kind sched with
      | some (i, j) => some s!"ok {i}:{j}"
      | none => some "err index"
  -- probdist1 … var i  →  calc_prob_dist(qope, i)
  | ["probdist1", kind, flag, r, m, eps, states, povms, scheds, var, i] => do
      let flag ← parseBool? flag; let r ← parseRat? r; let m ← parseNat? m; let eps ← parseRat? eps
      let states ← parseVecs? states; let povms ← parsePovms? povms; let scheds ← parsePairs? scheds
      let var ← parseVecL? var; let i ← parseNat? i
      let cs ← coeffsOf kind flag r m states povms scheds
      match cs with
      | none => some "err index"
      | some cs => match calcProbDist eps scheds.length cs var i with
        | .ok d => some s!"ok {showVecs [d]}"
        | .error e => some s!"err {e.toString}"
  -- predict: matA @ var + vecB without reshape
  | ["predict", kind, flag, r, m, states, povms, scheds, var] => do
      let flag ← parseBool? flag; let r ← parseRat? r; let m ← parseNat? m
      let states ← parseVecs? states; let povms ← parsePovms? povms; let scheds ← parsePairs? scheds
      let var ← parseVecL? var
      let cs ← coeffsOf kind flag r m states povms scheds
      match cs with
      | none => some "err index"
      | some cs => match predict cs var with
        | .ok p => some s!"ok {showList showRat p}"
        | .error e => some s!"err {e.toString}"
  -- circuit kind flag r n m walk states povms scheds var → per-schedule Born values of objOf var
  | ["circuit", kind, flag, r, n, m, walk, states, povms, scheds, var] => do
      let flag ← parseBool? flag; let r ← parseRat? r; let n ← parseNat? n; let m ← parseNat? m
      let walk ← parseBool? walk
      let states ← parseVecs? states; let povms ← parsePovms? povms; let scheds ← parsePairs? scheds
      let var ← parseVecL? var
      match ← circuitOf kind flag r n m states povms scheds var walk with
      | some d => some s!"ok {showVecs d}"
      | none => some "err index"
  -- circuiteps flag r epsZero epsTrunc n m states povms scheds var → the QMPT circuit with its thresholds
  | ["circuiteps", flag, r, epsZero, epsTrunc, n, m, states, povms, scheds, var] => do
      let flag ← parseBool? flag; let r ← parseRat? r; let e0 ← parseRat? epsZero; let e1 ← parseRat? epsTrunc
      let n ← parseNat? n; let m ← parseNat? m
      let states ← parseVecs? states; let povms ← parsePovms? povms; let scheds ← parsePairs? scheds
      let var ← parseVecL? var
      match qmptCircuitWalkEps flag r e0 e1 n m states povms scheds var with
      | some d => some s!"ok {showVecs d}"
      | none => some "err index"
  -- objof kind flag r n m var → the object built from var, as a flat list of rows
  | ["objof", kind, flag, r, n, m, var] => do
      let flag ← parseBool? flag; let r ← parseRat? r; let n ← parseNat? n; let m ← parseNat? m
      let var ← parseVecL? var
      match kind with
      | "qst" => some s!"ok {showVecs [stateOf flag r var]}"
      | "povmt" => some s!"ok {showVecs (povmOf flag r n m var)}"
      | "qpt" => some s!"ok {showVecs (gateOf flag n var)}"
      | "qmpt" => some s!"ok {showVecs (mprocessOf flag n m var).flatten}"
      | _ => none
  | _ => none

end QM.C08
