import QModel.Core
/-! C08 — model (not built yet) -/
namespace QM.C08
def handle (_args : List String) : Option String := none
end QM.C08
