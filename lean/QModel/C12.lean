import QModel.Core
/-! C12 — model (not built yet) -/
namespace QM.C12
def handle (_args : List String) : Option String := none
end QM.C12
