import QModel.Core
/-!
# C12 — loss values, derivatives and fast paths (model of quara/loss_function/*.py, quara/math/entropy.py)

The predicted distributions of a standard tomography are affine, `p_j(x) = A_j x + b_j`
(`set_func_prob_dists_from_standard_qt` slices `matA`, `vecB`); a schedule is the record `Sched`.
* `wseValue/wseGrad/wseHess`     = `WeightedProbabilityBasedSquaredError.value/gradient/hessian`
  (`multiply_veca_vecb(_matc)`; the Hessian of an affine `p` is the zero vector the code gets from
  `_generate_func_hessian_prob_dist`);
* `fastValue/fastGrad`           = the `StandardQTomographyBased…SquaredError` methods on the stacked
  `matA`, `vecB`, `q_flat` and the cached block matrix `_extend_weight_matrix` (`np.block`);
* `FastWse`, `GenWse`, `configure…` = the cached fields as an explicit state record and the call order of
  `set_from_standard_qtomography_option_data` (option, q, model, gradient model, *then* weights);
* `invCovWeights`                = the `inverse_*_covariance` branch of `_set_weights_by_mode` incl. the slice
  assignment `weight_matrix[: row - 1, : col - 1] = inv` (numpy `inv` and `num_data ** 1.5` are parameters);
* `relEnt…`                      = `relative_entropy(_vector)`, `gradient_/hessian_relative_entropy_2nd(_vector)`
  with their `eps_q/eps_p` clipping; the values `np.log(·)` are parameters (one per outcome);
* `wre…`, `fastWre…`, `configureWre` = `WeightedRelativeEntropy` and its fast variant, incl. the fact that the
  `custom` mode calling `set_weights(option.weights)` and the fast class rebuilding `_extend_weights` there.
-/
namespace QM.C12
open QM

/-! ## weighted squared error -/
section wse
variable {K : Type} [Add K] [Sub K] [Mul K] [Zero K] [One K]

/-- one schedule: `p(x) = A x + b`, data `q` -/
structure Sched (K : Type) (m nv : Nat) where
  A : Mat K m nv
  b : Vec K m
  q : Vec K m

/-- `func_prob_dists[j](var) - prob_dists_q[j]` -/
def resid {m nv : Nat} (s : Sched K m nv) (x : Vec K nv) : Vec K m := ((s.A.mulVec x).add s.b).sub s.q

/-- `func_gradient_prob_dists[j](alpha, var)`: column `alpha` of the block of `matA` -/
def gradP {m nv : Nat} (s : Sched K m nv) (α : Fin nv) : Vec K m := Vec.ofFn fun i => s.A.get i α

/-- `multiply_veca_vecb_matc(a, b, C) = a · (C b)`, or `multiply_veca_vecb` when there is no weight -/
def bil {m : Nat} (W : Option (Mat K m m)) (a b : Vec K m) : K :=
  match W with
  | some W => a.dot (W.mulVec b)
  | none => a.dot b

/-- weight matrix of schedule `j` (`self.weight_matrices[index]`; `None`/empty list = no weights) -/
def weightAt {m : Nat} (Ws : Option (List (Mat K m m))) (j : Nat) : Option (Option (Mat K m m)) :=
  match Ws with
  | none => some none
  | some [] => some none            -- `if self.weight_matrices:` is false for an empty list
  | some l => (l[j]?).map some      -- IndexError when there are fewer matrices than schedules

inductive Err
  | index | broadcast | shape | noWeights | notSymmetric
deriving Repr, DecidableEq

def Err.toString : Err → String
  | .index => "index" | .broadcast => "broadcast" | .shape => "shape" | .noWeights => "noWeights"
  | .notSymmetric => "notSymmetric"

/-- sum over the schedules of `f j sched W_j` -/
def sumSched {m nv : Nat} (ss : List (Sched K m nv)) (Ws : Option (List (Mat K m m)))
    (f : Sched K m nv → Option (Mat K m m) → K) : Except Err K :=
  let rec go : List (Sched K m nv) → Nat → Except Err K
    | [], _ => .ok 0
    | s :: r, j =>
      match weightAt Ws j with
      | none => .error .index
      | some W => do
        let rest ← go r (j + 1)
        .ok (f s W + rest)
  go ss 0

/-- `WeightedProbabilityBasedSquaredError.value` -/
def wseValue {m nv : Nat} (ss : List (Sched K m nv)) (Ws : Option (List (Mat K m m))) (x : Vec K nv) :
    Except Err K :=
  sumSched ss Ws fun s W => bil W (resid s x) (resid s x)

/-- component `alpha` of `gradient` (before the factor 2) -/
def wseGradHalf {m nv : Nat} (ss : List (Sched K m nv)) (Ws : Option (List (Mat K m m))) (x : Vec K nv)
    (α : Fin nv) : Except Err K :=
  sumSched ss Ws fun s W => bil W (gradP s α) (resid s x)

/-- entry `(alpha, beta)` of `hessian` (before the factor 2); the second term is the code's
`multiply(hess, p − q)` with `hess = 0` for affine `p` -/
def wseHessHalf {m nv : Nat} (ss : List (Sched K m nv)) (Ws : Option (List (Mat K m m))) (x : Vec K nv)
    (α β : Fin nv) : Except Err K :=
  sumSched ss Ws fun s W => bil W (gradP s α) (gradP s β) + bil W Vec.zero (resid s x)

def two : K := 1 + 1

/-! ### fast path: stacked vectors and the cached block-diagonal weight matrix -/

/-- stacked vector: entry `i` of the concatenation of the blocks -/
def catEntry {m : Nat} : List (Vec K m) → Nat → K
  | [], _ => 0
  | v :: r, i => if h : i < m then v.get ⟨i, h⟩ else catEntry r (i - m)

/-- `np.block` of `[[W0,0,…],[0,W1,…],…]`: entry `(i,j)` -/
def blockEntry {m : Nat} : List (Mat K m m) → Nat → Nat → K
  | [], _, _ => 0
  | W :: r, i, j =>
    if h : i < m ∧ j < m then W.get ⟨i, h.1⟩ ⟨j, h.2⟩
    else if m ≤ i ∧ m ≤ j then blockEntry r (i - m) (j - m)
    else 0

/-- `a · (E b)` over stacked vectors of total length `N`; `E = none` ⇒ `a · b` -/
def bilFlat (N : Nat) (E : Option (Nat → Nat → K)) (a b : Nat → K) : K :=
  match E with
  | some E => fsum N fun i => a i.val * fsum N fun j => E i.val j.val * b j.val
  | none => fsum N fun i => a i.val * b i.val

/-- `_calc_extend_weight_matrix` result; `Ws.length` blocks of size `m` (shape `(len·m)²`) -/
structure ExtW (K : Type) (m : Nat) where
  blocks : List (Mat K m m)

/-- `StandardQTomographyBased…SquaredError.value`: `vec = matA @ var + vecB − q_flat`, `vec · (E vec)`.
`ValueError` (shape) when the cached matrix does not have the size of the stacked vector. -/
def fastValue {m nv : Nat} (ss : List (Sched K m nv)) (E : Option (ExtW K m)) (x : Vec K nv) :
    Except Err K :=
  let N := ss.length * m
  let vec := catEntry (ss.map fun s => resid s x)
  match E with
  | none => .ok (bilFlat N none vec vec)
  | some e =>
    if e.blocks.length ≠ ss.length then .error .shape
    else .ok (bilFlat N (some (blockEntry e.blocks)) vec vec)

/-- component `alpha` of the fast gradient before the factor 2: `(matAᵀ E vec)_alpha` -/
def fastGradHalf {m nv : Nat} (ss : List (Sched K m nv)) (E : Option (ExtW K m)) (x : Vec K nv)
    (α : Fin nv) : Except Err K :=
  let N := ss.length * m
  let vec := catEntry (ss.map fun s => resid s x)
  let col := catEntry (ss.map fun s => gradP s α)
  match E with
  | none => .ok (bilFlat N none col vec)
  | some e =>
    if e.blocks.length ≠ ss.length then .error .shape
    else .ok (bilFlat N (some (blockEntry e.blocks)) col vec)

end wse

/-! ## simple quadratic loss (simple_quadratic_loss_function.py) -/
section simple
variable {K : Type} [Add K] [Sub K] [Mul K] [Zero K] [One K]

/-- `SimpleQuadraticLossFunction.value`: `np.sum((var − var_ref)**2)` -/
def simpleValue {n : Nat} (ref x : Vec K n) : K := (x.sub ref).dot (x.sub ref)
/-- `gradient`: `2·(var − var_ref)` -/
def simpleGrad {n : Nat} (ref x : Vec K n) : Vec K n := Vec.ofFn fun i => (1 + 1) * (x.get i - ref.get i)
/-- `hessian`: `2·I` -/
def simpleHess {n : Nat} (i j : Fin n) : K := if i = j then 1 + 1 else 0

end simple

/-! ## option wiring (state records) -/
section wiring
variable {K : Type} [Add K] [Sub K] [Mul K] [Div K] [Zero K] [One K] [LT K] [DecidableLT K] [NatCast K]

inductive Mode
  | identity | custom | invSample | invUnbiased | unbiasedInv
deriving Repr, DecidableEq

/-- `…Option(mode_weight, weights)`; the constructor forces `mode = custom` when weights are given -/
structure Opt (K : Type) (m : Nat) where
  mode : Mode
  weights : Option (List (Mat K m m))

def mkOpt {m : Nat} (mode : Mode) (weights : Option (List (Mat K m m))) : Opt K m :=
  match weights with
  | some w => ⟨.custom, some w⟩
  | none => ⟨mode, none⟩

/-- `replace_prob_dist(p)` with the default eps on a vector -/
def replaceVec {m : Nat} (p : Vec K m) (eps : K) : Vec K m :=
  let cnt := ((List.finRange m).filter fun i => decide (p.get i < eps)).length
  Vec.ofFn fun i => if p.get i < eps then eps else p.get i - (eps * (cnt : K)) / ((m - cnt : Nat) : K)

/-- `calc_covariance_mat(q, n)` (as in QModel.C19) -/
def covMat {m : Nat} (q : Vec K m) (n : K) : Mat K m m :=
  Mat.ofFn fun i j => ((if i = j then q.get i else 0) - q.get i * q.get j) / n

/-- the option's mode string -/
def modeName : Mode → String
  | .identity => "identity" | .custom => "custom"
  | .invSample => "inverse_sample_covariance" | .invUnbiased => "inverse_unbiased_covariance"
  | .unbiasedInv => "unbiased_inverse_covariance"      -- accepted alias of the unbiased covariance mode

/-- the `n` handed to `calc_covariance_mat`: `num_data` (sample covariance) or `num_data - 1` (unbiased) -/
def covDenom (unbiased : Bool) (n : K) : K := if unbiased then n - 1 else n

/-- which covariance a mode uses: `true` = unbiased (`num_data - 1`) -/
def modeUnbiased : Mode → Bool
  | .invUnbiased | .unbiasedInv => true
  | _ => false

/-- the matrix handed to `np.linalg.inv`: `cov[:-1,:-1] + eye(row−1) / num_data**1.5` -/
def extracted {m : Nat} (cov : Mat K m m) (n32 : K) : Mat K (m - 1) (m - 1) :=
  Mat.ofFn fun i j => cov.get ⟨i.val, by omega⟩ ⟨j.val, by omega⟩ + (if i = j then 1 else 0) / n32

/-- `(inv + inv.T) / 2`: the symmetrisation applied right after `np.linalg.inv` -/
def symmetrise {n : Nat} (G : Mat K n n) : Mat K n n :=
  Mat.ofFn fun i j => (G.get i j + G.get j i) / (1 + 1)

/-- the matrix a covariance mode hands to `np.linalg.inv` for one `(num_data, empirical distribution)` pair:
`replace_prob_dist` (default eps), covariance with `num_data` resp. `num_data − 1`, leading block, `+ I / num_data**1.5` -/
def extractedFor {m : Nat} (md : Mode) (q : Vec K m) (eps n n32 : K) : Mat K (m - 1) (m - 1) :=
  extracted (covMat (replaceVec q eps) (covDenom (modeUnbiased md) n)) n32

/-- one weight matrix of the `inverse_*_covariance` modes; `Ginv` is numpy's inverse of `extracted`, symmetrised.
`row == 2`: entry `[0,0]` is filled; otherwise `weight_matrix[: row - 1, : col - 1] = inv`; last row and
column stay zero in both branches. -/
def invCovWeight {m : Nat} (Ginv : Mat K (m - 1) (m - 1)) : Mat K m m :=
  let S := symmetrise Ginv
  if hm : m = 2 then
    Mat.ofFn fun i j =>
      if h : i.val = 0 ∧ j.val = 0 then S.get ⟨0, by omega⟩ ⟨0, by omega⟩ else 0
  else
    Mat.ofFn fun i j =>
      if h : i.val < m - 1 ∧ j.val < m - 1 then S.get ⟨i.val, h.1⟩ ⟨j.val, h.2⟩ else 0

def invCovWeights {m : Nat} (Ginvs : List (Mat K (m - 1) (m - 1))) : List (Mat K m m) :=
  Ginvs.map invCovWeight

/-- `_set_weights_by_mode` of the squared-error losses: `some w` = `set_weight_matrices(w)` is called
(`identity` calls it with `None`); `none` = no setter call (no accepted mode string does that any more). -/
def weightsByMode {m : Nat} (opt : Opt K m) (Ginvs : List (Mat K (m - 1) (m - 1))) :
    Option (Option (List (Mat K m m))) :=
  match opt.mode with
  | .identity => some none
  | .custom => some opt.weights
  | .invSample | .invUnbiased | .unbiasedInv => some (some (invCovWeights Ginvs))

/-- fields of the generic loss that matter for weighting -/
structure GenWse (K : Type) (m : Nat) where
  weightMatrices : Option (List (Mat K m m))

/-- fields of the fast loss: `_weight_matrices` and the cached `_extend_weight_matrix` -/
structure FastWse (K : Type) (m : Nat) where
  weightMatrices : Option (List (Mat K m m))
  extW : Option (ExtW K m)

/-- `_calc_extend_weight_matrix`: the block matrix of the current weight matrices, `None` when there are none;
an EMPTY list is an `IndexError` (`self.weight_matrices[0].shape`). -/
def calcExt {m : Nat} (st : FastWse K m) : Except Err (FastWse K m) :=
  match st.weightMatrices with
  | none => .ok { st with extW := none }
  | some [] => .error .index
  | some ws => .ok { st with extW := some ⟨ws⟩ }

/-- the fast class's `set_weight_matrices`: store, then rebuild the cached block matrix -/
def setWeightsFast {m : Nat} (st : FastWse K m) (w : Option (List (Mat K m m))) : Except Err (FastWse K m) :=
  calcExt { st with weightMatrices := w }

/-- `matrix_util.is_hermitian(W, atol)` on a real matrix: `allclose(W, W.T, atol=atol, rtol=0)` -/
def symOk {m : Nat} (atol : K) (W : Mat K m m) : Bool :=
  (List.finRange m).all fun i => (List.finRange m).all fun j =>
    let d := W.get i j - W.get j i
    !decide (atol < (if d < 0 then 0 - d else d))

/-- `_validate_weight_matrices` (`if weight_matrices:` … every matrix symmetric within `Settings.get_atol()`) -/
def validWs {m : Nat} (atol : K) (w : Option (List (Mat K m m))) : Bool :=
  match w with
  | none => true
  | some l => l.all (symOk atol)

/-- `set_from_standard_qtomography_option_data` on the generic loss; `ValueError` (notSymmetric) when the
setter's validation rejects the matrices (the float inverse of the covariance modes is not exactly symmetric). -/
def configureGen {m : Nat} (atol : K) (st : GenWse K m) (opt : Opt K m)
    (Ginvs : List (Mat K (m - 1) (m - 1))) : Except Err (GenWse K m) :=
  match weightsByMode opt Ginvs with
  | none => .ok st
  | some w => if validWs atol w then .ok { weightMatrices := w } else .error .notSymmetric

/-- `set_from_standard_qtomography_option_data` on the fast loss, in the code's order:
option, q, `set_func_prob_dists_from_standard_qt` (→ `_calc_extend_weight_matrix`), if required
`set_func_gradient_prob_dists_from_standard_qt` (→ again), then `_set_weights_by_mode`, whose
`set_weight_matrices` validates, stores and rebuilds the cached matrix. -/
def configureFast {m : Nat} (atol : K) (st : FastWse K m) (opt : Opt K m) (gradRequired : Bool)
    (Ginvs : List (Mat K (m - 1) (m - 1))) : Except Err (FastWse K m) :=
  match calcExt st with
  | .error e => .error e
  | .ok st1 =>
    match (if gradRequired then calcExt st1 else .ok st1) with
    | .error e => .error e
    | .ok st2 =>
      match weightsByMode opt Ginvs with
      | none => .ok st2
      | some w => if validWs atol w then setWeightsFast st2 w else .error .notSymmetric

end wiring

/-! ## relative entropy -/
section entropy
variable {K : Type} [Add K] [Sub K] [Mul K] [Div K] [Neg K] [Zero K] [One K] [LT K] [DecidableLT K]
  [LE K] [DecidableLE K]

/-- `round_varz(z, eps)` = `np.where(z > eps, z, eps)` -/
def roundVarz (z eps : K) : K := if eps < z then z else eps

/-- argument of the logarithm for one outcome -/
def logArg (q p epsq epsp : K) : K := roundVarz (roundVarz q epsq / roundVarz p epsp) epsp

/-- `relative_entropy(q, p)`; `logs[i]` is `np.log` of `logArg q_i p_i` (numpy kernel). -/
def relEnt (epsq epsp : K) : List K → List K → List K → K
  | q :: qs, _p :: ps, l :: ls =>
    (if epsq ≤ q then roundVarz q epsq * l else 0) + relEnt epsq epsp qs ps ls
  | _, _, _ => 0

/-- `truncate_computational_fluctuation(q, eps)` -/
def truncQ (q eps : K) : K := if (if q < 0 then -q else q) < eps then 0 else q

/-- `np.sum(relative_entropy_vector(q, p))` -/
def relEntVec (epsq epsp : K) : List K → List K → List K → K
  | q :: qs, _p :: ps, l :: ls => truncQ q epsq * l + relEntVec epsq epsp qs ps ls
  | _, _, _ => 0

/-- component of `gradient_relative_entropy_2nd(q, p, grad_ps)`; `gs[i]` = ∂_α p_i -/
def relEntGrad (epsq epsp : K) : List K → List K → List K → K
  | q :: qs, p :: ps, g :: gs =>
    (if epsq ≤ q then -q * g / roundVarz p epsp else 0) + relEntGrad epsq epsp qs ps gs
  | _, _, _ => 0

/-- component of `np.sum(gradient_relative_entropy_2nd_vector(…), axis=0)` -/
def relEntGradVec (epsq epsp : K) : List K → List K → List K → K
  | q :: qs, p :: ps, g :: gs =>
    (-(truncQ q epsq) / roundVarz p epsp) * g + relEntGradVec epsq epsp qs ps gs
  | _, _, _ => 0

/-- entry of `hessian_relative_entropy_2nd` for affine `p` (`hess_p = 0`): `ga[i] = ∂_α p_i`, `gb[i] = ∂_β p_i` -/
def relEntHess (epsq epsp : K) : List K → List K → List K → List K → K
  | q :: qs, p :: ps, a :: ga, b :: gb =>
    (if epsq ≤ q then -q * 0 / roundVarz p epsp
        + (q / (roundVarz p epsp * roundVarz p epsp)) * (a * b) else 0)
      + relEntHess epsq epsp qs ps ga gb
  | _, _, _, _ => 0

/-- `WeightedRelativeEntropy.value`: `Σ_j w_j · relative_entropy(q_j, p_j)`; `weights = none` or empty ⇒ no weights
(`if self.weights:`); fewer weights than schedules ⇒ IndexError -/
def wreSum (ws : Option (List K)) (terms : List K) : Except Unit K :=
  match ws with
  | none | some [] => .ok (lsum terms)
  | some w =>
    if w.length < terms.length then .error ()
    else .ok (lsum ((w.zip terms).map fun (a, t) => a * t))

/-- fields of the relative-entropy losses that matter for weighting -/
structure WreState (K : Type) where
  weights : Option (List K)
  extWeights : Option (List K)     -- fast variant only

/-- `_calc_extend_weights`: every weight repeated `len(q_j)` times; nothing while `weights is None` -/
def calcExtWeights (st : WreState K) (lens : List Nat) : WreState K :=
  match st.weights with
  | none => st
  | some w => { st with extWeights := some ((w.zip lens).flatMap fun (a, n) => List.replicate n a) }

/-- `set_from_standard_qtomography_option_data` on either relative-entropy loss. `optWeights = none` is mode
`identity`: `set_weights(None)`; `some w` is mode `custom`: `set_weights(option.weights)`. The fast class's
`set_weights` then calls `_calc_extend_weights` (the data `q` have been set before), which rebuilds
`_extend_weights` when there are weights and leaves the (then unused) old vector otherwise. -/
def configureWre (st : WreState K) (optWeights : Option (List K)) (lens : List Nat) (fast gradRequired : Bool) :
    WreState K :=
  let st2 :=
    if fast then
      let st1 := calcExtWeights st lens
      if gradRequired then calcExtWeights st1 lens else st1
    else st
  let st3 := { st2 with weights := optWeights }
  if fast then calcExtWeights st3 lens else st3

/-- numpy's elementwise product of two 1-d arrays: equal lengths, or one operand of length 1 (broadcast); else ValueError -/
def bmul (e v : List K) : Except Unit (List K) :=
  if e.length = v.length then .ok ((e.zip v).map fun (a, t) => a * t)
  else match e, v with
    | [a], _ => .ok (v.map fun t => a * t)
    | _, [t] => .ok (e.map fun a => a * t)
    | _, _ => .error ()

/-- `StandardQTomographyBasedWeightedRelativeEntropy.value`: `np.sum(_extend_weights * vector)` (`weights is not None`, so also for
an EMPTY weight list) or `np.sum(vector)`; `vector` = the per-outcome terms of `relative_entropy_vector` over all schedules. -/
def fastWreSum (st : WreState K) (vector : List K) : Except Unit K :=
  match st.weights with
  | none => .ok (lsum vector)
  | some _ =>
    match st.extWeights with
    | none => .error ()            -- AttributeError: `_extend_weights` was never computed
    | some e => (bmul e vector).map lsum

/-- component of `StandardQTomographyBasedWeightedRelativeEntropy.gradient`: `np.dot(_extend_weights, vectors)[α]` needs equal
lengths (no broadcast in `dot`), or `np.sum(vectors, axis=0)[α]` without weights; `col` = column α of the per-outcome vectors -/
def fastWreDot (st : WreState K) (col : List K) : Except Unit K :=
  match st.weights with
  | none => .ok (lsum col)
  | some _ =>
    match st.extWeights with
    | none => .error ()
    | some e => if e.length = col.length then .ok (lsum ((e.zip col).map fun (a, t) => a * t)) else .error ()

/-- the per-outcome terms of `relative_entropy_vector(q, p)` (their sum is `relEntVec`) -/
def relEntVecTerms (epsq _epsp : K) : List K → List K → List K → List K
  | q :: qs, _p :: ps, l :: ls => truncQ q epsq * l :: relEntVecTerms epsq _epsp qs ps ls
  | _, _, _ => []

/-- column α of `gradient_relative_entropy_2nd_vector(q, p, grad_ps)` (their sum is `relEntGradVec`) -/
def relEntGradVecTerms (epsq epsp : K) : List K → List K → List K → List K
  | q :: qs, p :: ps, g :: gs => (-(truncQ q epsq) / roundVarz p epsp) * g :: relEntGradVecTerms epsq epsp qs ps gs
  | _, _, _ => []

end entropy

/-! ## driver -/

def mkMat (r c : Nat) (l : List Rat) : Option (Mat Rat r c) :=
  if l.length = r * c then
    let a := l.toArray
    some (Mat.ofFn fun i j => a.getD (i.val * c + j.val) 0)  -- in range by the length test
  else none

def mkVec (n : Nat) (l : List Rat) : Option (Vec Rat n) :=
  if l.length = n then
    let a := l.toArray
    some (Vec.ofFn fun i => a.getD i.val 0)
  else none

/-- `S` schedules: `A_1 b_1 q_1 …` (flat) -/
def parseScheds (m nv : Nat) : Nat → List String → Option (List (Sched Rat m nv) × List String)
  | 0, rest => some ([], rest)
  | s + 1, a :: b :: q :: rest => do
      let A ← mkMat m nv (← parseList? parseRat? a)
      let b ← mkVec m (← parseList? parseRat? b)
      let q ← mkVec m (← parseList? parseRat? q)
      let (l, rest') ← parseScheds m nv s rest
      some (⟨A, b, q⟩ :: l, rest')
  | _, _ => none

def parseMats (r c : Nat) : Nat → List String → Option (List (Mat Rat r c) × List String)
  | 0, rest => some ([], rest)
  | k + 1, a :: rest => do
      let A ← mkMat r c (← parseList? parseRat? a)
      let (l, rest') ← parseMats r c k rest
      some (A :: l, rest')
  | _, _ => none

/-- optional weight list: `none` | `k W_1 … W_k` -/
def parseWeights (m : Nat) : List String → Option (Option (List (Mat Rat m m)) × List String)
  | "none" :: rest => some (none, rest)
  | k :: rest => do
      let k ← parseNat? k
      let (l, rest') ← parseMats m m k rest
      some (some l, rest')
  | _ => none

def showE (x : Except Err Rat) : String :=
  match x with
  | .ok v => s!"ok {showRat v}"
  | .error e => s!"err {e.toString}"

def showEs (xs : List (Except Err Rat)) : String :=
  match xs.mapM id with
  | .ok vs => s!"ok {showList showRat vs}"
  | .error e => s!"err {e.toString}"

def matList {r c : Nat} (A : Mat Rat r c) : List Rat :=
  (List.finRange r).flatMap fun i => (List.finRange c).map fun j => A.get i j

def showWs {m : Nat} (w : Option (List (Mat Rat m m))) : String :=
  match w with
  | none => "none"
  | some l => s!"some:{l.length}:" ++ showList showRat (l.flatMap matList)

def parseMode : String → Option Mode
  | "identity" => some .identity | "custom" => some .custom
  | "inverse_sample_covariance" => some .invSample | "inverse_unbiased_covariance" => some .invUnbiased
  | "unbiased_inverse_covariance" => some .unbiasedInv
  | _ => none

def parseOptList (s : String) : Option (Option (List Rat)) :=
  if s = "none" then some none else (parseList? parseRat? s).map some

/-- a configuration round: `mode  weights  k Ginv_1…Ginv_k` -/
def parseRound (m : Nat) : List String →
    Option ((Opt Rat m × List (Mat Rat (m - 1) (m - 1))) × List String)
  | mode :: rest => do
      let mode ← parseMode mode
      let (w, rest1) ← parseWeights m rest
      match rest1 with
      | k :: rest2 => do
          let k ← parseNat? k
          let (g, rest3) ← parseMats (m - 1) (m - 1) k rest2
          some ((mkOpt mode w, g), rest3)
      | [] => none
  | [] => none

def parseRounds (m : Nat) : Nat → List String →
    Option (List (Opt Rat m × List (Mat Rat (m - 1) (m - 1))) × List String)
  | 0, rest => some ([], rest)
  | k + 1, rest => do
      let (r, rest1) ← parseRound m rest
      let (l, rest2) ← parseRounds m k rest1
      some (r :: l, rest2)

def handle (args : List String) : Option String :=
  match args with
  -- generic / fast squared error at a point: value, gradient, (hessian)
  | "wse" :: which :: m :: nv :: s :: x :: rest => do
      let m ← parseNat? m
      let nv ← parseNat? nv
      let s ← parseNat? s
      let x ← mkVec nv (← parseList? parseRat? x)
      let (ss, rest1) ← parseScheds m nv s rest
      let (ws, rest2) ← parseWeights m rest1
      if !rest2.isEmpty then none
      let idx := List.finRange nv
      if which = "value" then some (showE (wseValue ss ws x))
      else if which = "grad" then
        some (showEs (idx.map fun α => (wseGradHalf ss ws x α).map fun v => two * v))
      else if which = "hess" then
        some (showEs (idx.flatMap fun α => idx.map fun β => (wseHessHalf ss ws x α β).map fun v => two * v))
      else if which = "fvalue" then some (showE (fastValue ss (ws.map fun l => ⟨l⟩) x))
      else if which = "fgrad" then
        some (showEs (idx.map fun α => (fastGradHalf ss (ws.map fun l => ⟨l⟩) x α).map fun v => two * v))
      else none
  | ["simple", n, ref, x] => do
      let n ← parseNat? n
      let ref ← mkVec n (← parseList? parseRat? ref)
      let x ← mkVec n (← parseList? parseRat? x)
      let idx := List.finRange n
      some s!"ok {showRat (simpleValue ref x)} {showList showRat (simpleGrad ref x).toList} {showList showRat (idx.flatMap fun i => idx.map fun j => simpleHess (K := Rat) i j)}"
  -- inverse-covariance weight inputs: the matrix handed to numpy's inv
  | ["extracted", mode, m, q, eps, n, n32] => do
      let mode ← parseMode mode
      let m ← parseNat? m
      let q ← mkVec m (← parseList? parseRat? q)
      let eps ← parseRat? eps
      let n ← parseRat? n
      let n32 ← parseRat? n32
      some s!"ok {showList showRat (matList (extractedFor mode q eps n n32))}"
  -- weights in force after a sequence of configurations of a fresh object
  | "wiring" :: which :: atol :: m :: grad :: k :: rest => do
      let atol ← parseRat? atol
      let m ← parseNat? m
      let k ← parseNat? k
      let (rounds, rest1) ← parseRounds m k rest
      if !rest1.isEmpty then none
      if which = "generic" then
        match rounds.foldlM (fun (st : GenWse Rat m) (o, g) => configureGen atol st o g) ⟨none⟩ with
        | .ok st => some s!"ok {showWs st.weightMatrices}"
        | .error e => some s!"err {e.toString}"
      else if which = "fast" then
        match rounds.foldlM (fun (st : FastWse Rat m) (o, g) => configureFast atol st o (grad = "true") g) ⟨none, none⟩ with
        | .ok st => some s!"ok {showWs st.weightMatrices} {showWs (st.extW.map fun e => e.blocks)}"
        | .error e => some s!"err {e.toString}"
      else none
  -- relative entropy pieces for one schedule
  | ["relent", which, epsq, epsp, q, p, l] => do
      let epsq ← parseRat? epsq
      let epsp ← parseRat? epsp
      let q ← parseList? parseRat? q
      let p ← parseList? parseRat? p
      let l ← parseList? parseRat? l
      if which = "value" then some s!"ok {showRat (relEnt epsq epsp q p l)}"
      else if which = "vvalue" then some s!"ok {showRat (relEntVec epsq epsp q p l)}"
      else if which = "grad" then some s!"ok {showRat (relEntGrad epsq epsp q p l)}"
      else if which = "vgrad" then some s!"ok {showRat (relEntGradVec epsq epsp q p l)}"
      else if which = "logarg" then
        some s!"ok {showList showRat ((q.zip p).map fun (a, b) => logArg a b epsq epsp)}"
      else none
  | ["relenthess", epsq, epsp, q, p, ga, gb] => do
      let epsq ← parseRat? epsq
      let epsp ← parseRat? epsp
      let q ← parseList? parseRat? q
      let p ← parseList? parseRat? p
      let ga ← parseList? parseRat? ga
      let gb ← parseList? parseRat? gb
      some s!"ok {showRat (relEntHess epsq epsp q p ga gb)}"
  -- weighted sums of the per-schedule terms and the weights in force after configuration
  | ["wresum", ws, terms] => do
      let ws ← parseOptList ws
      let terms ← parseList? parseRat? terms
      match wreSum ws terms with
      | .ok v => some s!"ok {showRat v}"
      | .error _ => some "err index"
  -- fast weighted sums on one configured object: fwre sum|dot ctorW optW lens vector
  | ["fwre", which, grad, ctorW, optW, lens, vector] => do
      let ctorW ← parseOptList ctorW
      let optW ← parseOptList optW
      let lens ← parseList? parseNat? lens
      let vector ← parseList? parseRat? vector
      let st := configureWre (K := Rat) ⟨ctorW, none⟩ optW lens true (grad = "true")
      let r ← (if which = "sum" then some (fastWreSum st vector) else if which = "dot" then some (fastWreDot st vector) else none)
      match r with
      | .ok v => some s!"ok {showRat v}"
      | .error _ => some "err value"
  | ["wrewiring", fast, grad, ctorW, optW, lens] => do
      let ctorW ← parseOptList ctorW
      let optW ← parseOptList optW
      let lens ← parseList? parseNat? lens
      let st := configureWre (K := Rat) ⟨ctorW, none⟩ optW lens (fast = "true") (grad = "true")
      let sh := fun (o : Option (List Rat)) => match o with | none => "none" | some l => showList showRat l
      some s!"ok {sh st.weights} {sh st.extWeights}"
  | _ => none

end QM.C12
