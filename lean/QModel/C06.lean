import QModel.Core
/-! C06 — model (not built yet) -/
namespace QM.C06
def handle (_args : List String) : Option String := none
end QM.C06
