import QModel.Core
import QModel.C16
/-!
# C06 — composition of quantum operations (model of `compose_qoperations` and helpers in
quara/objects/operators.py, `Povm.generate_mprocess` (mode 2; spectral step of mode 1) / `MProcess.to_povm`,
`truncate_and_normalize`, `StateEnsemble`)

Objects are the real coefficient arrays the library stores (`n = d²`): a state is a `Vec K n`,
a gate a `Mat K n n`, a POVM a list of vectors (+ `nums_local_outcomes`), a measurement process a list
of matrices + `shape` + `eps_zero`, an ensemble a list of states + a `MultinomialDistribution`
(`QM.C16.Dist`, constructor `QM.C16.ctor`) + `eps_zero`.

The model mirrors the code *as it is*: product orders, nested-loop outcome layouts, reported shapes,
the `eps_zero` truncation / renormalisation of `_compose_qoperations_MProcess_State_for_States`
(post states are divided by the raw, un-renormalised probability), zero-probability post
states, the zero-distribution branch, `truncate_and_normalize`, the right-to-left fold of a chain.

Not modelled: the physicality verdicts inside the object constructors (C01), `mode_sampling=True`
(random), `np.sum` pairwise rounding.  `sd` is the float `np.sqrt(dim)` as a rational, `atol` is
`Settings.get_atol()`.
-/
namespace QM.C06
open QM

/-! ## pure kernels (scalar-polymorphic) -/
section kernels
variable {K : Type} {n : Nat}

/-- `vec.conjugate() @ hs` (real arrays: the conjugate is the identity) -/
def vecMat [Add K] [Mul K] [Zero K] (v : Vec K n) (A : Mat K n n) : Vec K n :=
  Vec.ofFn fun j => fsum n fun i => v.get i * A.get i j

/-- row `i` of a matrix (`hs[i]`) -/
def row (A : Mat K n n) (i : Fin n) : Vec K n := Vec.ofFn fun j => A.get i j

/-- `np.dot(np.array([u]).T, np.array([v]))` -/
def outer [Mul K] (u v : Vec K n) : Mat K n n := Mat.ofFn fun i j => u.get i * v.get j

/-- Povm ∘ Gate: `[v.conjugate() @ hs for v in vecs]` -/
def povmGate [Add K] [Mul K] [Zero K] (vecs : List (Vec K n)) (hs : Mat K n n) : List (Vec K n) :=
  vecs.map fun v => vecMat v hs

/-- `_compose_qoperations_Povm_MProcess`: `for hs in hss: for vec in vecs: hs.T @ vec` -/
def povmMProcess [Add K] [Mul K] [Zero K] (vecs : List (Vec K n)) (hss : List (Mat K n n)) :
    List (Vec K n) :=
  hss.flatMap fun hs => vecs.map fun v => hs.transpose.mulVec v

/-- `_compose_qoperations_MProcess_MProcess` ("elem1 after elem2"):
`for hs2 in elem2.hss: for hs1 in elem1.hss: hs1 @ hs2`, reported shape `shape2 + shape1`
(earlier outcome = slow index, as for StateEnsemble). -/
def mpMp [Add K] [Mul K] [Zero K] (hss1 hss2 : List (Mat K n n)) : List (Mat K n n) :=
  hss2.flatMap fun hs2 => hss1.map fun hs1 => hs1.mul hs2

/-- `MProcess.to_povm`: `[sqrt(dim) * hs[0] for hs in hss]` -/
def toPovm [Mul K] [NeZero n] (sd : K) (hss : List (Mat K n n)) : List (Vec K n) :=
  hss.map fun hs => Vec.smul sd (row hs 0)

/-- `generate_mprocess(mode_backaction=2)` with one post-selected state per outcome (`zip`) -/
def genMode2List [Mul K] (states vecs : List (Vec K n)) : List (Mat K n n) :=
  (states.zip vecs).map fun (s, v) => outer s v

/-- `generate_mprocess(mode_backaction=2)` with a single post-selected state -/
def genMode2 [Mul K] (state : Vec K n) (vecs : List (Vec K n)) : List (Mat K n n) :=
  vecs.map fun v => outer state v

/-- Born probabilities before truncation: `[np.vdot(v, rho) for v in vecs]` -/
def bornRaw [Add K] [Mul K] [Zero K] (vecs : List (Vec K n)) (rho : Vec K n) : List K :=
  vecs.map fun v => Vec.dot v rho

/-- `truncate_and_normalize` (1-d branch): `np.where(m < eps, 0, m) / sum`. `none` = division by a
zero sum (numpy yields nan and the distribution constructor then rejects it). -/
def truncNorm [Add K] [Zero K] [Div K] [LT K] [DecidableLT K] [DecidableEq K] (eps : K) (ps : List K) :
    Option (List K) :=
  let t := ps.map fun p => if p < eps then 0 else p
  let s := lsum t
  if s = 0 then none else some (t.map (· / s))

/-- `Mx_rho / p_x` -/
def vdiv [Div K] (v : Vec K n) (p : K) : Vec K n := Vec.ofFn fun i => v.get i / p

/-- `_compose_qoperations_MProcess_State_for_States(elem1, elem2, weight)` on the
orthonormal-Hermitian-0th-identity branch (the only one an MProcess can be constructed on).
Returns `(states, ps)`. -/
def forStates [Add K] [Mul K] [Zero K] [Div K] [LE K] [DecidableLE K] [DecidableEq K] [NeZero n]
    (sd eps : K) (hss : List (Mat K n n)) (rho : Vec K n) (w : K) : List (Vec K n) × List K :=
  let mx := hss.map fun hs => hs.mulVec rho
  let raw := mx.map fun r => sd * r.get 0
  let trunc := raw.any fun p => decide (w * p ≤ eps)
  let ps0 := raw.map fun p => if w * p ≤ eps then 0 else p
  let s := lsum ps0
  let ps1 := if trunc && !decide (s = 0) then ps0.map (· / s) else ps0
  -- `ps_raw = list(ps)` is taken before the renormalisation: each post state is divided by its own raw probability
  let states := (mx.zip ps0).map fun (r, p) => if p = 0 then Vec.zero else vdiv r p
  (states, ps1.map fun p => w * p)

end kernels

/-! ## `Povm.generate_mprocess(mode_backaction=1)`: the spectral step (povm.py:736-754), real symmetric case -/
section mode1
variable {K : Type} {d : Nat}

/-- `spectral_decomp[eigenval] = [P]` / `.append(P)`: a dict keyed by the eigenvalue, insertion ordered -/
def dictSet [DecidableEq K] (dct : List (K × List (Mat K d d))) (key : K) (val : List (Mat K d d)) :
    List (K × List (Mat K d d)) :=
  if dct.any (fun e => e.1 = key) then dct.map fun e => if e.1 = key then (key, val) else e
  else dct ++ [(key, val)]

def dictAppend [DecidableEq K] (dct : List (K × List (Mat K d d))) (key : K) (P : Mat K d d) :
    List (K × List (Mat K d d)) :=
  dct.map fun e => if e.1 = key then (e.1, e.2 ++ [P]) else e

/-- the loop `for eigenval, eigenvec in zip(eigenvals, eigenvecs.T)`: the eigenvectors are the **columns** of the
matrix returned by `np.linalg.eigh`; `P = np.outer(v, v.conj())` (the model covers real eigenvector matrices, where
the conjugate is the identity). -/
def mode1Loop [Mul K] [DecidableEq K] :
    List (K × Vec K d) → Option K → List (K × List (Mat K d d)) → List (K × List (Mat K d d))
  | [], _, dct => dct
  | (ev, row) :: rest, prev, dct =>
    let P := outer row row
    let dct' := if prev = some ev then dictAppend dct ev P else dictSet dct ev [P]
    mode1Loop rest (some ev) dct'

/-- columns of the eigenvector matrix, as `zip(eigenvals, eigenvecs.T)` pairs them with the eigenvalues -/
def mode1Pairs (eigvals : List K) (U : Mat K d d) : List (K × Vec K d) :=
  eigvals.zip U.transpose.toList

/-- `reduce(add, Ps)` for each key -/
def mode1Groups [Add K] [Mul K] [Zero K] [DecidableEq K] (eigvals : List K) (U : Mat K d d) :
    List (K × Mat K d d) :=
  (mode1Loop (mode1Pairs eigvals U) none []).map fun e =>
    (e.1, match e.2 with
          | [] => Mat.zero
          | p :: ps => ps.foldl Mat.add p)

/-- the POVM element that `to_povm` reads back from `hs_cb = Σ λ P ⊗ conj(P)`: `Σ λ Pᴴ P` (real: `Pᵀ P`) -/
def mode1Effect [Add K] [Mul K] [Zero K] [DecidableEq K] (eigvals : List K) (U : Mat K d d) : Mat K d d :=
  (mode1Groups eigvals U).foldl (fun acc e => acc.add (Mat.smul e.1 (e.2.transpose.mul e.2))) Mat.zero

/-- the action on a density matrix of the generated outcome map, `ρ ↦ Σ λ P ρ Pᴴ` (real case) -/
def mode1Apply [Add K] [Mul K] [Zero K] [DecidableEq K] (eigvals : List K) (U : Mat K d d) (rho : Mat K d d) :
    Mat K d d :=
  (mode1Groups eigvals U).foldl (fun acc e => acc.add (Mat.smul e.1 ((e.2.mul rho).mul e.2.transpose))) Mat.zero

/-- `U diag(λ) Uᵀ`: what `eigh` promises to equal the input (columns of `U` are the eigenvectors) -/
def eighRecon [Add K] [Mul K] [Zero K] (eigvals : Vec K d) (U : Mat K d d) : Mat K d d :=
  Mat.ofFn fun i j => fsum d fun k => U.get i k * eigvals.get k * U.get j k

end mode1

/-! ## the dispatch at the executed scalar type -/

inductive Err
  | type          -- TypeError: unsupported type combination
  | sys           -- ValueError: cannot compose different composite systems
  | size          -- MProcess: len(hss) != prod(shape)
  | nanDist       -- truncate_and_normalize divided by a zero sum (nan) -> constructor rejects
  | empty         -- ensemble without states (UnboundLocalError)
  | dist (e : QM.C16.Err)
deriving Repr, DecidableEq

def Err.toString : Err → String
  | .type => "type" | .sys => "sys" | .size => "size" | .nanDist => "nanDist" | .empty => "empty"
  | .dist e => e.toString

abbrev Dist := QM.C16.Dist

/-- the library's objects; `sys` identifies the composite system -/
inductive QOp (n : Nat)
  | state (sys : Nat) (v : Vec Rat n)
  | gate (sys : Nat) (hs : Mat Rat n n)
  | povm (sys : Nat) (nums : List Nat) (vecs : List (Vec Rat n))
  | mprocess (sys : Nat) (shape : List Nat) (eps : Rat) (hss : List (Mat Rat n n))
  | ensemble (sys : Nat) (states : List (Vec Rat n)) (d : Dist) (eps : Rat)
  | dist (d : Dist)

structure Cfg where
  sd : Rat      -- np.sqrt(dim)
  atol : Rat    -- Settings.get_atol()

/-- default `eps_zero` of MultinomialDistribution / StateEnsemble (1e-8) -/
def eps8 : Rat := QM.C16.epsValidate

def liftDist {α : Type} (r : Except QM.C16.Err α) : Except Err α :=
  match r with
  | .ok a => .ok a
  | .error e => .error (.dist e)

/-- `MProcess.__init__` size validation -/
def mkMProcess {n : Nat} (sys : Nat) (shape : List Nat) (eps : Rat) (hss : List (Mat Rat n n)) :
    Except Err (QOp n) :=
  if hss.length ≠ QM.C16.prod shape then .error .size else .ok (.mprocess sys shape eps hss)

/-- (Povm, State) branch: Born probabilities, `truncate_and_normalize`, distribution constructor -/
def povmState {n : Nat} (c : Cfg) (vecs : List (Vec Rat n)) (rho : Vec Rat n) : Except Err Dist :=
  match truncNorm c.atol (bornRaw vecs rho) with
  | none => .error .nanDist
  | some ps => liftDist (QM.C16.ctor ps [ps.length] eps8)

/-- `_compose_qoperations_MProcess_State` (mode_sampling = False) -/
def mpState {n : Nat} [NeZero n] (c : Cfg) (sys : Nat) (shape : List Nat) (eps : Rat)
    (hss : List (Mat Rat n n)) (rho : Vec Rat n) : Except Err (QOp n) := do
  let (states, ps) := forStates c.sd eps hss rho 1
  let d ← liftDist (QM.C16.ctor ps shape eps8)
  if states.length ≠ d.ps.length then throw .size
  return .ensemble sys states d eps

/-- `_compose_qoperations_MProcess_StateEnsemble` (mode_sampling = False) -/
def mpEnsemble {n : Nat} [NeZero n] (c : Cfg) (sys : Nat) (shape : List Nat) (eps : Rat)
    (hss : List (Mat Rat n n)) (states : List (Vec Rat n)) (d : Dist) (epsE : Rat) :
    Except Err (QOp n) := do
  let newShape := d.shape ++ shape
  -- zero distribution: `elem2.states[0].generate_zero_obj()` (IndexError without states)
  if d.isZero && states.isEmpty then throw .empty
  let (sts, ps) :=
    if d.isZero then
      let len := QM.C16.prod newShape
      (List.replicate len (Vec.zero : Vec Rat n), List.replicate len (0 : Rat))
    else
      let rs := (states.zip d.ps).map fun (s, p) => forStates c.sd eps hss s p
      (rs.flatMap (·.1), rs.flatMap (·.2))
  let d' ← liftDist (QM.C16.ctor ps newShape eps8)
  if sts.length ≠ d'.ps.length then throw .size
  return .ensemble sys sts d' (if eps ≤ epsE then epsE else eps)

/-- `_compose_qoperations_Povm_StateEnsemble` -/
def povmEnsemble {n : Nat} (c : Cfg) (psys : Nat) (nums : List Nat) (vecs : List (Vec Rat n))
    (esys : Nat) (states : List (Vec Rat n)) (d : Dist) (epsE : Rat) : Except Err Dist := do
  if states.isEmpty then throw .empty
  let blocks ← (states.zip d.ps).mapM fun (s, p) =>
    if p < epsE then pure (List.replicate vecs.length (0 : Rat))
    else do
      -- compose_qoperations(povm, state): composite systems are compared here
      if psys ≠ esys then throw Err.sys
      let pd ← povmState c vecs s
      pure (pd.ps.map fun x => p * x)
  liftDist (QM.C16.ctor blocks.flatten (d.shape ++ nums) eps8)

/-- the composite system of a non-ensemble object -/
def sysOf {n : Nat} : QOp n → Option Nat
  | .state s _ => some s | .gate s _ => some s | .povm s _ _ => some s | .mprocess s _ _ _ => some s
  | .ensemble .. => none | .dist _ => none

/-- `_compose_qoperations(elem1, elem2)` -/
def compose {n : Nat} [NeZero n] (c : Cfg) : QOp n → QOp n → Except Err (QOp n)
  -- the composite-system check is skipped when either operand is a StateEnsemble;
  -- a MultinomialDistribution has no composite_system (AttributeError) -> type error class
  | .gate s1 a, .gate s2 b => if s1 ≠ s2 then .error .sys else .ok (.gate s1 (a.mul b))
  -- the composites keep the measurement process's `eps_zero` (the larger one for M∘M, as M∘StateEnsemble does)
  | .gate s1 a, .mprocess s2 shape eps hss =>
      if s1 ≠ s2 then .error .sys else mkMProcess s1 shape eps (hss.map fun hs => a.mul hs)
  | .mprocess s1 shape eps hss, .gate s2 b =>
      if s1 ≠ s2 then .error .sys else mkMProcess s1 shape eps (hss.map fun hs => hs.mul b)
  | .mprocess s1 sh1 e1 hss1, .mprocess s2 sh2 e2 hss2 =>
      if s1 ≠ s2 then .error .sys
      else mkMProcess s1 (sh2 ++ sh1) (if e1 < e2 then e2 else e1) (mpMp hss1 hss2)
  | .gate s1 a, .state s2 v => if s1 ≠ s2 then .error .sys else .ok (.state s1 (a.mulVec v))
  | .gate s1 a, .ensemble s2 states d epsE =>
      -- per state: compose_qoperations(gate, state) (system check there); the ensemble keeps its eps_zero
      if s1 ≠ s2 ∧ ¬ states.isEmpty then .error .sys
      else .ok (.ensemble s2 (states.map fun v => a.mulVec v) d epsE)
  | .mprocess s1 shape eps hss, .state s2 v =>
      if s1 ≠ s2 then .error .sys else mpState c s1 shape eps hss v
  | .mprocess _ shape eps hss, .ensemble s2 states d epsE => mpEnsemble c s2 shape eps hss states d epsE
  | .povm s1 _ vecs, .gate s2 b =>
      if s1 ≠ s2 then .error .sys else .ok (.povm s1 [vecs.length] (povmGate vecs b))
  | .povm s1 _ vecs, .mprocess s2 _ _ hss =>
      if s1 ≠ s2 then .error .sys
      else .ok (.povm s1 [(povmMProcess vecs hss).length] (povmMProcess vecs hss))
  | .povm s1 _ vecs, .state s2 v =>
      if s1 ≠ s2 then .error .sys else (povmState c vecs v).map .dist
  | .povm s1 nums vecs, .ensemble s2 states d epsE =>
      (povmEnsemble c s1 nums vecs s2 states d epsE).map .dist
  | a, b =>
      -- the composite-system comparison precedes the type dispatch (skipped for ensembles)
      match sysOf a, sysOf b with
      | some s1, some s2 => if s1 ≠ s2 then .error .sys else .error .type
      | _, _ => .error .type

/-- `compose_qoperations(*elements)`: right-to-left fold (`none` = fewer than two elements). -/
def composeChain {n : Nat} [NeZero n] (c : Cfg) (l : List (QOp n)) : Option (Except Err (QOp n)) :=
  match l.reverse with
  | [] => none
  | [_] => none
  | last :: rest => some (rest.foldl (fun acc e => acc.bind fun t => compose c e t) (.ok last))

/-- a bracketing of a chain -/
inductive Tree (n : Nat)
  | leaf (x : QOp n)
  | node (l r : Tree n)

def Tree.eval {n : Nat} [NeZero n] (c : Cfg) : Tree n → Except Err (QOp n)
  | .leaf x => .ok x
  | .node l r => do
      let a ← l.eval c
      let b ← r.eval c
      compose c a b

def Tree.leaves {n : Nat} : Tree n → List (QOp n)
  | .leaf x => [x]
  | .node l r => l.leaves ++ r.leaves

/-! ## driver -/

def toVec? {α : Type} (l : List α) (n : Nat) : Option (Vector α n) :=
  if h : l.length = n then some ⟨l.toArray, by simp [h]⟩ else none

def chunks {α : Type} (k : Nat) : Nat → List α → List (List α)
  | 0, _ => []
  | m + 1, l => l.take k :: chunks k m (l.drop k)

def toVecs? {α : Type} (l : List α) (m n : Nat) : Option (List (Vector α n)) :=
  if l.length ≠ m * n then none else (chunks n m l).mapM fun c => toVec? c n

def toMat? {α : Type} (l : List α) (m n : Nat) : Option (Vector (Vector α n) m) := do
  let rows ← toVecs? l m n
  toVec? rows m

def toMats? {α : Type} (l : List α) (m n : Nat) : Option (List (Mat α n n)) :=
  if l.length ≠ m * (n * n) then none else (chunks (n * n) m l).mapM fun c => toMat? c n n

def showVec {n : Nat} (v : Vec Rat n) : String := showList showRat v.toList
def showVecs {n : Nat} (l : List (Vec Rat n)) : String := showList showRat (l.flatMap (·.toList))
def showMat {n : Nat} (A : Mat Rat n n) : String := showList showRat (A.toList.flatMap (·.toList))
def showMats {n : Nat} (l : List (Mat Rat n n)) : String :=
  showList showRat (l.flatMap fun A => A.toList.flatMap (·.toList))

def parseBool? (s : String) : Option Bool :=
  if s = "true" then some true else if s = "false" then some false else none

/-- one object per token, fields separated by `;` -/
def parseObj? (n : Nat) (s : String) : Option (QOp n) :=
  match s.splitOn ";" with
  | ["S", sys, v] => do
      let v ← toVec? (← parseList? parseRat? v) n
      some (.state (← parseNat? sys) v)
  | ["G", sys, hs] => do
      let hs ← toMat? (← parseList? parseRat? hs) n n
      some (.gate (← parseNat? sys) hs)
  | ["P", sys, nums, m, vs] => do
      let vs ← toVecs? (← parseList? parseRat? vs) (← parseNat? m) n
      some (.povm (← parseNat? sys) (← parseList? parseNat? nums) vs)
  | ["M", sys, shape, eps, m, hss] => do
      let hss ← toMats? (← parseList? parseRat? hss) (← parseNat? m) n
      some (.mprocess (← parseNat? sys) (← parseList? parseNat? shape) (← parseRat? eps) hss)
  | ["E", sys, shape, eps, ps, isZero, m, sts] => do
      let sts ← toVecs? (← parseList? parseRat? sts) (← parseNat? m) n
      let d : Dist := { ps := ← parseList? parseRat? ps, shape := ← parseList? parseNat? shape,
                        isZero := ← parseBool? isZero }
      some (.ensemble (← parseNat? sys) sts d (← parseRat? eps))
  | _ => none

def showDist (d : Dist) : String :=
  s!"{showList toString d.shape} {d.isZero} {showList showRat d.ps}"

def showObj {n : Nat} : QOp n → String
  | .state sys v => s!"S {sys} {showVec v}"
  | .gate sys hs => s!"G {sys} {showMat hs}"
  | .povm sys nums vecs => s!"P {sys} {showList toString nums} {vecs.length} {showVecs vecs}"
  | .mprocess sys shape eps hss =>
      s!"M {sys} {showList toString shape} {showRat eps} {hss.length} {showMats hss}"
  | .ensemble sys sts d eps => s!"E {sys} {showRat eps} {showDist d} {sts.length} {showVecs sts}"
  | .dist d => s!"D {showDist d}"

def showRes {n : Nat} (r : Except Err (QOp n)) : String :=
  match r with
  | .ok x => "ok " ++ showObj x
  | .error e => "err " ++ e.toString

/-- reverse-polish bracketing: a number pushes that object, `o` pops `b` then `a` and pushes `a∘b` -/
def rpn {n : Nat} [NeZero n] (c : Cfg) (objs : Array (QOp n)) :
    List String → List (Except Err (QOp n)) → Option (Except Err (QOp n))
  | [], [r] => some r
  | [], _ => none
  | "o" :: ts, b :: a :: st =>
      rpn c objs ts ((do let x ← a; let y ← b; compose c x y) :: st)
  | "o" :: _, _ => none
  | t :: ts, st => do
      let i ← parseNat? t
      let x ← objs[i]?
      rpn c objs ts (.ok x :: st)

def handleAt (n : Nat) [NeZero n] (c : Cfg) (args : List String) : Option String :=
  match args with
  | "tree" :: k :: rest => do
      let k ← parseNat? k
      if rest.length < k then none
      let objs ← (rest.take k).mapM (parseObj? n)
      let r ← rpn c objs.toArray (rest.drop k) []
      some (showRes r)
  | "chain" :: objs => do
      let objs ← objs.mapM (parseObj? n)
      match composeChain c objs with
      | none => some "err tooFew"
      | some r => some (showRes r)
  | ["topovm", m, hss] => do
      let hss ← toMats? (← parseList? parseRat? hss) (← parseNat? m) n
      some s!"ok {showVecs (toPovm c.sd hss)}"
  | ["gen2", m, st, vs] => do
      let st ← toVec? (← parseList? parseRat? st) n
      let vs ← toVecs? (← parseList? parseRat? vs) (← parseNat? m) n
      some s!"ok {showMats (genMode2 st vs)}"
  | ["gen2list", m, sts, vs] => do
      let m ← parseNat? m
      let sts ← toVecs? (← parseList? parseRat? sts) m n
      let vs ← toVecs? (← parseList? parseRat? vs) m n
      some s!"ok {showMats (genMode2List sts vs)}"
  | ["mode1", d, eigvals, u] => do
      let d ← parseNat? d
      let ev ← parseList? parseRat? eigvals
      let U ← toMat? (← parseList? parseRat? u) d d
      some s!"ok {showList showRat ((mode1Effect ev U).toList.flatMap (·.toList))}"
  | ["mode1apply", d, eigvals, u, rho] => do
      let d ← parseNat? d
      let ev ← parseList? parseRat? eigvals
      let U ← toMat? (← parseList? parseRat? u) d d
      let R ← toMat? (← parseList? parseRat? rho) d d
      some s!"ok {showList showRat ((mode1Apply ev U R).toList.flatMap (·.toList))}"
  | ["truncnorm", eps, ps] => do
      match truncNorm (← parseRat? eps) (← parseList? parseRat? ps) with
      | none => some "err nanDist"
      | some l => some s!"ok {showList showRat l}"
  | _ => none

/-- `<n> <sd> <atol> op args…` -/
def handle (args : List String) : Option String :=
  match args with
  | n :: sd :: atol :: rest => do
      let n ← parseNat? n
      let c : Cfg := { sd := ← parseRat? sd, atol := ← parseRat? atol }
      match n with
      | 0 => none
      | k + 1 => handleAt (k + 1) c rest
  | _ => none

end QM.C06
