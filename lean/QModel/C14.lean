import QModel.Core
import QGen.C14
/-!
# C14 — sampled data and empirical distributions (model of quara/qcircuit/data_generator.py,
quara/utils/number_util.py:to_stream and the seed plumbing of quara/qcircuit/experiment.py)

The model mirrors the code as it is:

* `randomNumberToData` = `_random_number_to_data`: the cumulative-sum loop with the strict test
  `random_number < cumulative_sum`; after a fall-through the backward loop returns the last outcome with `probdist[index] > 0`,
  and `len(probdist) - 1` (an `Int`: `-1` for an empty vector) if there is none;
* `calcEmpiDistSequence` = `calc_empi_dist_sequence`: one pass over the data, a running frequency vector, the
  requested sample sizes consumed one after the other, the validation errors in the order of the code; its tests and offsets are the generated `QGen.C14.empi*` (note: a
  first sample size `≤ 0` is never reached — the loop then validates all data and returns the empty list);
* `toStream` / `Store`: `None` → the global numpy state, `int` → a *fresh* generator seeded with it, generator →
  itself; the pseudo-random generator is abstract (`PRNG`: `seed`, `next` uniform, `multi` multinomial draw);
* `genData`, `genDataset`, `genEmpiSeq`, `genEmpisSeq` = the `generate_*` functions of data_generator.py as called
  by `Experiment.generate_data / generate_dataset / generate_empi_dist_sequence / generate_empi_dists_sequence`
  (which convert the argument with `to_stream` once and hand the stream on).
-/
namespace QM.C14

/-! ## `_random_number_to_data` -/

/-- the `for index, prob in enumerate(probdist)` loop from position `idx` with running sum `cum` -/
def r2dLoop : List Rat → Rat → Rat → Nat → Option Nat
  | [], _, _, _ => none
  | p :: ps, u, cum, idx => if QGen.C14.hit u (cum + p) then some idx else r2dLoop ps u (cum + p) (idx + 1)

/-- the backward loop `for index in range(len - 1, -1, -1): if probdist[index] > 0: return index`: the LAST position (from
`idx`) whose entry passes the generated test `fallKeep` -/
def lastKeep : List Rat → Nat → Option Nat
  | [], _ => none
  | p :: ps, idx =>
    match lastKeep ps (idx + 1) with
    | some j => some j
    | none => if QGen.C14.fallKeep p then some idx else none

/-- what is returned when the first loop falls through: the last outcome of positive probability, `len − 1` if there is none -/
def fallResult (probs : List Rat) : Int :=
  match lastKeep probs 0 with
  | some j => (j : Int)
  | none => QGen.C14.fallThrough (probs.length : Int)

/-- comparison, start value, backward test and final result are the generated ones (`QGen.C14`, regenerated from the source) -/
def randomNumberToData (probs : List Rat) (u : Rat) : Int :=
  match r2dLoop probs u QGen.C14.cumStart 0 with
  | some i => (i : Int)
  | none => fallResult probs

/-- the same loop with an arbitrary addition for the running sum: the code adds in IEEE double precision, which is not
the exact `+`; the theorems that transfer to the float code assume only `add c 0 = c` -/
def r2dLoopW (add : Rat → Rat → Rat) : List Rat → Rat → Rat → Nat → Option Nat
  | [], _, _, _ => none
  | p :: ps, u, cum, idx =>
    if QGen.C14.hit u (add cum p) then some idx else r2dLoopW add ps u (add cum p) (idx + 1)

/-- the loop driven by the running sums themselves (what the code actually compares the random number with) -/
def r2dCums : List Rat → Rat → Nat → Option Nat
  | [], _, _ => none
  | c :: cs, u, idx => if QGen.C14.hit u c then some idx else r2dCums cs u (idx + 1)

/-- `_random_number_to_data` given the running sums the code computed (floats, as exact rationals) -/
def randomNumberToDataCums (probs : List Rat) (cums : List Rat) (u : Rat) : Int :=
  match r2dCums cums u 0 with
  | some i => (i : Int)
  | none => fallResult probs

/-- `_random_number_to_data` with an arbitrary addition for the running sum -/
def randomNumberToDataW (add : Rat → Rat → Rat) (probs : List Rat) (u : Rat) : Int :=
  match r2dLoopW add probs u QGen.C14.cumStart 0 with
  | some i => (i : Int)
  | none => fallResult probs

/-- `generate_data_from_prob_dist` after the random numbers have been drawn -/
def dataOfUniforms (probs : List Rat) (us : List Rat) : List Int := us.map (randomNumberToData probs)

/-! ## `calc_empi_dist_sequence` -/

inductive EmpiErr
  | negativeMeasurementNum
  | numSumTooLarge (pos : Nat)     -- num_sums[pos] > len(data)
  | dataOutOfRange (index : Nat)   -- not 0 <= data[index] < measurement_num
  | notIncreasing (pos : Nat)      -- num_sums[pos-1] >= num_sums[pos]
deriving Repr, DecidableEq

def EmpiErr.toString : EmpiErr → String
  | .negativeMeasurementNum => "negativeMeasurementNum"
  | .numSumTooLarge p => s!"numSumTooLarge {p}"
  | .dataOutOfRange i => s!"dataOutOfRange {i}"
  | .notIncreasing p => s!"notIncreasing {p}"

/-- `cumulative_frequency[d] += 1` -/
def bump : List Nat → Nat → List Nat
  | [], _ => []
  | c :: cs, 0 => (c + 1) :: cs
  | c :: cs, d + 1 => c :: bump cs d

/-- the loop `for index, d in enumerate(data)`.
`next` = `next_num_sum`, `pos` = `next_num_sum_position`, `rest` = `num_sums[pos+1:]`, `acc` = `empi_dists` reversed. -/
def empiLoop (m : Nat) (lenData : Nat) :
    List Int → Nat → List Nat → Int → Nat → List Int → List (Int × List Rat) → Except EmpiErr (List (Int × List Rat))
  | [], _, _, _, _, _, acc => .ok acc.reverse
  | d :: ds, index, freq, next, pos, rest, acc =>
    if !QGen.C14.empiInRange d (m : Int) then .error (.dataOutOfRange index)
    else
      let freq' := bump freq d.toNat
      if QGen.C14.empiHit index next then
        let acc' := (next, freq'.map fun (c : Nat) => ((c : Int) : Rat) / (((QGen.C14.empiDiv index : Nat) : Int) : Rat)) :: acc
        match rest with
        | [] => .ok acc'.reverse
        | n2 :: rest' =>
          if QGen.C14.empiTooLarge n2 (lenData : Int) then .error (.numSumTooLarge (pos + 1))
          else if QGen.C14.empiNotIncreasing next n2 then .error (.notIncreasing (pos + 1))
          else empiLoop m lenData ds (index + 1) freq' n2 (pos + 1) rest' acc'
      else empiLoop m lenData ds (index + 1) freq' next pos rest acc

def calcEmpiDistSequence (measurementNum : Int) (data : List Int) (numSums : List Int) :
    Except EmpiErr (List (Int × List Rat)) :=
  if QGen.C14.empiNegative measurementNum then .error .negativeMeasurementNum
  else match numSums with
    | [] => .ok []
    | n0 :: rest =>
      if QGen.C14.empiTooLarge n0 (data.length : Int) then .error (.numSumTooLarge 0)
      else empiLoop measurementNum.toNat data.length data 0 (List.replicate measurementNum.toNat 0) n0 0 rest []

/-! ## streams -/

/-- abstract deterministic pseudo-random generator: `seed s` = `Generator(MT19937(s))`, `next` = one uniform,
`multi g n p` = `multinomial.rvs(n, p, random_state=g)` -/
structure PRNG (G : Type) where
  seed : Int → G
  next : G → Rat × G
  multi : G → Int → List Rat → List Int × G

/-- `stream.random(n)` -/
def drawN {G : Type} (P : PRNG G) : G → Nat → List Rat × G
  | g, 0 => ([], g)
  | g, n + 1 =>
    let (u, g1) := P.next g
    let (us, g2) := drawN P g1 n
    (u :: us, g2)

/-- the `seed_or_generator` argument -/
inductive SeedArg
  | none                -- use the global numpy state
  | int (s : Int)       -- fresh generator (Python `int`, `s ≥ 0`; MT19937 raises for negative seeds — not modelled)
  | gen (k : Nat)       -- the k-th generator object the caller holds
  | other               -- anything else that is not a Generator (np.int64, bool, float, …): handed on as it is
deriving Repr, DecidableEq

/-- the random state of the world: the global numpy state and the caller's generator objects -/
structure Store (G : Type) where
  glob : G
  gens : List G

/-- what `to_stream` returns -/
inductive Stream (G : Type)
  | glob
  | fresh (g : G)        -- a generator object nobody else holds
  | held (k : Nat)
  | invalid              -- not a stream at all (e.g. the int itself handed on): any use fails

/-- one branch of `to_stream`: action code (generated table: 0 global, 1 fresh MT19937 from the int, 2 the argument
itself) applied to the argument -/
def streamAct {G : Type} (P : PRNG G) (code : Nat) (a : SeedArg) : Stream G :=
  match code, a with
  | 0, _ => .glob
  | 1, .int s => .fresh (P.seed s)
  | 2, .gen k => .held k
  | _, _ => .invalid

/-- `to_stream`: the branch is chosen by the class of the argument, what it returns comes from the generated table -/
def toStream {G : Type} (P : PRNG G) (a : SeedArg) : Stream G :=
  match a with
  | .none => streamAct P QGen.C14.streamOfNone a
  | .int _ => streamAct P QGen.C14.streamOfInt a
  | .gen _ => streamAct P QGen.C14.streamOfOther a
  | .other => streamAct P QGen.C14.streamOfOther a

/-- read the generator state behind a stream (`none`: the caller passed a generator it does not hold) -/
def Stream.get {G : Type} (st : Store G) : Stream G → Option G
  | .glob => some st.glob
  | .fresh g => some g
  | .held k => st.gens[k]?
  | .invalid => none

/-- write the advanced state back; a fresh generator stays the same *object*, so later uses of the same stream see
the advanced state: the result stream carries it -/
def Stream.put {G : Type} (st : Store G) : Stream G → G → Store G × Stream G
  | .glob, g => ({ st with glob := g }, .glob)
  | .fresh _, g => (st, .fresh g)
  | .held k, g => ({ st with gens := st.gens.set k g }, .held k)
  | .invalid, _ => (st, .invalid)

/-- `generate_data_from_prob_dist(prob_dist, data_num, stream)` on an already converted stream -/
def genDataOn {G : Type} (P : PRNG G) (st : Store G) (s : Stream G) (probs : List Rat) (n : Nat) :
    Option (List Int × Store G × Stream G) :=
  match s.get st with
  | none => none
  | some g =>
    let (us, g') := drawN P g n
    let (st', s') := s.put st g'
    some (dataOfUniforms probs us, st', s')

/-- `Experiment.generate_data` / `generate_data_from_prob_dist` with a raw argument -/
def genData {G : Type} (P : PRNG G) (st : Store G) (a : SeedArg) (probs : List Rat) (n : Nat) :
    Option (List Int × Store G) :=
  (genDataOn P st (toStream P a) probs n).map fun r => (r.1, r.2.1)

/-! ### error branches of `generate_data_from_prob_dist` (in the order of the code) -/

inductive GenErr
  | negativeEntry (index : Nat)   -- validate_prob_dist: an entry below −eps (ValueError)
  | sumNotOne                     -- validate_prob_dist: |Σ − 1| > eps (ValueError)
  | negativeSeed                  -- to_stream: `MT19937(seed)` with a negative int (ValueError)
  | notAStream                    -- `stream.random` on something that is not a generator: np.int64, bool, float … (AttributeError)
  | noGenerator                   -- (model only) a generator handle the caller does not hold
deriving Repr, DecidableEq

def GenErr.toString : GenErr → String
  | .negativeEntry i => s!"negativeEntry {i}" | .sumNotOne => "sumNotOne" | .negativeSeed => "negativeSeed"
  | .notAStream => "notAStream" | .noGenerator => "noGenerator"

def rabs (q : Rat) : Rat := if q < 0 then -q else q

/-- first entry with `prob < 0 and not isclose(prob, 0, atol=eps, rtol=0)` -/
def firstNegative (eps : Rat) : List Rat → Nat → Option Nat
  | [], _ => none
  | p :: ps, idx => if p < 0 ∧ ¬ rabs p ≤ eps then some idx else firstNegative eps ps (idx + 1)

/-- `validate_prob_dist(prob_dist, eps=atol)` -/
def validateProb (probs : List Rat) (eps : Rat) : Except GenErr Unit :=
  match firstNegative eps probs 0 with
  | some i => .error (.negativeEntry i)
  | none => if rabs (probs.foldr (· + ·) 0 - 1) ≤ eps then .ok () else .error .sumNotOne

/-- `generate_data_from_prob_dist(prob_dist, data_num, seed_or_generator)` with its error branches, in the order of the code:
validation of the vector, `to_stream` (a negative int seed raises), `stream.random` (fails on a non-generator). Returns the
result AND the store after the call: on every error nothing has been drawn. -/
def genDataE {G : Type} (P : PRNG G) (st : Store G) (a : SeedArg) (probs : List Rat) (n : Nat) (eps : Rat) :
    Except GenErr (List Int) × Store G :=
  match validateProb probs eps with
  | .error e => (.error e, st)
  | .ok () =>
    match a with
    | .int s =>
      if s < 0 then (.error .negativeSeed, st)
      else match genData P st a probs n with
        | some (d, st') => (.ok d, st')
        | none => (.error .noGenerator, st)
    | .other => (.error .notAStream, st)
    | _ =>
      match genData P st a probs n with
      | some (d, st') => (.ok d, st')
      | none => (.error .noGenerator, st)

/-- `Experiment.generate_dataset`: `stream = to_stream(arg)`; `seeds_or_generators = [stream] * len`;
every schedule draws from the same stream object in order -/
def genDatasetOn {G : Type} (P : PRNG G) : Store G → Stream G → List (List Rat × Nat) →
    Option (List (List Int) × Store G × Stream G)
  | st, s, [] => some ([], st, s)
  | st, s, (probs, n) :: rest =>
    match genDataOn P st s probs n with
    | none => none
    | some (d, st', s') =>
      match genDatasetOn P st' s' rest with
      | none => none
      | some (ds, st'', s'') => some (d :: ds, st'', s'')

def genDataset {G : Type} (P : PRNG G) (st : Store G) (a : SeedArg) (jobs : List (List Rat × Nat)) :
    Option (List (List Int) × Store G) :=
  (genDatasetOn P st (toStream P a) jobs).map fun r => (r.1, r.2.1)

/-- `generate_dataset_from_prob_dists(prob_dists, data_nums, seeds_or_generators)` with a *list* of arguments: entry `i`
is `generate_data_from_prob_dist(prob_dists[i], data_nums[i], seeds_or_generators[i])`, evaluated in order (each int
gets its own fresh generator, generator objects and the global state advance from entry to entry) -/
def genDatasetArgs {G : Type} (P : PRNG G) : Store G → List (SeedArg × List Rat × Nat) → Option (List (List Int) × Store G)
  | st, [] => some ([], st)
  | st, (a, probs, n) :: rest =>
    match genData P st a probs n with
    | none => none
    | some (d, st') =>
      match genDatasetArgs P st' rest with
      | none => none
      | some (ds, st'') => some (d :: ds, st'')

/-- `generate_empi_dist_sequence_from_prob_dist` on a converted stream: one multinomial draw per sample size -/
def genEmpiSeqOn {G : Type} (P : PRNG G) : Store G → Stream G → List Rat → List Int →
    Option (List (Int × List Rat) × Store G × Stream G)
  | st, s, _, [] => some ([], st, s)
  | st, s, probs, n :: ns =>
    match s.get st with
    | none => none
    | some g =>
      let (counts, g') := P.multi g n probs
      let (st', s') := s.put st g'
      match genEmpiSeqOn P st' s' probs ns with
      | none => none
      | some (r, st'', s'') => some ((n, counts.map fun (c : Int) => (c : Rat) / (n : Rat)) :: r, st'', s'')

/-- `generate_empi_dists_sequence_from_prob_dists`: one stream for all distributions, in order -/
def genEmpisSeqOn {G : Type} (P : PRNG G) : Store G → Stream G → List (List Rat × List Int) →
    Option (List (List (Int × List Rat)) × Store G × Stream G)
  | st, s, [] => some ([], st, s)
  | st, s, (probs, ns) :: rest =>
    match genEmpiSeqOn P st s probs ns with
    | none => none
    | some (r, st', s') =>
      match genEmpisSeqOn P st' s' rest with
      | none => none
      | some (rs, st'', s'') => some (r :: rs, st'', s'')

def genEmpisSeq {G : Type} (P : PRNG G) (st : Store G) (a : SeedArg) (jobs : List (List Rat × List Int)) :
    Option (List (List (Int × List Rat)) × Store G) :=
  (genEmpisSeqOn P st (toStream P a) jobs).map fun r => (r.1, r.2.1)

/-- `Experiment.reset_seed_data(seed)`: reseeds the *global* numpy state (`np.random.seed`) unless `None` -/
def resetSeedData {G : Type} (reseedGlobal : Int → G) (st : Store G) : Option Int → Store G
  | none => st
  | some s => { st with glob := reseedGlobal s }

/-! ## `QTomography.reset_seed` / `Experiment.reset_seed_data` -/

/-- what a tomography object (through its Experiment) holds: the seed given at construction or at the last reset, and the world -/
structure TomoSeed (G : Type) where
  seedData : Option Int
  store : Store G

/-- `Experiment.reset_seed_data(seed_data)`: remember it and, unless `None`, re-seed numpy's global state -/
def expResetSeedData {G : Type} (reseed : Int → G) (t : TomoSeed G) (s : Option Int) : TomoSeed G :=
  { seedData := s, store := resetSeedData reseed t.store s }

/-- `QTomography.reset_seed(seed=None)`: `if seed is not None:` reset with it, else with the seed the Experiment holds
(`0` is a seed like any other - fix b42e0b1) -/
def tomoResetSeed {G : Type} (reseed : Int → G) (t : TomoSeed G) (arg : Option Int) : TomoSeed G :=
  match arg with
  | some s => expResetSeedData reseed t (some s)
  | none => expResetSeedData reseed t t.seedData

/-- a history of `reset_seed(arg)` calls and unseeded data generations (`n` data each); returns the data sets -/
def runResets {G : Type} (P : PRNG G) (reseed : Int → G) (probs : List Rat) :
    TomoSeed G → List (Option (Option Int) × Nat) → Option (List (List Int))
  | _, [] => some []
  | t, (some arg, _) :: rest => runResets P reseed probs (tomoResetSeed reseed t arg) rest
  | t, (none, n) :: rest =>
    match genData P t.store .none probs n with
    | none => none
    | some (d, st') =>
      match runResets P reseed probs { t with store := st' } rest with
      | none => none
      | some ds => some (d :: ds)

/-! ## driver: a *tape* PRNG makes the stream plumbing executable — the harness records what the real generator
produced (uniforms, multinomial count vectors, in order of consumption) and the model consumes the tape through the
same plumbing -/

structure Tape where
  us : List Rat
  ms : List (List Int)

def tapePRNG : PRNG Tape where
  seed := fun _ => ⟨[], []⟩
  next := fun t => match t.us with
    | [] => (0, t)                      -- the driver checks the tape length beforehand (`tape-short`)
    | u :: r => (u, { t with us := r })
  multi := fun t _ _ => match t.ms with
    | [] => ([], t)
    | c :: r => (c, { t with ms := r })

/-- a tape PRNG whose integer seeds are looked up in a table of recorded streams (driver utility) -/
def tablePRNG (tbl : List (Int × List Rat)) : PRNG Tape where
  seed := fun s => ⟨(tbl.lookup s).getD [], []⟩
  next := tapePRNG.next
  multi := tapePRNG.multi

def showEmpi (r : Except EmpiErr (List (Int × List Rat))) : String :=
  match r with
  | .error e => s!"err {e.toString}"
  | .ok l => if l.isEmpty then "ok ~" else
      "ok " ++ ";".intercalate (l.map fun (n, e) => s!"{n}:{showList showRat e}")

def handle (args : List String) : Option String :=
  match args with
  | ["r2d", probs, u] => do
      let probs ← parseList? parseRat? probs
      let u ← parseRat? u
      some (toString (randomNumberToData probs u))
  | ["r2dcs", probs, cums, u] => do
      -- the inversion on the running sums the implementation computed (floats as exact rationals)
      let probs ← parseList? parseRat? probs
      let cums ← parseList? parseRat? cums
      let u ← parseRat? u
      some (toString (randomNumberToDataCums probs cums u))
  | ["dsargs", glob, gens, seeds, jobs] => do
      -- generate_dataset_from_prob_dists with a LIST of seed arguments: executes genDatasetArgs → genData → toStream with the
      -- global state, held generator objects and fresh int-seeded generators, all on recorded tapes
      let glob ← parseList? parseRat? glob
      let gens ← if gens = "~" then some [] else (gens.splitOn "|").mapM (parseList? parseRat?)
      let seeds ← if seeds = "~" then some [] else (seeds.splitOn "|").mapM fun e => match e.splitOn "=" with
        | [k, t] => do some ((← parseInt? k), (← parseList? parseRat? t))
        | _ => none
      let jobs ← (jobs.splitOn "|").mapM fun j => match j.splitOn "@" with
        | [a, p, n] => do
            let arg ← if a = "N" then some SeedArg.none
                      else if a = "O" then some SeedArg.other
                      else if a.startsWith "I" then (String.ofList (a.toList.drop 1)).toInt?.map SeedArg.int
                      else if a.startsWith "G" then (String.ofList (a.toList.drop 1)).toNat?.map SeedArg.gen
                      else none
            some (arg, (← parseList? parseRat? p), (← parseNat? n))
        | _ => none
      match genDatasetArgs (tablePRNG seeds) ⟨⟨glob, []⟩, gens.map fun t => ⟨t, []⟩⟩ jobs with
      | none => some "no-generator"
      | some (ds, st) =>
        some s!"{"|".intercalate (ds.map (showList toString))} left={st.glob.us.length},{showList toString (st.gens.map (·.us.length))}"
  | ["gde", eps, arg, tape, probs, n] => do
      -- generate_data_from_prob_dist with its error branches; one tape serves whichever stream the argument selects
      let eps ← parseRat? eps
      let tape ← parseList? parseRat? tape
      let probs ← parseList? parseRat? probs
      let n ← parseNat? n
      let a ← if arg = "N" then some SeedArg.none
              else if arg = "O" then some SeedArg.other
              else if arg = "G" then some (SeedArg.gen 0)
              else if arg.startsWith "I" then (String.ofList (arg.toList.drop 1)).toInt?.map SeedArg.int
              else none
      let seeds : List (Int × List Rat) := match a with | .int s => [(s, tape)] | _ => []
      let (r, st) := genDataE (tablePRNG seeds) ⟨⟨tape, []⟩, [⟨tape, []⟩]⟩ a probs n eps
      let drawn := match a with
        | .none => tape.length - st.glob.us.length
        | .gen _ => tape.length - ((st.gens.map fun (t : Tape) => t.us.length).headD 0)
        | _ => 0
      match r with
      | .ok d => some s!"ok {showList toString d} drawn={drawn}"
      | .error e => some s!"err {e.toString} drawn={drawn}"
  | ["rseed", held, seeds, glob, probs, acts] => do
      -- reset_seed history: held seed (`N` or int), seed tapes `s=tape|…`, initial global tape, probs, actions
      -- `R<int>` = reset_seed(int), `RN` = reset_seed(), `D<n>` = unseeded generation of n data
      let held ← if held = "N" then some none else held.toInt?.map some
      let seeds ← if seeds = "~" then some [] else (seeds.splitOn "|").mapM fun e => match e.splitOn "=" with
        | [k, t] => do some ((← parseInt? k), (← parseList? parseRat? t))
        | _ => none
      let glob ← parseList? parseRat? glob
      let probs ← parseList? parseRat? probs
      let acts ← (acts.splitOn ",").mapM fun a =>
        if a = "RN" then some (some (none : Option Int), 0)
        else if a.startsWith "R" then (String.ofList (a.toList.drop 1)).toInt?.map fun s => (some (some s), 0)
        else if a.startsWith "D" then (String.ofList (a.toList.drop 1)).toNat?.map fun n => (none, n)
        else none
      let reseed : Int → Tape := fun s => ⟨(seeds.lookup s).getD [], []⟩
      match runResets tapePRNG reseed probs ⟨held, ⟨⟨glob, []⟩, []⟩⟩ acts with
      | none => some "no-generator"
      | some ds => some ("|".intercalate (ds.map (showList toString)))
  | ["data", probs, us] => do
      let probs ← parseList? parseRat? probs
      let us ← parseList? parseRat? us
      some (showList toString (dataOfUniforms probs us))
  | ["pipe", probs, us, ns] => do
      -- generate_data_from_prob_dist (uniforms given) followed by calc_empi_dist_sequence(len(probs), data, ns)
      let probs ← parseList? parseRat? probs
      let us ← parseList? parseRat? us
      let ns ← parseList? parseInt? ns
      some (showEmpi (calcEmpiDistSequence probs.length (dataOfUniforms probs us) ns))
  | ["empi", m, data, ns] => do
      let m ← parseInt? m
      let data ← parseList? parseInt? data
      let ns ← parseList? parseInt? ns
      some (showEmpi (calcEmpiDistSequence m data ns))
  | ["dataset", tape, jobs] => do
      -- jobs: `probs@n` joined by `|`; the shared stream is a fresh generator whose output is `tape`
      let tape ← parseList? parseRat? tape
      let jobs ← (jobs.splitOn "|").mapM fun j => match j.splitOn "@" with
        | [p, n] => do
            let p ← parseList? parseRat? p
            let n ← parseNat? n
            some (p, n)
        | _ => none
      if tape.length < (jobs.map (·.2)).foldl (· + ·) 0 then some "tape-short"
      else match genDatasetOn tapePRNG ⟨⟨[], []⟩, []⟩ (.fresh ⟨tape, []⟩) jobs with
        | none => some "no-generator"
        | some (ds, _, s) =>
          let left := match s with | .fresh t => t.us.length | _ => 0
          some s!"{"|".intercalate (ds.map (showList toString))} left={left}"
  | ["empis", tape, jobs] => do
      -- tape: count vectors joined by `|`; jobs: `probs@n1,n2,..` joined by `|`
      let tape ← (tape.splitOn "|").mapM (parseList? parseInt?)
      let jobs ← (jobs.splitOn "|").mapM fun j => match j.splitOn "@" with
        | [p, ns] => do
            let p ← parseList? parseRat? p
            let ns ← parseList? parseInt? ns
            some (p, ns)
        | _ => none
      if tape.length < (jobs.map (·.2.length)).foldl (· + ·) 0 then some "tape-short"
      else match genEmpisSeqOn tapePRNG ⟨⟨[], []⟩, []⟩ (.fresh ⟨[], tape⟩) jobs with
        | none => some "no-generator"
        | some (rs, _, _) =>
          some ("|".intercalate (rs.map fun r => showEmpi (.ok r)))
  | _ => none

end QM.C14
