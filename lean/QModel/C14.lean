import QModel.Core
/-! C14 — model (not built yet) -/
namespace QM.C14
def handle (_args : List String) : Option String := none
end QM.C14
