import QModel.Core
/-!
# C10 — constrained estimators (model)

Mirrors, as they are:
* `ProjectedGradientDescent.set_constraint_from_standard_qt_and_option` (projected_gradient_descent.py:165-222): which
  projection is installed for which flag combination, including the early return when a projection is already installed
  and the fact that `QOperation.func_calc_proj_physical_with_var` ignores its `mode_proj_order` argument;
* `ProjectedLinearEstimator.calc_estimate_sequence` (projected_linear_estimator.py:66-106): linear estimate,
  `set_mode_proj_order`, `calc_proj_physical`, `to_var`, element by element;
* `QOperation.calc_proj_physical(_with_var)` (qoperation.py:691-827, 958-1112): Dykstra sweeps with the
  Birgin–Raydan-2 stopping value, the `k >= 1` guard and the iteration limit;
* one iteration and the whole loop of `ProjectedGradientDescentBacktracking.optimize`
  (projected_gradient_descent_backtracking.py:229-356), `ProjectedGradientDescentWithMomentum.optimize`
  (…with_momentum.py:232-330) and `ProjectedFastIterativeShrinkageThresholdingAlgorithm.optimize` (…algorithm.py:196-290).

Everything numeric is generic: `K` scalars, `V` vectors (any types with the core classes used), the loss value `f`, its
gradient `grad`, the Euclidean `dot`, `sqrt`, and the projection `proj` are parameters.  The driver instantiates
`K = Rat`, `V = Vec Rat n`, the identity-weight squared-error loss `f x = ‖A x + c‖²`; the theorems instantiate real
vector / inner-product spaces.
-/
namespace QM.C10

/-! ## constraint selection table -/

inductive Order | eqIneq | ineqEq
deriving Repr, DecidableEq

def Order.toString : Order → String
  | .eqIneq => "eq_ineq" | .ineqEq => "ineq_eq"

/-- the closure stored in `ProjectedGradientDescent._func_proj`, by what it computes -/
inductive ProjSel
  /-- `setting_info.calc_proj_physical_with_var(var, on_para_eq_constraint, max_iteration)` run with the order `order` -/
  | physical (onPara : Bool) (order : Order) (maxIter : Option Nat)
  /-- `calc_proj_eq_constraint_with_var(c_sys, var, on_para_eq_constraint)` -/
  | eqOnly (onPara : Bool)
  /-- `calc_proj_ineq_constraint_with_var(c_sys, var, on_para_eq_constraint, eps_truncate_imaginary_part)` -/
  | ineqOnly (onPara : Bool)
  /-- `func_proj.proj_to_self()` -/
  | toSelf
deriving Repr, DecidableEq

/-- what the algorithm reads from `qt.generate_empty_estimation_obj_with_setting_info()` -/
structure SettingInfo where
  onPara : Bool
  order : Order
deriving Repr, DecidableEq

/-- the fields of `ProjectedGradientDescentOption` read by the selection -/
structure AlgoOpt where
  onAlgoEq : Bool
  onAlgoIneq : Bool
  order : Order
  maxIterProj : Option Nat
deriving Repr, DecidableEq

/-- `QOperation.func_calc_proj_physical_with_var(on_para_eq_constraint, mode_proj_order, max_iteration)`
(qoperation.py:1114-1131).  The closure calls `self.calc_proj_physical_with_var(var, on_para_eq_constraint, max_iteration)`,
which reads `self.mode_proj_order`; the `mode_proj_order` *argument* is not used. -/
def funcCalcProjPhysicalWithVar (self : SettingInfo) (onPara : Bool) (_modeProjOrder : Order)
    (maxIter : Option Nat) : ProjSel :=
  .physical onPara self.order maxIter

/-- `set_constraint_from_standard_qt_and_option`: `cur` is `self._func_proj` before the call, the result is
`self._func_proj` after it. -/
def setConstraint (cur : Option ProjSel) (si : SettingInfo) (opt : AlgoOpt) : ProjSel :=
  match cur with
  | some p => p                       -- `if self._func_proj is not None: return`
  | none =>
    if opt.onAlgoEq == true && opt.onAlgoIneq == true then
      funcCalcProjPhysicalWithVar si si.onPara opt.order opt.maxIterProj
    else if opt.onAlgoEq == true && opt.onAlgoIneq == false then .eqOnly si.onPara
    else if opt.onAlgoEq == false && opt.onAlgoIneq == true then .ineqOnly si.onPara
    else .toSelf

/-- name of the factory method of the source whose result the selection installs -/
def ProjSel.factoryName : ProjSel → String
  | .physical _ _ _ => "func_calc_proj_physical_with_var"
  | .eqOnly _ => "func_calc_proj_eq_constraint_with_var"
  | .ineqOnly _ => "func_calc_proj_ineq_constraint_with_var"
  | .toSelf => "proj_to_self"

/-- the source expressions that the three arguments of `funcCalcProjPhysicalWithVar` in `setConstraint` stand for
(`si.onPara`, `opt.order`, `opt.maxIterProj`) -/
def physicalArgSources : List String :=
  ["setting_info.on_para_eq_constraint", "option.mode_proj_order", "option.max_iteration_proj_physical"]

/-- the keywords the closure of `funcCalcProjPhysicalWithVar` forwards to `calc_proj_physical_with_var`: the parametrisation flag
and the iteration limit — not the projection order -/
def closureForwards : List String := ["on_para_eq_constraint", "max_iteration"]

def ProjSel.toString : ProjSel → String
  | .physical p o m => s!"physical {p} {o.toString} {match m with | some k => ToString.toString k | none => "none"}"
  | .eqOnly p => s!"eq {p}"
  | .ineqOnly p => s!"ineq {p}"
  | .toSelf => "self"

/-! ## projected linear estimator -/

/-- `ProjectedLinearEstimator.calc_estimate_sequence`: `linear` is `LinearEstimator.calc_estimate_sequence` followed by
`estimated_qoperation_sequence` (one object per data set), `setOrder` is `set_mode_proj_order`, `projPhysical` is
`calc_proj_physical()` (default `max_iteration`), `toVar` is `to_var`. -/
def pleSequence {D O W : Type} (linear : List D → List O) (setOrder : Order → O → O) (projPhysical : O → O)
    (toVar : O → W) (order : Order) (seq : List D) : List W :=
  (linear seq).map fun o => toVar (projPhysical (setOrder order o))

/-! ## loss-minimisation estimator: the glue around `optimize` (loss_minimization_estimator.py:168-227) -/

/-- the four `ValueError`s of the validation block, in source order -/
inductive EstErr
  | lossOption        -- loss.is_option_sufficient() == False
  | algoLoss          -- algo.is_loss_sufficient() == False
  | algoOption        -- algo.is_option_sufficient() == False
  | algoLossOption    -- algo.is_loss_and_option_sufficient() == False
deriving Repr, DecidableEq

/-- the validation call whose `False` raises each error -/
def EstErr.sourceCall : EstErr → String
  | .lossOption => "loss.is_option_sufficient" | .algoLoss => "algo.is_loss_sufficient"
  | .algoOption => "algo.is_option_sufficient" | .algoLossOption => "algo.is_loss_and_option_sufficient"

/-- source text of the glue that `lmeLoop` / `pleSequence` transcribe (keys of `QGen.C10`) -/
def lmeSetupCalls : List String := ["loss.set_from_standard_qtomography_option_data", "algo.set_from_option",
  "algo.set_constraint_from_standard_qt_and_option", "algo.set_from_loss"]
def lmeOptimizeCall : String :=
  "algo.optimize(loss, loss_option, algo_option, on_iteration_history=is_computation_time_required)"
def pleLoopCalls : List String := ["linear_estimate.set_mode_proj_order(self.mode_proj_order)",
  "linear_estimate.calc_proj_physical(is_iteration_history=is_computation_time_required)"]

def EstErr.toString : EstErr → String
  | .lossOption => "lossOption" | .algoLoss => "algoLoss" | .algoOption => "algoOption" | .algoLossOption => "algoLossOption"

/-- results of the four validation calls for one data set -/
structure Checks where
  lossOptionOk : Bool
  algoLossOk : Bool
  algoOptionOk : Bool
  algoLossOptionOk : Bool

/-- `for empi_dists in empi_dists_sequence`: configure the loss, `algo.set_from_option`, `algo.set_constraint_from_standard_qt_and_option`
(the algorithm object carries `_func_proj` from one data set to the next: `cur`), `algo.set_from_loss`, validate,
`algo.optimize(loss, loss_option, algo_option, on_iteration_history=is_computation_time_required)`, append `algo_result.value`.
`ws`, `rs` accumulate in append order. -/
def lmeLoop {D R W : Type} (si : SettingInfo) (opt : AlgoOpt) (checks : D → Checks) (optimize : ProjSel → D → Bool → R)
    (value : R → W) (timeReq : Bool) : List D → Option ProjSel → List W → List R → Except EstErr (List W × List R × Option ProjSel)
  | [], cur, ws, rs => .ok (ws, rs, cur)
  | d :: ds, cur, ws, rs =>
    let sel := setConstraint cur si opt
    let c := checks d
    if c.lossOptionOk == false then .error .lossOption
    else if c.algoLossOk == false then .error .algoLoss
    else if c.algoOptionOk == false then .error .algoOption
    else if c.algoLossOptionOk == false then .error .algoLossOption
    else
      let r := optimize sel d timeReq
      lmeLoop si opt checks optimize value timeReq ds (some sel) (ws ++ [value r]) (rs ++ [r])

/-- `LossMinimizationEstimationResult`: `estimated_var_sequence`; the runs whose `computation_time` is read (present iff
`is_computation_time_required`); `detailed_results` (present iff `is_detailed_results_required`) -/
structure LmeResult (W R : Type) where
  vars : List W
  timed : Option (List R)
  detailed : Option (List R)

def lmeSequence {D R W : Type} (si : SettingInfo) (opt : AlgoOpt) (checks : D → Checks) (optimize : ProjSel → D → Bool → R)
    (value : R → W) (timeReq detReq : Bool) (cur : Option ProjSel) (seq : List D) : Except EstErr (LmeResult W R) :=
  match lmeLoop si opt checks optimize value timeReq seq cur [] [] with
  | .error e => .error e
  | .ok (ws, rs, _) => .ok ⟨ws, if timeReq then some rs else none, if detReq then some rs else none⟩

/-- `estimated_var` = `estimated_var_sequence[0]` (`none` = IndexError), `estimated_qoperation_sequence` = `generate_from_var` of
each element -/
def LmeResult.estimatedVar {W R : Type} (r : LmeResult W R) : Option W := r.vars.head?
def LmeResult.estimatedQoperationSequence {W R O : Type} (gen : W → O) (r : LmeResult W R) : List O := r.vars.map gen

/-! ## physical projection: Dykstra sweeps with the Birgin–Raydan-2 stopping value -/

section dykstra
variable {K V : Type} [Add V] [Sub V] [Add K] [LT K] [DecidableLT K]

structure DykState (V : Type) where
  x : V
  p : V
  q : V
  /-- `y_next` of the sweep that produced this state -/
  y : V

/-- one pass of the loop body; `P1` is the projection applied first (equality constraint for `eq_ineq`) -/
def dykSweep (P1 P2 : V → V) (s : DykState V) : DykState V :=
  let y := P1 (s.x + s.p)
  let p' := s.x + s.p - y
  let x' := P2 (y + s.q)
  let q' := y + s.q - x'
  ⟨x', p', q', y⟩

/-- `_calc_stopping_criterion_birgin_raydan2_vectors`: `np.sum((p_prev - p_next)**2 + (q_prev - q_next)**2)` -/
def brValue (normSq : V → K) (s s' : DykState V) : K := normSq (s.p - s'.p) + normSq (s.q - s'.q)

/-- `for k in range(max_iteration)`: sweep; `if k >= 1`: stop when the value is `< eps`.  `fuel` = iterations left.
Returns the state after the last executed sweep and whether the stopping criterion (rather than the limit) ended it. -/
def dykLoop (P1 P2 : V → V) (normSq : V → K) (eps : K) : Nat → Nat → DykState V → DykState V × Bool
  | 0, _, s => (s, false)
  | fuel + 1, k, s =>
    let s' := dykSweep P1 P2 s
    if 1 ≤ k ∧ brValue normSq s s' < eps then (s', true) else
      match fuel with
      | 0 => (s', false)
      | _ => dykLoop P1 P2 normSq eps fuel (k + 1) s'

/-- `calc_proj_physical_with_var` on stacked vectors (the conversions var ↔ stacked vector around it are not part of this
function): `none` when `max_iteration = 0` (Python: the loop body never runs and the later read of `k` raises
`UnboundLocalError`).
`projEq`, `projIneq` are the two constraint projections, `order` decides which is applied first. -/
def projPhysical (projEq projIneq : V → V) (order : Order) (normSq : V → K) (eps : K) (maxIter : Nat) (zero : V)
    (x0 : V) : Option (V × Bool) :=
  if maxIter = 0 then none else
    let (P1, P2) := match order with
      | .eqIneq => (projEq, projIneq)
      | .ineqEq => (projIneq, projEq)
    let r := dykLoop P1 P2 normSq eps maxIter 0 ⟨x0, zero, zero, x0⟩
    some (r.1.x, r.2)
end dykstra

/-! ## projected-gradient algorithms -/

inductive StopMode
  | singleDiffLoss | sumAbsDiffLoss | sumAbsDiffVar | sumAbsDiffProjGrad
deriving Repr, DecidableEq

def StopMode.ofString? : String → Option StopMode
  | "single_difference_loss" => some .singleDiffLoss
  | "sum_absolute_difference_loss" => some .sumAbsDiffLoss
  | "sum_absolute_difference_variable" => some .sumAbsDiffVar
  | "sum_absolute_difference_projected_gradient" => some .sumAbsDiffProjGrad
  | _ => none

/-- the source expression whose value `errorValue` computes in each mode; `pg` names the vector whose norm the fourth mode takes
(`y_prev` in the backtracking algorithm, `x_next` in the momentum and FISTA algorithms) -/
def StopMode.errExpr (pg : String) : StopMode → String
  | .singleDiffLoss => "loss_function.value(x_prev) - loss_function.value(x_next)"
  | .sumAbsDiffLoss => "np.abs(loss_function.value(x_prev) - loss_function.value(x_next))"
  | .sumAbsDiffVar => "np.sqrt(np.sum((x_prev - x_next) ** 2))"
  | .sumAbsDiffProjGrad => "np.sqrt(np.sum(" ++ pg ++ " ** 2))"

def StopMode.all : List StopMode := [.singleDiffLoss, .sumAbsDiffLoss, .sumAbsDiffVar, .sumAbsDiffProjGrad]

/-- the source formulas that `pgdbDir`, `pgdbStep`, `isDoingForAlpha`, the start point, `pgdmStep`, `fistaStep`, `windowSum`
transcribe, keyed as in the generated table `QGen.C10.updateExprs` -/
def updateExprs : List (String × String) := [
  ("pgdb.y_prev", "self.func_proj(x_prev - loss_function.gradient(x_prev) / mu) - x_prev"),
  ("pgdb.x_next", "x_prev + alpha * y_prev"),
  ("pgdb.armijo.left", "loss_function.value(x_prev + alpha * y_prev)"),
  ("pgdb.armijo.right", "loss_function.value(x_prev) + gamma * alpha * np.dot(y_prev, loss_function.gradient(x_prev))"),
  ("pgdb.start", "self._qt.generate_empty_estimation_obj_with_setting_info().generate_origin_obj().to_var()"),
  ("pgdm.moment_next", "zeta * moment_prev - gamma * loss_function.gradient(x_prev)"),
  ("pgdm.x_next", "self.func_proj(x_prev + moment_next)"),
  ("pgdm.zeta", "1 - (1 - zeta) * 0.95"),
  ("pgdm.magnitude", "np.ceil(np.log10(loss_function.value(x_prev)))"),
  ("fista.tmp", "x_prev + (k - 2) / (k + 1) * (x_prev - x_prev_prev) - delta * loss_function.gradient(x_prev)"),
  ("fista.x_next", "self.func_proj(tmp)"),
  ("sum_range", "min(len(error_values), algorithm_option.num_history_stopping_criterion_gradient_descent)"),
  ("window", "np.sum(error_values[-sum_range:])")]

section optionChecks
variable {K : Type} [Zero K] [LT K] [DecidableLT K] [LE K] [DecidableLE K]

/-- `ProjectedGradientDescentBacktracking.is_option_sufficient` (option object present?, `mu`, `gamma`, `eps`; `none` = `None`) -/
def pgdbOptionSufficient (hasOption : Bool) (mu gamma eps : Option K) : Bool :=
  if !hasOption then false
  else if (match mu with | some m => decide (m ≤ 0) | none => false) then false
  else if (match gamma with | some g => decide (g ≤ 0) | none => true) then false
  else if (match eps with | some e => decide (e ≤ 0) | none => true) then false
  else true

/-- `…WithMomentum.is_option_sufficient` (`r`, `eps`) and the FISTA variant (`delta`, `eps`) have the same shape -/
def stepOptionSufficient (hasOption : Bool) (stepPar eps : Option K) : Bool :=
  if !hasOption then false
  else if (match stepPar with | some m => decide (m ≤ 0) | none => false) then false
  else if (match eps with | some e => decide (e ≤ 0) | none => true) then false
  else true

/-- the rejecting conditions as written in the source, in order -/
def insufficientPgdb : List String := ["self.option is None", "self.option.mu is not None and self.option.mu <= 0",
  "self.option.gamma is None or self.option.gamma <= 0", "self.option.eps is None or self.option.eps <= 0"]
def insufficientStep (par : String) : List String := ["self.option is None",
  "self.option." ++ par ++ " is not None and self.option." ++ par ++ " <= 0", "self.option.eps is None or self.option.eps <= 0"]

end optionChecks

/-- `ProjectedGradientDescentOption.__init__`: `if eps is None: eps = Settings.get_atol() / 10.0` -/
def resolveEps {K : Type} [Div K] (eps : Option K) (atol ten : K) : K :=
  match eps with
  | some e => e
  | none => atol / ten

section pgd
variable {K V : Type} [Add V] [Sub V] [SMul K V]
  [Add K] [Sub K] [Mul K] [Div K] [Neg K] [Zero K] [One K] [LT K] [DecidableLT K]

/-- `error_value` of one iteration.  `pgVec` is the vector whose norm the fourth mode takes: `y_prev` in the backtracking
algorithm, `x_next` (sic) in the momentum and FISTA algorithms. -/
def errorValue (mode : StopMode) (f : V → K) (sqrt : K → K) (normSq : V → K) (xPrev xNext pgVec : V) : K :=
  match mode with
  | .singleDiffLoss => f xPrev - f xNext
  | .sumAbsDiffLoss => let d := f xPrev - f xNext; if d < 0 then -d else d
  | .sumAbsDiffVar => sqrt (normSq (xPrev - xNext))
  | .sumAbsDiffProjGrad => sqrt (normSq pgVec)

/-- `np.sum(error_values[-sum_range:])`, `sum_range = min(len(error_values), num_history)`; `errs` in append order -/
def windowSum (errs : List K) (numHist : Nat) : K :=
  lsum (errs.drop (errs.length - min errs.length numHist))

/-- `is_doing = True if value > eps else False` -/
def isDoing (errs : List K) (numHist : Nat) (eps : K) : Bool := eps < windowSum errs numHist

/-! ### backtracking -/

/-- `y_prev = func_proj(x_prev - gradient(x_prev) / mu) - x_prev` -/
def pgdbDir (proj grad : V → V) (mu : K) (x : V) : V := proj (x - (1 / mu) • grad x) - x

/-- `_is_doing_for_alpha`: `value(x + alpha*y) > value(x) + gamma*alpha*dot(y, gradient(x))` -/
def isDoingForAlpha (f : V → K) (grad : V → V) (dot : V → V → K) (x y : V) (alpha gamma : K) : Bool :=
  f x + gamma * alpha * dot y (grad x) < f (x + alpha • y)

/-- `alpha = 1.0; while _is_doing_for_alpha(...): alpha = 0.5 * alpha`, from the current `alpha` with `fuel` loop tests
left; `none` = the loop did not end within `fuel` tests. -/
def backtrack (f : V → K) (grad : V → V) (dot : V → V → K) (x y : V) (gamma : K) : Nat → K → Option K
  | 0, _ => none
  | fuel + 1, alpha =>
    if isDoingForAlpha f grad dot x y alpha gamma then backtrack f grad dot x y gamma fuel ((1 / (1 + 1)) * alpha)
    else some alpha

/-- data of one iteration of the backtracking algorithm -/
structure PgdbIter (K V : Type) where
  y : V
  alpha : K
  xNext : V
  err : K

/-- the loop body up to `error_values.append(error_value)` -/
def pgdbStep (proj : V → V) (f : V → K) (grad : V → V) (dot : V → V → K) (sqrt : K → K) (mu gamma : K)
    (mode : StopMode) (btFuel : Nat) (x : V) : Option (PgdbIter K V) :=
  let y := pgdbDir proj grad mu x
  match backtrack f grad dot x y gamma btFuel 1 with
  | none => none
  | some alpha =>
    let xNext := x + alpha • y
    some ⟨y, alpha, xNext, errorValue mode f sqrt (fun v => dot v v) x xNext y⟩

/-- `for k in range(1, max_iteration + 1)`: `fuel` iterations left, `x` the current point (`x_prev` after the shift),
`errs` the error values so far, `xs` the points visited so far (most recent first).  Returns all points visited, most
recent first (head = the returned `x_next`), and the error values; `none` when a line search did not end. -/
def pgdbLoop (proj : V → V) (f : V → K) (grad : V → V) (dot : V → V → K) (sqrt : K → K) (mu gamma eps : K)
    (mode : StopMode) (numHist btFuel : Nat) : Nat → V → List K → List V → Option (List V × List K)
  | 0, _, errs, xs => some (xs, errs)
  | fuel + 1, x, errs, xs =>
    match pgdbStep proj f grad dot sqrt mu gamma mode btFuel x with
    | none => none
    | some it =>
      let errs' := errs ++ [it.err]
      if isDoing errs' numHist eps then
        pgdbLoop proj f grad dot sqrt mu gamma eps mode numHist btFuel fuel it.xNext errs' (it.xNext :: xs)
      else some (it.xNext :: xs, errs')

/-- `optimize`: start point, loop, returned value.  `none` models (a) a line search that does not end within `btFuel` tests in
exact arithmetic — the float loop always ends, at the latest when `alpha` underflows to `0.0`, and then returns `x_next = x_prev`;
the harness counts such steps — and (b) `max_iteration = 0` (Python: `UnboundLocalError` on `k` after the empty loop).
`mu` is the resolved value (`option.mu` if truthy, else `3/(2√n)`; a falsy `mu = 0.0` selects the default, the model's
`1 / mu` is never evaluated at `0` by the code).  `numHist ≥ 1` is enforced by the option constructor; at `0` Python's
`error_values[-0:]` would be the whole list while `windowSum` gives the empty sum. -/
def pgdbOptimize (proj : V → V) (f : V → K) (grad : V → V) (dot : V → V → K) (sqrt : K → K) (mu gamma eps : K)
    (mode : StopMode) (numHist btFuel maxIter : Nat) (xStart : V) : Option (V × List V × List K) :=
  match pgdbLoop proj f grad dot sqrt mu gamma eps mode numHist btFuel maxIter xStart [] [xStart] with
  | some (x :: xs, errs) => if maxIter = 0 then none else some (x, x :: xs, errs)
  | _ => none

/-! ### momentum -/

structure PgdmState (K V : Type) where
  x : V
  moment : V
  zeta : K
  magPrev : Int

/-- loop body of the momentum algorithm. `mag x` is `np.ceil(np.log10(loss.value(x)))`, `c95` the literal `0.95` -/
def pgdmStep (proj grad : V → V) (mag : V → Int) (gamma c95 : K) (s : PgdmState K V) : PgdmState K V :=
  let magNext := mag s.x
  let zeta := if magNext < s.magPrev then 1 - (1 - s.zeta) * c95 else s.zeta
  let magPrev := if magNext < s.magPrev then magNext else s.magPrev
  let m := zeta • s.moment - gamma • grad s.x
  ⟨proj (s.x + m), m, zeta, magPrev⟩

def pgdmLoop (proj : V → V) (f : V → K) (grad : V → V) (dot : V → V → K) (sqrt : K → K) (mag : V → Int)
    (gamma c95 eps : K) (mode : StopMode) (numHist : Nat) : Nat → PgdmState K V → List K → PgdmState K V × List K
  | 0, s, errs => (s, errs)
  | fuel + 1, s, errs =>
    let s' := pgdmStep proj grad mag gamma c95 s
    let errs' := errs ++ [errorValue mode f sqrt (fun v => dot v v) s.x s'.x s'.x]
    if isDoing errs' numHist eps then pgdmLoop proj f grad dot sqrt mag gamma c95 eps mode numHist fuel s' errs'
    else (s', errs')

/-- `ProjectedGradientDescentWithMomentum.optimize` around the loop: `none` for `max_iteration = 0` (Python: the loop body never
runs and `if k == max_iteration` raises `UnboundLocalError`) -/
def pgdmOptimize (proj : V → V) (f : V → K) (grad : V → V) (dot : V → V → K) (sqrt : K → K) (mag : V → Int)
    (gamma c95 eps : K) (mode : StopMode) (numHist maxIter : Nat) (s0 : PgdmState K V) : Option (PgdmState K V × List K) :=
  if maxIter = 0 then none else some (pgdmLoop proj f grad dot sqrt mag gamma c95 eps mode numHist maxIter s0 [])

/-! ### FISTA -/

/-- loop body of the FISTA variant at iteration `k` (1-based): returns `x_next`; `kcoef k` is `(k - 2) / (k + 1)` -/
def fistaStep (proj grad : V → V) (delta : K) (kcoef : Nat → K) (k : Nat) (xPrev xPrevPrev : V) : V :=
  proj (xPrev + kcoef k • (xPrev - xPrevPrev) - delta • grad xPrev)

/-- state: iteration number `k`, `x_prev`, `x_prev_prev` -/
def fistaLoop (proj : V → V) (f : V → K) (grad : V → V) (dot : V → V → K) (sqrt : K → K) (delta eps : K)
    (kcoef : Nat → K) (mode : StopMode) (numHist : Nat) : Nat → Nat → V → V → List K → V × List K
  | 0, _, x, _, errs => (x, errs)
  | fuel + 1, k, x, xpp, errs =>
    let xn := fistaStep proj grad delta kcoef k x xpp
    let errs' := errs ++ [errorValue mode f sqrt (fun v => dot v v) x xn xn]
    if isDoing errs' numHist eps then fistaLoop proj f grad dot sqrt delta eps kcoef mode numHist fuel (k + 1) xn x errs'
    else (xn, errs')

/-- `ProjectedFastIterativeShrinkageThresholdingAlgorithm.optimize` around the loop (`k` starts at 1, `x_prev_prev = x_prev`):
`none` for `max_iteration = 0` (`UnboundLocalError` on `k`) -/
def fistaOptimize (proj : V → V) (f : V → K) (grad : V → V) (dot : V → V → K) (sqrt : K → K) (delta eps : K)
    (kcoef : Nat → K) (mode : StopMode) (numHist maxIter : Nat) (xStart : V) : Option (V × List K) :=
  if maxIter = 0 then none else some (fistaLoop proj f grad dot sqrt delta eps kcoef mode numHist maxIter 1 xStart xStart [])

end pgd

/-! ## driver instantiation: `K = Rat`, `V = Vec Rat n`, squared-error loss -/

namespace Drv

scoped instance {n : Nat} : Add (Vec Rat n) := ⟨Vec.add⟩
scoped instance {n : Nat} : Sub (Vec Rat n) := ⟨Vec.sub⟩
scoped instance {n : Nat} : SMul Rat (Vec Rat n) := ⟨Vec.smul⟩

def toVec (n : Nat) (l : List Rat) : Option (Vec Rat n) :=
  if h : l.length = n then some ⟨l.toArray, by simp [h]⟩ else none

def toMat (m n : Nat) (l : List Rat) : Option (Mat Rat m n) :=
  if l.length = m * n then
    some (Mat.ofFn fun i j => l.getD (i.val * n + j.val) 0)   -- in range by the length test
  else none

def showVec {n : Nat} (v : Vec Rat n) : String := showList showRat v.toList

/-- rational square root to 20 decimal digits (the implementation's `np.sqrt` is compared at 1e-9) -/
def ratSqrt (q : Rat) : Rat :=
  if q ≤ 0 then 0 else
    let s : Nat := 10 ^ 40
    mkRat (Nat.sqrt (q.num.toNat * s / q.den)) (10 ^ 20)

/-- identity-weight squared error `f x = ‖A x + c‖²` (`c = b − q`) and its gradient `2 Aᵀ (A x + c)` -/
def seValue {m n : Nat} (A : Mat Rat m n) (c : Vec Rat m) (x : Vec Rat n) : Rat :=
  let r := (A.mulVec x).add c
  r.dot r

/-- weighted squared error `f x = (A x + c)ᵀ W (A x + c)` (the losses' `mode_weight` other than `identity`: `W` the block-diagonal
weight matrix) -/
def wseValue {m n : Nat} (A : Mat Rat m n) (c : Vec Rat m) (W : Mat Rat m m) (x : Vec Rat n) : Rat :=
  let r := (A.mulVec x).add c
  r.dot (W.mulVec r)

def seGrad {m n : Nat} (A : Mat Rat m n) (c : Vec Rat m) (x : Vec Rat n) : Vec Rat n :=
  Vec.smul 2 (A.transpose.mulVec ((A.mulVec x).add c))

/-- `np.ceil(np.log10(q))` for `q > 0`: the smallest integer `m` with `q ≤ 10^m` (`none` for `q ≤ 0`, where numpy gives `-inf` / nan) -/
def ceilLog10 (q : Rat) : Option Int :=
  if q ≤ 0 then none
  else if 1 < q then
    -- smallest m ≥ 1 with q ≤ 10^m
    (List.range 400).find? (fun m => q ≤ (10 : Rat) ^ m) |>.map (fun m => (m : Int))
  else
    -- q ≤ 1: largest j ≥ 0 with q ≤ 10^(-j), result -j
    match (List.range 400).find? (fun j => ¬ (q * (10 : Rat) ^ (j + 1) ≤ 1)) with
    | some j => some (-(j : Int))
    | none => none

def parseVecs? (n : Nat) (s : String) : Option (List (Vec Rat n)) :=
  if s = "-" then some [] else (s.splitOn ";").mapM fun t => (parseList? parseRat? t) >>= toVec n

/-- table look-up of a recorded projection: the value recorded for the nearest recorded argument -/
def nearest {n : Nat} (keys vals : List (Vec Rat n)) (dflt : Vec Rat n) (z : Vec Rat n) : Vec Rat n :=
  let d := fun (k : Vec Rat n) => Vec.dot (Vec.sub k z) (Vec.sub k z)
  match (keys.zip vals) with
  | [] => dflt
  | kv :: rest => (rest.foldl (fun best e => if d e.1 < d best.1 then e else best) kv).2

def parseBool? : String → Option Bool
  | "true" => some true | "false" => some false | _ => none

def parseOrder? : String → Option Order
  | "eq_ineq" => some .eqIneq | "ineq_eq" => some .ineqEq | _ => none

def parseOptNat? (s : String) : Option (Option Nat) :=
  if s = "none" then some none else (s.toNat?).map some

/-- symbolic instantiation of `pleSequence`: the reply is the expression the estimator evaluates per data set -/
def plePlan (order : Order) (n : Nat) : String :=
  " ".intercalate (pleSequence (D := Nat) (O := String) (W := String)
    (fun l => l.map fun i => s!"lin:{i}") (fun o x => s!"{x}|order:{o.toString}") (fun x => s!"{x}|proj")
    (fun x => s!"{x}|var") order (List.range n))

/-- smallest Armijo margin `|rhs − lhs|` over the step sizes tested (the harness skips steps decided by rounding) -/
def armijoMargin {n : Nat} (f : Vec Rat n → Rat) (grad : Vec Rat n → Vec Rat n) (x y : Vec Rat n) (gamma : Rat) :
    Nat → Rat → Rat → Rat
  | 0, _, acc => acc
  | fuel + 1, alpha, acc =>
    let d := f x + gamma * alpha * Vec.dot y (grad x) - f (x + alpha • y)
    let a := if d < 0 then -d else d
    let acc' := if a < acc then a else acc
    if isDoingForAlpha f grad Vec.dot x y alpha gamma then armijoMargin f grad x y gamma fuel ((1 / (1 + 1)) * alpha) acc'
    else acc'

end Drv

open Drv in
def handle (args : List String) : Option String :=
  match args with
  | ["select", cur, siPara, siOrder, eq, ineq, optOrder, maxIter] => do
      -- cur = "none" | "kept" (some projection already installed: modelled as `.toSelf`, reported as kept)
      let siPara ← parseBool? siPara
      let siOrder ← parseOrder? siOrder
      let eq ← parseBool? eq
      let ineq ← parseBool? ineq
      let optOrder ← parseOrder? optOrder
      let maxIter ← parseOptNat? maxIter
      let si : SettingInfo := ⟨siPara, siOrder⟩
      let opt : AlgoOpt := ⟨eq, ineq, optOrder, maxIter⟩
      match cur with
      | "none" => some (setConstraint none si opt).toString
      | "kept" =>
        -- whatever was installed stays: probe with two different installed values
        if setConstraint (some .toSelf) si opt = .toSelf ∧ setConstraint (some (.eqOnly true)) si opt = .eqOnly true
        then some "kept" else some "replaced"
      | _ => none
  | ["lme", n, timeReq, detReq, cur, failAt, failKind] => do
      -- symbolic run of the estimator glue: data sets 0..n-1, the validation call `failKind` (0..3) fails at data set `failAt`
      let n ← parseNat? n
      let timeReq ← parseBool? timeReq
      let detReq ← parseBool? detReq
      let failAt ← parseInt? failAt
      let failKind ← parseNat? failKind
      let cur : Option ProjSel ← match cur with
        | "none" => some none | "installed" => some (some .toSelf) | _ => none
      let si : SettingInfo := ⟨true, .eqIneq⟩
      let opt : AlgoOpt := ⟨true, true, .eqIneq, some 100000⟩
      let checks : Nat → Checks := fun d =>
        let bad := fun k => !((d : Int) == failAt && k == failKind)
        ⟨bad 0, bad 1, bad 2, bad 3⟩
      let optimize : ProjSel → Nat → Bool → String := fun sel d b => s!"opt:{d}:{b}:{sel.factoryName}"
      match lmeSequence si opt checks optimize (fun r => r) timeReq detReq cur (List.range n) with
      | .error e => some s!"err {e.toString}"
      | .ok r => some s!"ok {showList (fun x => x) r.vars} {r.timed.isSome} {r.detailed.isSome} {r.estimatedVar.getD "indexerror"}"
  | ["pgdbrun", n, ref, xs, lo, hi, mu, gamma, eps, mode, numHist, maxIter] => do
      -- a WHOLE run of `pgdbOptimize` (loop, line search, stopping rule, returned point) with an exactly computable projection
      -- (componentwise clamp to [lo, hi]) and the loss `‖x − ref‖²`; the real class is run with the same projection and loss
      let n ← parseNat? n
      let ref ← (parseList? parseRat? ref) >>= toVec n
      let xs ← (parseList? parseRat? xs) >>= toVec n
      let lo ← parseRat? lo
      let hi ← parseRat? hi
      let mu ← parseRat? mu
      let gamma ← parseRat? gamma
      let eps ← parseRat? eps
      let mode ← StopMode.ofString? mode
      let numHist ← parseNat? numHist
      let maxIter ← parseNat? maxIter
      let A : Mat Rat n n := Mat.one
      let c : Vec Rat n := Vec.smul (-1) ref
      let proj : Vec Rat n → Vec Rat n := fun v => Vec.ofFn fun i => if v.get i < lo then lo else if hi < v.get i then hi else v.get i
      match pgdbOptimize proj (seValue A c) (seGrad A c) Vec.dot ratSqrt mu gamma eps mode numHist 1200 maxIter xs with
      | none => some "none"
      | some (x, hist, errs) =>
        some s!"{hist.length - 1} {showVec x} {showList showRat errs} {";".intercalate (hist.reverse.map showVec)}"
  | ["fistarun", n, ref, xs, lo, hi, delta, eps, mode, numHist, maxIter] => do
      let n ← parseNat? n
      let ref ← (parseList? parseRat? ref) >>= toVec n
      let xs ← (parseList? parseRat? xs) >>= toVec n
      let lo ← parseRat? lo
      let hi ← parseRat? hi
      let delta ← parseRat? delta
      let eps ← parseRat? eps
      let mode ← StopMode.ofString? mode
      let numHist ← parseNat? numHist
      let maxIter ← parseNat? maxIter
      let A : Mat Rat n n := Mat.one
      let c : Vec Rat n := Vec.smul (-1) ref
      let proj : Vec Rat n → Vec Rat n := fun v => Vec.ofFn fun i => if v.get i < lo then lo else if hi < v.get i then hi else v.get i
      let kc : Nat → Rat := fun k => (((k : Int) - 2 : Int) : Rat) / (((k : Int) + 1 : Int) : Rat)
      match fistaOptimize proj (seValue A c) (seGrad A c) Vec.dot ratSqrt delta eps kc mode numHist maxIter xs with
      | none => some "none"
      | some r => some s!"{r.2.length} {showVec r.1} {showList showRat r.2}"
  | ["pgdmrun", n, ref, xs, lo, hi, gamma, c95, eps, mode, numHist, maxIter] => do
      -- a whole run of `pgdmLoop` (momentum): clamp projection, loss `‖x − ref‖²` (> 0 on the box: `ref` is chosen outside it)
      let n ← parseNat? n
      let ref ← (parseList? parseRat? ref) >>= toVec n
      let xs ← (parseList? parseRat? xs) >>= toVec n
      let lo ← parseRat? lo
      let hi ← parseRat? hi
      let gamma ← parseRat? gamma
      let c95 ← parseRat? c95
      let eps ← parseRat? eps
      let mode ← StopMode.ofString? mode
      let numHist ← parseNat? numHist
      let maxIter ← parseNat? maxIter
      let A : Mat Rat n n := Mat.one
      let c : Vec Rat n := Vec.smul (-1) ref
      let proj : Vec Rat n → Vec Rat n := fun v => Vec.ofFn fun i => if v.get i < lo then lo else if hi < v.get i then hi else v.get i
      let f := seValue A c
      let mag0 ← ceilLog10 (f xs)
      let mag : Vec Rat n → Int := fun v => match ceilLog10 (f v) with
        | some m => m
        | none => mag0         -- loss 0 is excluded by the harness (numpy would give -inf)
      match pgdmOptimize proj f (seGrad A c) Vec.dot ratSqrt mag gamma c95 eps mode numHist maxIter ⟨xs, Vec.zero, c95, mag0⟩ with
      | none => some "none"
      | some r => some s!"{r.2.length} {showVec r.1.x} {showList showRat r.2} {showRat r.1.zeta}"
  | ["dykrun", n, order, eps, maxIter, x0, eqK, eqV, inK, inV] => do
      -- a whole run of `projPhysical` (all sweeps, order → (first, second) projection, initial state, stop / limit) with the two
      -- elementary projections given as tables recorded from the real run
      let n ← parseNat? n
      let order ← parseOrder? order
      let eps ← parseRat? eps
      let maxIter ← parseNat? maxIter
      let x0 ← (parseList? parseRat? x0) >>= toVec n
      let eqK ← parseVecs? n eqK
      let eqV ← parseVecs? n eqV
      let inK ← parseVecs? n inK
      let inV ← parseVecs? n inV
      if eqK.length ≠ eqV.length ∨ inK.length ≠ inV.length then none else
      match projPhysical (nearest eqK eqV x0) (nearest inK inV x0) order (fun v => Vec.dot v v) eps maxIter Vec.zero x0 with
      | none => some "none"
      | some (x, stopped) => some s!"{showVec x} {stopped}"
  | ["ple", order, n] => do
      let order ← parseOrder? order
      let n ← parseNat? n
      some (plePlan order n)
  | ["dyk", n, x, p, q, y, x', eps, k] => do
      -- one sweep with the two projection results `y = P1(x+p)`, `x' = P2(y+q)` supplied by the implementation
      let n ← parseNat? n
      let x ← (parseList? parseRat? x) >>= toVec n
      let p ← (parseList? parseRat? p) >>= toVec n
      let q ← (parseList? parseRat? q) >>= toVec n
      let y ← (parseList? parseRat? y) >>= toVec n
      let x' ← (parseList? parseRat? x') >>= toVec n
      let eps ← parseRat? eps
      let k ← parseNat? k
      let s : DykState (Vec Rat n) := ⟨x, p, q, y⟩
      let s' := dykSweep (fun _ => y) (fun _ => x') s
      let v : Rat := brValue (fun v => Vec.dot v v) s s'
      -- one loop test at iteration k with fuel 1: stop flag as the loop computes it
      let r := dykLoop (fun _ => y) (fun _ => x') (fun v => Vec.dot v v) eps 1 k s
      some s!"{showVec s'.p} {showVec s'.q} {showRat v} {r.2}"
  | ["pgdb", n, m, A, c, x, mu, gamma, projPt, mode, numHist, eps, errs] => do
      let n ← parseNat? n
      let m ← parseNat? m
      let A ← (parseList? parseRat? A) >>= toMat m n
      let c ← (parseList? parseRat? c) >>= toVec m
      let x ← (parseList? parseRat? x) >>= toVec n
      let mu ← parseRat? mu
      let gamma ← parseRat? gamma
      let projPt ← (parseList? parseRat? projPt) >>= toVec n
      let mode ← StopMode.ofString? mode
      let numHist ← parseNat? numHist
      let eps ← parseRat? eps
      let errs ← parseList? parseRat? errs
      let f := seValue A c
      let g := seGrad A c
      match pgdbStep (fun _ => projPt) f g Vec.dot ratSqrt mu gamma mode 1200 x with
      | none => some "noalpha"
      | some it =>
        let errs' := errs ++ [it.err]
        let margin := armijoMargin f g x it.y gamma 1200 1 (f x + 1)
        let arg : Vec Rat n := x - (1 / mu) • g x
        some s!"{showVec it.y} {showRat it.alpha} {showVec it.xNext} {showRat it.err} {showRat (windowSum errs' numHist)} {isDoing errs' numHist eps} {showRat margin} {showRat (f x)} {showVec arg}"
  | ["pgdm", n, m, A, c, x, moment, zeta, magPrev, magNext, gamma, c95] => do
      let n ← parseNat? n
      let m ← parseNat? m
      let A ← (parseList? parseRat? A) >>= toMat m n
      let c ← (parseList? parseRat? c) >>= toVec m
      let x ← (parseList? parseRat? x) >>= toVec n
      let moment ← (parseList? parseRat? moment) >>= toVec n
      let zeta ← parseRat? zeta
      let magPrev ← parseInt? magPrev
      let magNext ← parseInt? magNext
      let gamma ← parseRat? gamma
      let c95 ← parseRat? c95
      -- the projection is applied by the harness to the reported argument `x + moment_next`
      let s' := pgdmStep (K := Rat) (fun z => z) (seGrad A c) (fun _ => magNext) gamma c95 ⟨x, moment, zeta, magPrev⟩
      some s!"{showVec s'.moment} {showRat s'.zeta} {s'.magPrev} {showVec s'.x}"
  | ["fista", n, m, A, c, x, xpp, delta, k] => do
      let n ← parseNat? n
      let m ← parseNat? m
      let A ← (parseList? parseRat? A) >>= toMat m n
      let c ← (parseList? parseRat? c) >>= toVec m
      let x ← (parseList? parseRat? x) >>= toVec n
      let xpp ← (parseList? parseRat? xpp) >>= toVec n
      let delta ← parseRat? delta
      let k ← parseNat? k
      let kc : Nat → Rat := fun k => (((k : Int) - 2 : Int) : Rat) / (((k : Int) + 1 : Int) : Rat)
      some (showVec (fistaStep (K := Rat) (fun z => z) (seGrad A c) delta kc k x xpp))
  | ["stop", mode, numHist, eps, errs] => do
      let _ ← StopMode.ofString? mode
      let numHist ← parseNat? numHist
      let eps ← parseRat? eps
      let errs ← parseList? parseRat? errs
      some s!"{showRat (windowSum errs numHist)} {isDoing errs numHist eps}"
  | _ => none

end QM.C10
