import QModel.Core
/-! C10 — model (not built yet) -/
namespace QM.C10
def handle (_args : List String) : Option String := none
end QM.C10
