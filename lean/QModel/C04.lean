import QModel.Core
/-!
# C04 — equality / inequality projections (model of `calc_proj_eq_constraint(_with_var)`,
`calc_proj_ineq_constraint(_with_var)` of State / Povm / Gate / MProcess and of the
`func_calc_proj_*` closures of quara/objects/qoperation.py)

Conventions.
* `R` is the real scalar type (executed: `Rat`), `K` the complex one (executed: `Cx Rat`); the link is
  the import-free class `CxLike R K` (`ofReal`, `conj`, `re`, `im`).
* `n = d²` is the number of basis elements; a state is `Vec R n`, a POVM `Mat R m n` (row = element),
  a gate `Mat R n n` (HS matrix), a measurement process `Ten R m n n`.
* numpy `reshape`/`flatten`/`hstack` between a flat variable vector and these shapes is row-major
  re-indexing (property C03); it is done by the driver's parser, except where the code itself does
  flat index arithmetic (`Gate.calc_proj_eq_constraint_with_var`: `new_var[1:dim**2] = 0`), which is
  modelled on the flat vector.
* External kernels are parameters: `s = 1/np.sqrt(d)`, `t = np.sqrt(d)` (floats, passed as rationals),
  the basis matrices, and the result `(lam, U)` of `np.linalg.eigh`.
* `eps` is the effective `eps_truncate_imaginary_part` (`Settings.get_atol()` when `None`).
-/
namespace QM

abbrev Ten (K : Type) (m n p : Nat) := Vector (Mat K n p) m
namespace Ten
variable {K : Type} {m n p : Nat}
@[inline] def ofFn (f : Fin m → Fin n → Fin p → K) : Ten K m n p :=
  Vector.ofFn fun x => Mat.ofFn (f x)
@[inline] def get (T : Ten K m n p) (x : Fin m) (a : Fin n) (b : Fin p) : K := (T[x]).get a b
end Ten

namespace C04

theorem pos_of_lt_mul {k a b : Nat} (h : k < a * b) : 0 < b := by
  rcases Nat.eq_zero_or_pos b with h0 | h0
  · rw [h0, Nat.mul_zero] at h; omega
  · exact h0

/-! ## scalars -/

structure Cx (R : Type) where
  re : R
  im : R
deriving DecidableEq, Repr

namespace Cx
variable {R : Type}
instance [Add R] : Add (Cx R) := ⟨fun a b => ⟨a.re + b.re, a.im + b.im⟩⟩
instance [Sub R] : Sub (Cx R) := ⟨fun a b => ⟨a.re - b.re, a.im - b.im⟩⟩
instance [Neg R] : Neg (Cx R) := ⟨fun a => ⟨-a.re, -a.im⟩⟩
instance [Add R] [Sub R] [Mul R] : Mul (Cx R) :=
  ⟨fun a b => ⟨a.re * b.re - a.im * b.im, a.re * b.im + a.im * b.re⟩⟩
instance [Zero R] : Zero (Cx R) := ⟨⟨0, 0⟩⟩
instance [Zero R] [One R] : One (Cx R) := ⟨⟨1, 0⟩⟩
end Cx

/-- what the model needs to know about the complex scalars -/
class CxLike (R : outParam Type) (K : Type) where
  ofReal : R → K
  conj : K → K
  re : K → R
  im : K → R

instance {R : Type} [Zero R] [Neg R] : CxLike R (Cx R) :=
  ⟨fun r => ⟨r, 0⟩, fun z => ⟨z.re, -z.im⟩, Cx.re, Cx.im⟩

section real
variable {R : Type} [Add R] [Sub R] [Mul R] [Div R] [Neg R] [Zero R] [One R] [NatCast R]
variable {m n : Nat}

/-- first unit vector `np.eye(1, n)` / `one[0] = 1` -/
def e0 (i : Fin n) : R := if i.val = 0 then 1 else 0

/-! ## State -/
namespace State

/-- `vec = deepcopy(self.vec); vec[0] = 1/np.sqrt(dim)` -/
def projEq (s : R) (vec : Vec R n) : Vec R n :=
  Vec.ofFn fun i => if i.val = 0 then s else vec.get i

/-- `calc_proj_eq_constraint_with_var`: with the flag the variable is returned as it is -/
def projEqVar (s : R) (flag : Bool) (var : Vec R n) : Vec R n :=
  if flag then var else Vec.ofFn fun i => if i.val = 0 then s else var.get i

/-- `convert_var_to_vec(…, True)`: `np.insert(var, 0, 1/np.sqrt(dim))` -/
def ofVarT (s : R) (var : Vec R n) : Vec R (n + 1) :=
  Vec.ofFn fun i => if h : i.val = 0 then s else var.get ⟨i.val - 1, by omega⟩

/-- `convert_vec_to_var(…, True)`: `np.delete(vec, 0)` -/
def toVarT (vec : Vec R (n + 1)) : Vec R n :=
  Vec.ofFn fun i => vec.get ⟨i.val + 1, by omega⟩

/-- `func_calc_proj_eq_constraint(True)`: generate_from_var → calc_proj_eq_constraint → to_var -/
def funcProjEqT (s : R) (var : Vec R n) : Vec R n := toVarT (projEq s (ofVarT s var))
/-- `func_calc_proj_eq_constraint(False)` -/
def funcProjEqF (s : R) (var : Vec R n) : Vec R n := projEq s var

end State

/-! ## Povm -/
namespace Povm

/-- `a_bar = np.sum(vecs, axis=0)/m`, `c = [√d/m,0,…]`, `new_vec = vec - a_bar + c` -/
def projEq (t : R) (vecs : Mat R m n) : Mat R m n :=
  let abar : Vec R n := Vec.ofFn fun i => (fsum m fun x => vecs.get x i) / (m : R)
  let c : Vec R n := Vec.ofFn fun i => if i.val = 0 then t / (m : R) else 0
  Mat.ofFn fun x i => (vecs.get x i - abar.get i) + c.get i

/-- `convert_var_to_vecs(…, True)`: the last element is `[√d,0,…] − Σ pre` -/
def ofVarT (t : R) (pre : Mat R m n) : Mat R (m + 1) n :=
  let last : Vec R n := Vec.ofFn fun i => (if i.val = 0 then t else 0) - fsum m fun x => pre.get x i
  Mat.ofFn fun x i => if h : x.val < m then pre.get ⟨x.val, h⟩ i else last.get i

/-- `convert_vecs_to_var(…, True)`: `del var[-1]` -/
def toVarT (vecs : Mat R (m + 1) n) : Mat R m n :=
  Mat.ofFn fun x i => vecs.get ⟨x.val, by omega⟩ i

/-- `calc_proj_eq_constraint_with_var(…, True)` and `func_calc_proj_eq_constraint(True)` -/
def projEqVarT (t : R) (pre : Mat R m n) : Mat R m n := toVarT (projEq t (ofVarT t pre))
/-- `calc_proj_eq_constraint_with_var(…, False)` and `func_calc_proj_eq_constraint(False)` -/
def projEqVarF (t : R) (vecs : Mat R m n) : Mat R m n := projEq t vecs

end Povm

/-! ## Gate -/
namespace Gate

/-- `hs[0][0] = 1; hs[0][1:] = 0` -/
def projEq (hs : Mat R n n) : Mat R n n :=
  Mat.ofFn fun a b => if a.val = 0 then (if b.val = 0 then 1 else 0) else hs.get a b

/-- `calc_proj_eq_constraint_with_var` on the flat variable vector:
`new_var[0] = 1; new_var[1 : dim**2] = 0` (flag False), the variable itself (flag True) -/
def projEqVar {N : Nat} (n : Nat) (flag : Bool) (var : Vec R N) : Vec R N :=
  if flag then var
  else Vec.ofFn fun k => if k.val = 0 then 1 else if k.val < n then 0 else var.get k

/-- `convert_var_to_hs(…, True)`: `np.insert(reshaped, 0, np.eye(1, n), axis=0)` -/
def ofVarT (var : Mat R m n) : Mat R (m + 1) n :=
  Mat.ofFn fun a b => if h : a.val = 0 then e0 b else var.get ⟨a.val - 1, by omega⟩ b

/-- `convert_hs_to_var(…, True)`: `np.delete(hs, 0, axis=0)` -/
def toVarT (hs : Mat R (m + 1) n) : Mat R m n :=
  Mat.ofFn fun a b => hs.get ⟨a.val + 1, by omega⟩ b

def funcProjEqT (var : Mat R n (n + 1)) : Mat R n (n + 1) := toVarT (projEq (ofVarT var))
def funcProjEqF (hs : Mat R n n) : Mat R n n := projEq hs

end Gate

/-- row-major `flatten` -/
def flatten {K : Type} {m n : Nat} (A : Mat K m n) : Vec K (m * n) :=
  Vec.ofFn fun k =>
    have hn : 0 < n := pos_of_lt_mul k.isLt
    A.get ⟨k.val / n, (Nat.div_lt_iff_lt_mul hn).2 k.isLt⟩ ⟨k.val % n, Nat.mod_lt _ hn⟩

/-! ## MProcess -/
namespace MProcess

/-- `vec = Σ_x hs_x[0]; vec[0] -= 1; hs_x[0] -= vec/len(hss)` -/
def projEq (hss : Ten R m n n) : Ten R m n n :=
  let vec : Vec R n := Vec.ofFn fun b =>
    (fsum m fun x => fsum n fun a => if a.val = 0 then hss.get x a b else 0) - (if b.val = 0 then 1 else 0)
  Ten.ofFn fun x a b => if a.val = 0 then hss.get x a b - vec.get b / (m : R) else hss.get x a b

/-- `convert_var_to_hss(…, True)`: the first row of the last HS matrix is `e0 − Σ (first rows)`;
`pre` are the complete matrices, `rest` the last one without its first row -/
def ofVarT (pre : Ten R m (n + 1) (n + 1)) (rest : Mat R n (n + 1)) : Ten R (m + 1) (n + 1) (n + 1) :=
  let first : Vec R (n + 1) := Vec.ofFn fun b => e0 b - fsum m fun x => pre.get x ⟨0, by omega⟩ b
  Ten.ofFn fun x a b =>
    if h : x.val < m then pre.get ⟨x.val, h⟩ a b
    else if h0 : a.val = 0 then first.get b else rest.get ⟨a.val - 1, by omega⟩ b

/-- `convert_hss_to_var(…, True)`: all matrices but the last complete, the last without row 0 -/
def toVarT (hss : Ten R (m + 1) (n + 1) (n + 1)) : Ten R m (n + 1) (n + 1) × Mat R n (n + 1) :=
  (Ten.ofFn fun x a b => hss.get ⟨x.val, by omega⟩ a b,
   Mat.ofFn fun a b => hss.get ⟨m, by omega⟩ ⟨a.val + 1, by omega⟩ b)

def projEqVarT (pre : Ten R m (n + 1) (n + 1)) (rest : Mat R n (n + 1)) :
    Ten R m (n + 1) (n + 1) × Mat R n (n + 1) := toVarT (projEq (ofVarT pre rest))
def projEqVarF (hss : Ten R m n n) : Ten R m n n := projEq hss

/-- content of the CALLER's array after `calc_proj_eq_constraint_with_var(c_sys, var, False)`:
`convert_var_to_hss(…, False)` works on `copy.copy(var)` (since the repair of DESIGN §5-D5; before it returned
reshaped *views* of `var` and `hs[0] -= vec / len(hss)` wrote the projected first rows into the argument),
so the argument is left as it was. -/
def argAfterEqVarF (hss : Ten R m n n) : Ten R m n n := hss

/-- the same for the flag set: `convert_var_to_hss(…, True)` starts from `copy.copy(var)` and `np.insert` allocates -/
def argAfterEqVarT (pre : Ten R m (n + 1) (n + 1)) (rest : Mat R n (n + 1)) :
    Ten R m (n + 1) (n + 1) × Mat R n (n + 1) := (pre, rest)

end MProcess

/-! ## squared Euclidean distances of stacked parameters (used by the theorems and by the driver) -/
def sqd1 (u v : Vec R n) : R := fsum n fun i => (u.get i - v.get i) * (u.get i - v.get i)
def sqd2 (u v : Mat R m n) : R :=
  fsum m fun x => fsum n fun i => (u.get x i - v.get x i) * (u.get x i - v.get x i)
def sqd3 {p : Nat} (u v : Ten R m n p) : R :=
  fsum m fun x => fsum n fun a => fsum p fun b =>
    (u.get x a b - v.get x a b) * (u.get x a b - v.get x a b)

end real

/-! ## inequality projections -/
section cx
variable {R K : Type} [Add R] [Sub R] [Mul R] [Neg R] [Zero R] [One R] [LT R]
  [DecidableRel (α := R) (· < ·)] [DecidableEq R]
  [Add K] [Sub K] [Mul K] [Zero K] [CxLike R K]
variable {m n d : Nat}
open CxLike

/-- `diag[diag < 0] = 0` -/
def pos (x : R) : R := if x < 0 then 0 else x

def rabs (x : R) : R := if x < 0 then -x else x

/-- `eigenvecs @ diag @ eigenvecs.T.conjugate()` with the clipped eigenvalues -/
def clipMat (U : Mat K d d) (lam : Vec R d) : Mat K d d :=
  Mat.ofFn fun i j => fsum d fun k => U.get i k * ofReal (pos (lam.get k)) * conj (U.get j k)

/-- un-clipped reconstruction `U diag(lam) Uᴴ` (what `eigh` promises to equal its argument) -/
def rebuild (U : Mat K d d) (lam : Vec R d) : Mat K d d :=
  Mat.ofFn fun i j => fsum d fun k => U.get i k * ofReal (lam.get k) * conj (U.get j k)

/-- `basis_T_sparse.dot(vec).reshape(d, d)` = Σ_α vec_α B_α -/
def matOfVec (B : Vector (Mat K d d) n) (v : Vec R n) : Mat K d d :=
  Mat.ofFn fun i j => fsum n fun a => ofReal (v.get a) * (B[a]).get i j

/-- `basisconjugate_sparse.dot(flatten(M))`: α ↦ Σ_ij conj(B_α)_ij M_ij = tr(B_αᴴ M) -/
def coeffs (B : Vector (Mat K d d) n) (M : Mat K d d) : Vec K n :=
  Vec.ofFn fun a => fsum d fun i => fsum d fun j => conj ((B[a]).get i j) * M.get i j

/-- rows of `basis_basisconjugate_tmp` (composite_system.py): `kron(B_α, conj B_β)`, index `α*n+β` -/
def kronBasis (B : Vector (Mat K d d) n) : Vector (Mat K (d * d) (d * d)) (n * n) :=
  Vector.ofFn fun c =>
    have hn : 0 < n := pos_of_lt_mul c.isLt
    let a : Fin n := ⟨c.val / n, (Nat.div_lt_iff_lt_mul hn).2 c.isLt⟩
    let b : Fin n := ⟨c.val % n, Nat.mod_lt _ hn⟩
    Mat.ofFn fun i j =>
      have hd : 0 < d := pos_of_lt_mul i.isLt
      (B[a]).get ⟨i.val / d, (Nat.div_lt_iff_lt_mul hd).2 i.isLt⟩ ⟨j.val / d, (Nat.div_lt_iff_lt_mul hd).2 j.isLt⟩ *
        conj ((B[b]).get ⟨i.val % d, Nat.mod_lt _ hd⟩ ⟨j.val % d, Nat.mod_lt _ hd⟩)

inductive Err
  | imag   -- truncate_hs: "some imaginary parts of entries of matrix != 0"
deriving DecidableEq, Repr

/-- `mutil.truncate_hs(vec, eps)`:
`truncate_imaginary_part` keeps the real part where `|im| < eps`; any remaining non-zero imaginary part
raises; then real entries with `|x| < eps` become 0 (`truncate_computational_fluctuation`). -/
def truncate (eps : R) (v : Vec K n) : Except Err (Vec R n) :=
  if (List.finRange n).any (fun a => decide (¬ (rabs (im (v.get a)) < eps) ∧ im (v.get a) ≠ 0))
  then .error .imag
  else .ok (Vec.ofFn fun a => if rabs (re (v.get a)) < eps then 0 else re (v.get a))

/-- squared Frobenius norm of a complex matrix, Σ |z|² -/
def frob2 (M : Mat K d d) : R :=
  fsum d fun i => fsum d fun j =>
    re (M.get i j) * re (M.get i j) + im (M.get i j) * im (M.get i j)

/-- common core of all `calc_proj_ineq_constraint*`: clipped reconstruction from the supplied eigh
result, coefficients in the basis, truncation to a real vector -/
def projIneqCore (B : Vector (Mat K d d) n) (eps : R) (lam : Vec R d) (U : Mat K d d) :
    Except Err (Vec R n) :=
  truncate eps (coeffs B (clipMat U lam))

/-- deviation of the supplied eigh result from the matrix the code hands to `eigh` -/
def eighResidual (M : Mat K d d) (lam : Vec R d) (U : Mat K d d) : R :=
  frob2 (Mat.sub M (rebuild U lam))

/-- `Uᴴ U − 1` -/
def unitaryResidual [One K] (U : Mat K d d) : R :=
  frob2 (Mat.ofFn fun i j => (fsum d fun k => conj (U.get k i) * U.get k j) - (if i = j then (1 : K) else 0))

def seqV {α : Type} {m : Nat} (v : Vector (Except Err α) m) : Except Err (Vector α m) :=
  v.mapM id

namespace State
/-- matrix handed to `np.linalg.eigh` (`to_density_matrix_with_sparsity`) -/
def ineqInput (B : Vector (Mat K d d) n) (vec : Vec R n) : Mat K d d := matOfVec B vec
/-- `calc_proj_ineq_constraint` / `…_with_var(…, False)` -/
def projIneq (B : Vector (Mat K d d) n) (eps : R) (lam : Vec R d) (U : Mat K d d) :
    Except Err (Vec R n) := projIneqCore B eps lam U
/-- `calc_proj_ineq_constraint_with_var(…, True)`: `convert_vec_to_var` drops the first entry -/
def projIneqVarT (B : Vector (Mat K d d) (n + 1)) (eps : R) (lam : Vec R d) (U : Mat K d d) :
    Except Err (Vec R n) := (projIneqCore B eps lam U).map toVarT
end State

namespace Povm
def ineqInput (B : Vector (Mat K d d) n) (vecs : Mat R m n) (x : Fin m) : Mat K d d :=
  matOfVec B vecs[x]
/-- element-wise clipping; `eig[x]` is the eigh result for element `x` -/
def projIneq (B : Vector (Mat K d d) n) (eps : R) (eig : Vector (Vec R d × Mat K d d) m) :
    Except Err (Mat R m n) :=
  seqV (Vector.ofFn fun x => projIneqCore B eps eig[x].1 eig[x].2)
/-- `…_with_var(…, True)`: all `m+1` elements are clipped, the last one is dropped -/
def projIneqVarT (B : Vector (Mat K d d) n) (eps : R) (eig : Vector (Vec R d × Mat K d d) (m + 1)) :
    Except Err (Mat R m n) := (projIneq B eps eig).map toVarT
end Povm

namespace Gate
/-- Choi matrix handed to `eigh` (`to_choi_from_hs_with_sparsity`) -/
def ineqInput (B : Vector (Mat K d d) n) (hs : Mat R n n) : Mat K (d * d) (d * d) :=
  matOfVec (kronBasis B) (flatten hs)
/-- `calc_proj_ineq_constraint` / `…_with_var(…, False)`; result is the flattened HS matrix -/
def projIneq (B : Vector (Mat K d d) n) (eps : R) (lam : Vec R (d * d)) (U : Mat K (d * d) (d * d)) :
    Except Err (Vec R (n * n)) := projIneqCore (kronBasis B) eps lam U
/-- `np.delete(hs, 0, axis=0).flatten()` on the flat HS vector: drop the first `n` entries -/
def dropRow0 {N : Nat} (n : Nat) (v : Vec R N) : Vec R (N - n) :=
  Vec.ofFn fun k => v.get ⟨k.val + n, by omega⟩
def projIneqVarT (B : Vector (Mat K d d) n) (eps : R) (lam : Vec R (d * d)) (U : Mat K (d * d) (d * d)) :
    Except Err (Vec R (n * n - n)) := (projIneq B eps lam U).map (dropRow0 n)
end Gate

namespace MProcess
def ineqInput (B : Vector (Mat K d d) n) (hss : Ten R m n n) (x : Fin m) : Mat K (d * d) (d * d) :=
  Gate.ineqInput B hss[x]
/-- per outcome `Gate.calc_proj_ineq_constraint_with_var(…, False)`; rows are flattened HS matrices -/
def projIneq (B : Vector (Mat K d d) n) (eps : R)
    (eig : Vector (Vec R (d * d) × Mat K (d * d) (d * d)) m) : Except Err (Mat R m (n * n)) :=
  seqV (Vector.ofFn fun x => Gate.projIneq B eps eig[x].1 eig[x].2)
/-- `…_with_var(…, True)`: as above, then `np.delete(proj_hs, np.s_[0:dim**2])` on the last outcome -/
def projIneqVarT (B : Vector (Mat K d d) n) (eps : R)
    (eig : Vector (Vec R (d * d) × Mat K (d * d) (d * d)) (m + 1)) :
    Except Err (Mat R m (n * n) × Vec R (n * n - n)) :=
  (projIneq B eps eig).map fun r =>
    (Mat.ofFn fun x k => r.get ⟨x.val, by omega⟩ k, Gate.dropRow0 n r[m])
end MProcess

end cx

/-! ## driver -/
section driver

def vecOf? {α : Type} (n : Nat) (l : List α) : Option (Vec α n) :=
  if h : l.toArray.size = n then some ⟨l.toArray, h⟩ else none

def matOf? {α : Type} (m n : Nat) (l : List α) : Option (Mat α m n) :=
  if l.length = m * n then
    (Vector.ofFn fun i : Fin m => vecOf? n ((l.drop (i.val * n)).take n)).mapM id
  else none

def tenOf? {α : Type} (m n p : Nat) (l : List α) : Option (Ten α m n p) :=
  if l.length = m * (n * p) then
    (Vector.ofFn fun i : Fin m => matOf? n p ((l.drop (i.val * (n * p))).take (n * p))).mapM id
  else none

def cxList : List Rat → Option (List (Cx Rat))
  | [] => some []
  | [_] => none
  | a :: b :: r => (cxList r).map (⟨a, b⟩ :: ·)

def matList {α : Type} {m n : Nat} (A : Mat α m n) : List α := A.toList.flatMap Vector.toList
def tenList {α : Type} {m n p : Nat} (T : Ten α m n p) : List α := T.toList.flatMap matList

def showV {n : Nat} (v : Vec Rat n) : String := showList showRat v.toList
def showM {m n : Nat} (A : Mat Rat m n) : String := showList showRat (matList A)
def showT {m n p : Nat} (T : Ten Rat m n p) : String := showList showRat (tenList T)

def parseBool? (s : String) : Option Bool :=
  if s = "T" then some true else if s = "F" then some false else none

def rats? (s : String) : Option (List Rat) := parseList? parseRat? s
def cxs? (s : String) : Option (List (Cx Rat)) := (rats? s).bind cxList

/-- eigh results for `m` matrices of size `D`: `lams` flat `m*D`, `us` flat `m*D*D` complex -/
def eigs? (m D : Nat) (lams : List Rat) (us : List (Cx Rat)) :
    Option (Vector (Vec Rat D × Mat (Cx Rat) D D) m) := do
  let L ← matOf? m D lams
  let U ← tenOf? m D D us
  pure (Vector.ofFn fun x => (L[x], U[x]))

/-- residuals of the eigh contracts, summed over the outcomes -/
def resid {m D : Nat} (inp : Fin m → Mat (Cx Rat) D D) (eig : Vector (Vec Rat D × Mat (Cx Rat) D D) m) :
    Rat × Rat :=
  (fsum m fun x => eighResidual (inp x) eig[x].1 eig[x].2, fsum m fun x => unitaryResidual eig[x].2)

def showIneq (r : Except Err String) (res : Rat × Rat) : String :=
  match r with
  | .error .imag => "err imag"
  | .ok s => s!"ok {s} {showRat res.1} {showRat res.2}"

def handleEq (args : List String) : Option String :=
  match args with
  | ["s_eq_obj", s, vec] => do
      let s ← parseRat? s; let l ← rats? vec
      let v ← vecOf? l.length l
      some s!"ok {showV (State.projEq s v)}"
  | ["s_eq_var", flag, s, var] => do
      let flag ← parseBool? flag; let s ← parseRat? s; let l ← rats? var
      let v ← vecOf? l.length l
      some s!"ok {showV (State.projEqVar s flag v)}"
  | ["s_eq_func", flag, s, var] => do
      let flag ← parseBool? flag; let s ← parseRat? s; let l ← rats? var
      let v ← vecOf? l.length l
      some s!"ok {showV (if flag then State.funcProjEqT s v else State.funcProjEqF s v)}"
  | ["p_eq_obj", t, m, n, vecs] => do
      let t ← parseRat? t; let m ← parseNat? m; let n ← parseNat? n
      let A ← matOf? m n (← rats? vecs)
      some s!"ok {showM (Povm.projEq t A)}"
  | ["p_eq_var", flag, t, m, n, var] => do
      let flag ← parseBool? flag; let t ← parseRat? t; let m ← parseNat? m; let n ← parseNat? n
      let A ← matOf? m n (← rats? var)
      some s!"ok {showM (if flag then Povm.projEqVarT t A else Povm.projEqVarF t A)}"
  | ["g_eq_obj", n, hs] => do
      let n ← parseNat? n
      let A ← matOf? n n (← rats? hs)
      some s!"ok {showM (Gate.projEq A)}"
  | ["g_eq_var", flag, n, var] => do
      let flag ← parseBool? flag; let n ← parseNat? n; let l ← rats? var
      let v ← vecOf? l.length l
      some s!"ok {showV (Gate.projEqVar n flag v)}"
  | ["g_eq_func", flag, n, var] => do
      let flag ← parseBool? flag; let n ← parseNat? n; let l ← rats? var
      if flag then
        match n with
        | 0 => none
        | n' + 1 => do
          let A ← matOf? n' (n' + 1) l
          some s!"ok {showM (Gate.funcProjEqT A)}"
      else do
        let A ← matOf? n n l
        some s!"ok {showM (Gate.funcProjEqF A)}"
  | ["m_eq_obj", m, n, hss] => do
      let m ← parseNat? m; let n ← parseNat? n
      let T ← tenOf? m n n (← rats? hss)
      some s!"ok {showT (MProcess.projEq T)}"
  | ["m_eq_var_after", flag, m, n, var] => do
      let flag ← parseBool? flag; let m ← parseNat? m; let n ← parseNat? n; let l ← rats? var
      if flag then
        match m, n with
        | m' + 1, n' + 1 => do
          let k := m' * ((n' + 1) * (n' + 1))
          let pre ← tenOf? m' (n' + 1) (n' + 1) (l.take k)
          let rest ← matOf? n' (n' + 1) (l.drop k)
          let r := MProcess.argAfterEqVarT pre rest
          some s!"ok {showList showRat (tenList r.1 ++ matList r.2)}"
        | _, _ => none
      else do
        let T ← tenOf? m n n l
        some s!"ok {showT (MProcess.argAfterEqVarF T)}"
  | ["m_eq_var", flag, m, n, var] => do
      let flag ← parseBool? flag; let m ← parseNat? m; let n ← parseNat? n; let l ← rats? var
      if flag then
        match m, n with
        | m' + 1, n' + 1 => do
          let k := m' * ((n' + 1) * (n' + 1))
          let pre ← tenOf? m' (n' + 1) (n' + 1) (l.take k)
          let rest ← matOf? n' (n' + 1) (l.drop k)
          let r := MProcess.projEqVarT pre rest
          some s!"ok {showList showRat (tenList r.1 ++ matList r.2)}"
        | _, _ => none
      else do
        let T ← tenOf? m n n l
        some s!"ok {showT (MProcess.projEqVarF T)}"
  | _ => none

def handleIneq (args : List String) : Option String :=
  match args with
  | ["s_ineq", flag, d, n, s, eps, basis, var, lam, u] => do
      let flag ← parseBool? flag; let d ← parseNat? d; let n ← parseNat? n
      let s ← parseRat? s; let eps ← parseRat? eps
      let lam ← vecOf? d (← rats? lam); let U ← matOf? d d (← cxs? u)
      let l ← rats? var
      if flag then
        match n with
        | 0 => none
        | n' + 1 => do
          let B ← tenOf? (n' + 1) d d (← cxs? basis)
          let v ← vecOf? n' l
          let inp := State.ineqInput B (State.ofVarT s v)
          some (showIneq ((State.projIneqVarT B eps lam U).map showV)
            (eighResidual inp lam U, unitaryResidual U))
      else do
        let B ← tenOf? n d d (← cxs? basis)
        let v ← vecOf? n l
        let inp := State.ineqInput B v
        some (showIneq ((State.projIneq B eps lam U).map showV)
          (eighResidual inp lam U, unitaryResidual U))
  | ["p_ineq", flag, d, n, m, t, eps, basis, var, lams, us] => do
      -- `m` = number of POVM elements of the full object
      let flag ← parseBool? flag; let d ← parseNat? d; let n ← parseNat? n; let m ← parseNat? m
      let t ← parseRat? t; let eps ← parseRat? eps
      let B ← tenOf? n d d (← cxs? basis)
      let l ← rats? var
      if flag then
        match m with
        | 0 => none
        | m' + 1 => do
          let eig ← eigs? (m' + 1) d (← rats? lams) (← cxs? us)
          let pre ← matOf? m' n l
          let vecs := Povm.ofVarT t pre
          some (showIneq ((Povm.projIneqVarT B eps eig).map showM)
            (resid (Povm.ineqInput B vecs) eig))
      else do
        let eig ← eigs? m d (← rats? lams) (← cxs? us)
        let vecs ← matOf? m n l
        some (showIneq ((Povm.projIneq B eps eig).map showM) (resid (Povm.ineqInput B vecs) eig))
  | ["g_ineq", flag, d, n, eps, basis, var, lam, u] => do
      let flag ← parseBool? flag; let d ← parseNat? d; let n ← parseNat? n
      let eps ← parseRat? eps
      let B ← tenOf? n d d (← cxs? basis)
      let lam ← vecOf? (d * d) (← rats? lam); let U ← matOf? (d * d) (d * d) (← cxs? u)
      let l ← rats? var
      if flag then
        match n with
        | 0 => none
        | n' + 1 => do
          let B ← tenOf? (n' + 1) d d (← cxs? basis)
          let v ← matOf? n' (n' + 1) l
          let inp := Gate.ineqInput B (Gate.ofVarT v)
          some (showIneq ((Gate.projIneqVarT B eps lam U).map showV)
            (eighResidual inp lam U, unitaryResidual U))
      else do
        let hs ← matOf? n n l
        let inp := Gate.ineqInput B hs
        some (showIneq ((Gate.projIneq B eps lam U).map showV)
          (eighResidual inp lam U, unitaryResidual U))
  | ["m_ineq", flag, d, n, m, eps, basis, var, lams, us] => do
      let flag ← parseBool? flag; let d ← parseNat? d; let n ← parseNat? n; let m ← parseNat? m
      let eps ← parseRat? eps
      let l ← rats? var
      if flag then
        match m, n with
        | m' + 1, n' + 1 => do
          let B ← tenOf? (n' + 1) d d (← cxs? basis)
          let eig ← eigs? (m' + 1) (d * d) (← rats? lams) (← cxs? us)
          let k := m' * ((n' + 1) * (n' + 1))
          let pre ← tenOf? m' (n' + 1) (n' + 1) (l.take k)
          let rest ← matOf? n' (n' + 1) (l.drop k)
          let hss := MProcess.ofVarT pre rest
          some (showIneq ((MProcess.projIneqVarT B eps eig).map fun r =>
              showList showRat (matList r.1 ++ r.2.toList))
            (resid (MProcess.ineqInput B hss) eig))
        | _, _ => none
      else do
        let B ← tenOf? n d d (← cxs? basis)
        let eig ← eigs? m (d * d) (← rats? lams) (← cxs? us)
        let hss ← tenOf? m n n l
        some (showIneq ((MProcess.projIneq B eps eig).map showM) (resid (MProcess.ineqInput B hss) eig))
  | _ => none

def handle (args : List String) : Option String :=
  match args with
  | op :: _ => if op.endsWith "ineq" then handleIneq args else handleEq args
  | [] => none

end driver

end C04
end QM
