import QModel.Core
/-! C04 — model (not built yet) -/
namespace QM.C04
def handle (_args : List String) : Option String := none
end QM.C04
