"""C06 — composition implements quantum mechanics and is associative.

correspondence: every bracketing of structured type-valid chains is evaluated on the real
`_compose_qoperations` and on QModel.C06 (`tree` op), plus `to_povm`, `generate_mprocess(2)`,
`truncate_and_normalize`, error branches.
oracle: the same chains against an independent Kraus/density-matrix level semantics in numpy
(node by node, so a failure is attributed to the type pair that produced it), physical in => physical
out, generate_mprocess modes 0/1/2 against to_povm / Born rule / Lüders post states, and the
eps_zero truncation family (tiny ensemble weights)."""
import itertools
import numpy as np
import shim  # noqa: F401
from common import Driver, q, qlist, ilist, unqlist, unilist, allclose, close
import qobj
from quara.objects import operators as ops_mod
from quara.objects.operators import compose_qoperations, _compose_qoperations
from quara.objects.state import State
from quara.objects.povm import Povm
from quara.objects.gate import Gate
from quara.objects.mprocess import MProcess
from quara.objects.state_ensemble import StateEnsemble
from quara.objects.multinomial_distribution import MultinomialDistribution
from quara.settings import Settings
from quara.utils import matrix_util

TOL = 1e-9


# ----------------------------------------------------------------------------- systems / bases
class Sys:
    """one composite system with cached basis stack"""
    _all = []

    def __init__(self, kind):
        self.kind = kind
        if kind == "2qubit":
            self.c = qobj.csys("qubit", names=(0, 1))
        else:
            self.c = qobj.csys(kind)
        self.d = self.c.dim
        self.n = self.d ** 2
        self.B = np.array(qobj.basis_mats(self.c))          # (n, d, d)
        self.id = len(Sys._all)
        Sys._all.append(self)

    def vec(self, mat):
        return np.einsum("aij,ij->a", self.B.conj(), mat).real.astype(np.float64)

    def mat(self, vec):
        return np.einsum("a,aij->ij", np.asarray(vec, dtype=np.float64), self.B)

    def hs(self, kraus):
        out = np.zeros((self.n, self.n))
        for k in kraus:
            kb = np.einsum("ij,bjk,lk->bil", k, self.B, k.conj())      # K B_b K^dagger
            out += np.einsum("aij,bij->ab", self.B.conj(), kb).real
        return out


_SYS = {}


def get_sys(kind):
    if kind not in _SYS:
        _SYS[kind] = Sys(kind)
    return _SYS[kind]


def sys_id(c_sys):
    for s in Sys._all:
        if s.c is c_sys or s.c == c_sys:
            return s.id
    return 99


# ----------------------------------------------------------------------------- semantic (Kraus level) objects
class Sem:
    """independent reference semantics of a (sub)chain.
    kind 'inst': shape tuple + list (row-major over shape, earlier outcome slowest) of Kraus lists
    kind 'ens' : shape + list of unnormalised density matrices
    kind 'povm': list of effects (flattened layout, earlier slowest)
    kind 'dist': shape + probabilities"""

    def __init__(self, kind, shape, items, is_gate=False, is_state=False):
        self.kind, self.shape, self.items = kind, tuple(shape), items
        self.is_gate, self.is_state = is_gate, is_state


def sem_compose(a, b):
    """a after b"""
    if a.kind == "inst" and b.kind == "inst":
        items = [[ka @ kb for ka in xa for kb in xb] for xb in b.items for xa in a.items]
        return Sem("inst", b.shape + a.shape, items, is_gate=a.is_gate and b.is_gate)
    if a.kind == "inst" and b.kind == "ens":
        items = [sum(k @ r @ k.conj().T for k in xa) for r in b.items for xa in a.items]
        return Sem("ens", b.shape + a.shape, items, is_state=a.is_gate and b.is_state)
    if a.kind == "povm" and b.kind == "inst":
        items = [sum(k.conj().T @ e @ k for k in xb) for xb in b.items for e in a.items]
        return Sem("povm", (len(items),), items)
    if a.kind == "povm" and b.kind == "ens":
        ps = [np.trace(e @ r).real for r in b.items for e in a.items]
        return Sem("dist", b.shape + a.shape, ps)
    return None


def sem_of_leaf(leaf):
    return leaf["sem"]


# ----------------------------------------------------------------------------- leaves (quara object + semantics)
def mk_state(g, S, rank=None, required=True, rho=None):
    rho = qobj.rand_density(g, S.d, rank) if rho is None else rho
    return {"t": "S", "obj": State(S.c, S.vec(rho), is_physicality_required=required),
            "sem": Sem("ens", (), [rho], is_state=True)}


def mk_gate(g, S, kraus_rank=2, unitary=False, required=True):
    ks = [qobj.rand_unitary(g, S.d)] if unitary else qobj.rand_kraus(g, S.d, 1, kraus_rank)[0]
    return {"t": "G", "obj": Gate(S.c, S.hs(ks), is_physicality_required=required),
            "sem": Sem("inst", (), [ks], is_gate=True)}


def mk_mprocess(g, S, m, kraus_rank=1, required=True, groups=None, eps_zero=1e-8):
    groups = qobj.rand_kraus(g, S.d, m, kraus_rank) if groups is None else groups
    hss = [S.hs(ks) for ks in groups]
    return {"t": "M", "obj": MProcess(S.c, hss, is_physicality_required=required, eps_zero=eps_zero),
            "sem": Sem("inst", (len(groups),), groups)}


def mk_povm(g, S, m, rank=None, required=True, mats=None):
    mats = qobj.rand_povm_mats(g, S.d, m, rank) if mats is None else mats
    return {"t": "P", "obj": Povm(S.c, [S.vec(e) for e in mats], is_physicality_required=required),
            "sem": Sem("povm", (len(mats),), mats)}


def projective_groups(g, S, split=None):
    """projective measurement in a random basis; `split` groups basis vectors into outcomes"""
    u = qobj.rand_unitary(g, S.d)
    split = split or [[i] for i in range(S.d)]
    groups = []
    for idx in split:
        p = sum(np.outer(u[:, i], u[:, i].conj()) for i in idx)
        groups.append([p])
    return groups, u


# ----------------------------------------------------------------------------- encoding for the model
def enc(obj):
    if type(obj) == State:
        return f"S;{sys_id(obj.composite_system)};{qlist(obj.vec)}"
    if type(obj) == Gate:
        return f"G;{sys_id(obj.composite_system)};{qlist(obj.hs.flatten())}"
    if type(obj) == Povm:
        return (f"P;{sys_id(obj.composite_system)};{ilist(obj.nums_local_outcomes)};{len(obj.vecs)};"
                f"{qlist(np.concatenate([v for v in obj.vecs]))}")
    if type(obj) == MProcess:
        return (f"M;{sys_id(obj.composite_system)};{ilist(obj.shape)};{q(obj.eps_zero)};{len(obj.hss)};"
                f"{qlist(np.concatenate([h.flatten() for h in obj.hss]))}")
    if type(obj) == StateEnsemble:
        d = obj.prob_dist
        return (f"E;{sys_id(obj.states[0].composite_system)};{ilist(d.shape)};{q(obj.eps_zero)};{qlist(d.ps)};"
                f"{'true' if d.is_zero_dist else 'false'};{len(obj.states)};"
                f"{qlist(np.concatenate([s.vec for s in obj.states]))}")
    raise TypeError(type(obj))


def canon(obj):
    """impl result -> comparable tuple (discrete part, numeric part)"""
    if type(obj) == State:
        return ("S", (sys_id(obj.composite_system),), list(obj.vec))
    if type(obj) == Gate:
        return ("G", (sys_id(obj.composite_system),), list(obj.hs.flatten()))
    if type(obj) == Povm:
        return ("P", (sys_id(obj.composite_system), tuple(obj.nums_local_outcomes), len(obj.vecs)),
                list(np.concatenate(obj.vecs)))
    if type(obj) == MProcess:
        return ("M", (sys_id(obj.composite_system), tuple(obj.shape), len(obj.hss)),
                [float(obj.eps_zero)] + list(np.concatenate([h.flatten() for h in obj.hss])))
    if type(obj) == StateEnsemble:
        d = obj.prob_dist
        return ("E", (sys_id(obj.states[0].composite_system), tuple(d.shape), bool(d.is_zero_dist), len(obj.states)),
                [float(obj.eps_zero)] + list(d.ps) + list(np.concatenate([s.vec for s in obj.states])))
    if type(obj) == MultinomialDistribution:
        return ("D", (tuple(obj.shape), bool(obj.is_zero_dist)), list(obj.ps))
    return ("?", (type(obj).__name__,), [])


def parse_reply(line):
    t = line.split()
    if t[0] == "err":
        return ("err", t[1])
    if t[0] != "ok":
        return ("bad", line[:80])
    k = t[1]
    if k == "S":
        return ("S", (int(t[2]),), [float(x) for x in unqlist(t[3])])
    if k == "G":
        return ("G", (int(t[2]),), [float(x) for x in unqlist(t[3])])
    if k == "P":
        return ("P", (int(t[2]), tuple(unilist(t[3])), int(t[4])), [float(x) for x in unqlist(t[5])])
    if k == "M":
        return ("M", (int(t[2]), tuple(unilist(t[3])), int(t[5])),
                [float(unqlist(t[4])[0])] + [float(x) for x in unqlist(t[6])])
    if k == "E":
        # E sys eps shape isZero ps nstates states
        return ("E", (int(t[2]), tuple(unilist(t[4])), t[5] == "true", int(t[7])),
                [float(unqlist(t[3])[0])] + [float(x) for x in unqlist(t[6])] + [float(x) for x in unqlist(t[8])])
    if k == "D":
        return ("D", (tuple(unilist(t[2])), t[3] == "true"), [float(x) for x in unqlist(t[4])])
    return ("bad", line[:80])


def err_kind(e):
    m = str(e)
    if isinstance(e, TypeError):
        return "type"
    if "different composite systems" in m:
        return "sys"
    if "physically correct" in m:
        return "physical"
    if "non-negative number" in m:
        return "negative"
    if "sum of prob_dist" in m:
        return "sumNotOne"
    if "do not match" in m:
        return "size"
    if "at least two" in m:
        return "tooFew"
    return type(e).__name__


def same(impl, model):
    if impl[0] == "err" or model[0] == "err":
        if impl[0] != model[0]:
            return False
        a, b = impl[1], model[1]
        return a == b or {a, b} <= {"nanDist", "sumNotOne", "divZero"} or {a, b} <= {"size", "sizeMismatch"}
    return impl[0] == model[0] and tuple(impl[1]) == tuple(model[1]) and allclose(impl[2], model[2], TOL)


# ----------------------------------------------------------------------------- bracketings
def trees(lo, hi):
    """all binary bracketings of leaves lo..hi-1 as nested tuples"""
    if hi - lo == 1:
        return [lo]
    out = []
    for mid in range(lo + 1, hi):
        for l in trees(lo, mid):
            for r in trees(mid, hi):
                out.append((l, r))
    return out


def right_nested(k):
    t = k - 1
    for i in range(k - 2, -1, -1):
        t = (i, t)
    return t


def rpn(t):
    if isinstance(t, int):
        return [str(t)]
    return rpn(t[0]) + rpn(t[1]) + ["o"]


def eval_impl(t, leaves):
    if isinstance(t, int):
        return leaves[t]["obj"]
    return _compose_qoperations(eval_impl(t[0], leaves), eval_impl(t[1], leaves))


def tree_str(t):
    return str(t).replace(" ", "")


# ----------------------------------------------------------------------------- chain generators
def gen_chain(g, S, length, family, t):
    """type-valid chain [x_0 (latest) ... x_{k-1} (earliest)] of quara objects with semantics"""
    ms = [2, 3, 4, 3, 2]
    g.shuffle(ms)
    left_types = ["P", "G", "M"]
    right_types = ["S", "G", "M"] if family not in ("state-end", "small-prob") else ["S"]
    types = []
    for i in range(length):
        if i == 0 and length > 1:
            types.append(left_types[int(g.integers(0, 3))] if family != "povm-start" else "P")
        elif i == length - 1:
            types.append(right_types[int(g.integers(0, len(right_types)))])
        elif family == "small-prob" and i == length - 2:
            types.append("M")
        else:
            types.append("GM"[int(g.integers(0, 2))] if family != "mp-heavy" else "M")
    if family == "mp-heavy" and types[0] == "G":
        types[0] = "M"
    if family == "zero-prob" and length >= 3:
        # exact zero probabilities (also for the LAST outcome of the first measurement) followed by another measurement
        types[-1], types[-2], types[-3] = "S", "M", "M"
    rp = None
    if family == "repeat-proj":
        # the same projective measurement (random, not axis aligned) applied twice, or followed by its coarse-graining /
        # by the projective POVM of the same basis: impossible outcome combinations are numerically, not exactly, zero
        types[-1] = "S" if length >= 3 else "M"
        lo = length - 2 if length >= 3 else length - 1
        types[lo] = "M"
        types[lo - 1] = "M" if (lo - 1 > 0 or t % 3) else "P"
        rp = {"lo": lo, "u": qobj.rand_unitary(g, S.d)}
    leaves = []
    used = []
    for i, ty in enumerate(types):
        if ty == "S":
            leaves.append(mk_state(g, S, rank=[None, 1, None][t % 3]))
        elif ty == "G":
            leaves.append(mk_gate(g, S, kraus_rank=1 + int(g.integers(0, 2)), unitary=(t + i) % 3 == 0))
        elif ty == "M":
            m = next(x for x in ms if x not in used) if len(used) < 3 else ms[i % 5]
            used.append(m)
            if rp is not None and i in (rp["lo"], rp["lo"] - 1):
                u = rp["u"]
                split = [[k] for k in range(S.d)]
                if i == rp["lo"] - 1 and S.d > 2 and t % 2:
                    split = [[0, 1]] + [[k] for k in range(2, S.d)]        # coarse-graining of the earlier measurement
                leaves.append(mk_mprocess(g, S, len(split), groups=[[sum(np.outer(u[:, k], u[:, k].conj()) for k in idx)] for idx in split]))
            elif family == "zero-prob" and S.d >= 2 and i == length - 2 and types[-1] == "S":
                groups, u = projective_groups(g, S)
                leaves.append(mk_mprocess(g, S, len(groups), groups=groups))
            elif family == "small-prob" and i == max(0, length - 2):
                # a rare outcome (3e-4 .. 9e-4): far above every truncation threshold, still must be normalised
                cs = [3e-4 * (1 + t % 3), 0.25]
                cs.append(1 - sum(cs))
                leaves.append(mk_mprocess(g, S, 3, groups=[[np.sqrt(c) * qobj.rand_unitary(g, S.d)] for c in cs]))
            else:
                leaves.append(mk_mprocess(g, S, m, kraus_rank=1 + (t + i) % 2 if S.d == 2 else 1))
        elif ty == "P":
            m = next(x for x in ms if x not in used) if len(used) < 3 else 2
            used.append(m)
            if rp is not None and i == rp["lo"] - 1:
                u = rp["u"]
                leaves.append(mk_povm(g, S, S.d, mats=[np.outer(u[:, k], u[:, k].conj()) for k in range(S.d)]))
            else:
                leaves.append(mk_povm(g, S, m, rank=[None, 1, None, 1][t % 4] if m >= S.d else None))
    if family == "zero-prob" and types[-1] == "S" and length >= 2 and types[-2] == "M":
        # pure input state = first basis vector of the projective measurement -> exact zero probabilities
        groups = leaves[-2]["sem"].items
        p0 = groups[0][0]
        w, v = np.linalg.eigh(p0)
        psi = v[:, -1]
        leaves[-1] = mk_state(g, S, rho=np.outer(psi, psi.conj()))
    return types, leaves


def ref_probs(t, leaves):
    """all outcome probabilities appearing in the reference semantics of every node (threshold guard)"""
    out = []

    def rec(t):
        if isinstance(t, int):
            return leaves[t]["sem"]
        a, b = rec(t[0]), rec(t[1])
        if a is None or b is None:
            return None
        s = sem_compose(a, b)
        if s is not None and s.kind == "ens":
            out.extend(abs(np.trace(r).real) for r in s.items)
        if s is not None and s.kind == "dist":
            out.extend(abs(p) for p in s.items)
        return s
    rec(t)
    return out


def near_threshold(ps):
    """a probability between float noise and 100x the truncation thresholds: rounding could decide a branch"""
    return any(1e-14 < p < 1e-6 for p in ps)


FAMILIES = ["generic", "state-end", "povm-start", "mp-heavy", "zero-prob", "state-end", "small-prob", "repeat-proj"]


def chain_plan(ctx, volume=1):
    """(system kind, length, family, index) list, deterministic in (seed, tier)"""
    plan = []
    kinds = [("qubit", 10), ("qutrit", 4)] if ctx.quick else [("qubit", 60), ("qutrit", 25), ("2qubit", 6)]
    for kind, reps in kinds:
        for length in (2, 3, 4, 5):
            r = reps * volume
            if kind != "qubit" and length == 5:
                r = max(1, r // 3)
            for t in range(r):
                plan.append((kind, length, FAMILIES[t % len(FAMILIES)], t))
    return plan


# ----------------------------------------------------------------------------- correspondence
def translate(ctx):
    """regenerate lean/QGen/C06.lean from the current source (c06_translate.py); QProps proves model = generated"""
    import c06_translate
    return c06_translate.translate()


def correspondence(ctx):
    drv = Driver("C06")
    pend = []
    atol = Settings.get_atol()
    g = ctx.npgen(1)

    def hdr(S):
        return (S.n, q(np.sqrt(S.d)), q(atol))

    for kind, length, family, t in chain_plan(ctx):
        S = get_sys(kind)
        types, leaves = gen_chain(g, S, length, family, t)
        brs = trees(0, length)
        if kind == "2qubit":
            brs = brs[:3] + brs[-2:]
        objs = [enc(l["obj"]) for l in leaves]
        for br in brs:
            if near_threshold(ref_probs(br, leaves)):
                ctx.count("skipped near-threshold")
                continue
            try:
                impl = canon(eval_impl(br, leaves))
            except Exception as e:  # noqa
                impl = ("err", err_kind(e))
            i = drv.ask(*hdr(S), "tree", length, *objs, *rpn(br))
            pend.append(("tree", {"kind": kind, "types": "".join(types), "tree": tree_str(br), "family": family, "t": t},
                         impl, i))
            ctx.count(f"chain {kind} len={length}")
            ctx.count(f"result {impl[0]}")
            ctx.case(("tree", kind, "".join(types), tree_str(br), t, family), nontrivial=length > 2,
                     sample={"op": "tree", "system": kind, "types": "".join(types), "bracketing": tree_str(br)})
        # the fold itself
        if not near_threshold(ref_probs(right_nested(length), leaves)):
            try:
                impl = canon(compose_qoperations(*[l["obj"] for l in leaves]))
            except Exception as e:  # noqa
                impl = ("err", err_kind(e))
            pend.append(("chain", {"kind": kind, "types": "".join(types), "t": t}, impl,
                         drv.ask(*hdr(S), "chain", *objs)))
            ctx.case(("chain", kind, "".join(types), t, family))

    # --- non-physical operands (is_physicality_required=False), truncation branches with explicit ensembles
    S = get_sys("qubit")
    for t in range(12 if ctx.quick else 80):
        rq = False
        m1, m2 = 2 + t % 3, 2 + (t + 1) % 3
        M = mk_mprocess(g, S, m1, required=rq)["obj"]
        def pert(shape, scale):   # perturbation that leaves the first row (trace functional) alone
            e = qobj.dyadic(g, shape, bits=8, scale=scale)
            e[0] = 0
            return e
        hss = [h + pert(h.shape, 0.05) for h in M.hss]
        M = MProcess(S.c, hss, is_physicality_required=False, eps_zero=[1e-8, 1e-3, 0.0][t % 3])
        sts = [State(S.c, S.vec(qobj.rand_density(g, S.d)) + pert((S.n,), 0.02),
                     is_physicality_required=False) for _ in range(m2)]
        w = g.integers(1, 30, size=m2).astype(float)
        mode = t % 4
        if mode == 1:
            w[0] = 0.0
        ps = w / w.sum()
        if mode == 2:       # a tiny weight: weight * p <= eps_zero truncates a non-negligible conditional probability
            ps = np.array([3e-8] + list((1 - 3e-8) * w[1:] / w[1:].sum()))
        if mode == 3 and t % 8 == 3:
            ps = np.zeros(m2)
        ens = StateEnsemble(sts, MultinomialDistribution(ps.copy(), shape=(m2,)), eps_zero=[1e-8, 1e-5][t % 2])
        P = Povm(S.c, [S.vec(e) + qobj.dyadic(g, (S.n,), bits=8, scale=0.01) for e in qobj.rand_povm_mats(g, S.d, 3)],
                 is_physicality_required=False)
        G = Gate(S.c, mk_gate(g, S)["obj"].hs + pert((S.n, S.n), 0.02), is_physicality_required=False)
        for name, objs in (("M.E", [M, ens]), ("G.E", [G, ens]), ("P.E", [P, ens]), ("P.(M.E)", None), ("M.(M.E)", None)):
            try:
                if objs is None:
                    inner = _compose_qoperations(M, ens)
                    outer = P if name[0] == "P" else M
                    impl = canon(_compose_qoperations(outer, inner))
                    req = [enc(outer), enc(M), enc(ens), "0", "1", "2", "o", "o"]
                    k = 3
                else:
                    impl = canon(_compose_qoperations(*objs))
                    req = [enc(objs[0]), enc(objs[1]), "0", "1", "o"]
                    k = 2
            except Exception as e:  # noqa
                impl = ("err", err_kind(e))
                if objs is None:
                    outer = P if name[0] == "P" else M
                    req, k = [enc(outer), enc(M), enc(ens), "0", "1", "2", "o", "o"], 3
                else:
                    req, k = [enc(objs[0]), enc(objs[1]), "0", "1", "o"], 2
            # threshold guard on the values the branch conditions look at
            guard = [abs(x) for x in (impl[2][1:] if impl[0] == "E" else impl[2] if impl[0] == "D" else [])]
            if any(abs(x / th - 1) < 1e-3 for x in guard for th in (1e-8, 1e-5, 1e-3, 1e-13)):
                ctx.count("skipped near-threshold")
                continue
            pend.append(("tree", {"nonphysical": name, "t": t, "mode": mode}, impl, drv.ask(*hdr(S), "tree", k, *req)))
            ctx.count(f"nonphysical {name} mode={mode}")
            ctx.case(("np", name, t), sample={"op": "tree", "nonphysical": name})

    # --- error branches
    S2 = get_sys("qubit-b") if "qubit-b" in _SYS else None
    if S2 is None:
        S2 = Sys("qubit")
        _SYS["qubit-b"] = S2
    a = {k: f(g, S) for k, f in (("S", mk_state), ("G", mk_gate))}
    a["M"] = mk_mprocess(g, S, 2)
    a["P"] = mk_povm(g, S, 3)
    b = {"S": mk_state(g, S2), "G": mk_gate(g, S2), "M": mk_mprocess(g, S2, 3), "P": mk_povm(g, S2, 2)}
    ensA = _compose_qoperations(a["M"]["obj"], a["S"]["obj"])
    distA = _compose_qoperations(a["P"]["obj"], a["S"]["obj"])
    for t1, t2 in itertools.product("SGMP", repeat=2):
        for other in (False, True):
            x, y = a[t1]["obj"], (b if other else a)[t2]["obj"]
            try:
                impl = canon(_compose_qoperations(x, y))
            except Exception as e:  # noqa
                impl = ("err", err_kind(e))
            pend.append(("tree", {"pair": t1 + t2, "other_system": other}, impl,
                         drv.ask(*hdr(S), "tree", 2, enc(x), enc(y), "0", "1", "o")))
            ctx.count(f"pair result {impl[0]}:{impl[1] if impl[0] == 'err' else ''}")
            ctx.case(("pair", t1, t2, other), nontrivial=impl[0] != "err")
    for t1 in "SGMP":
        for x, y in ((ensA, a[t1]["obj"]), (a[t1]["obj"], ensA), (b[t1]["obj"], ensA)):
            try:
                impl = canon(_compose_qoperations(x, y))
            except Exception as e:  # noqa
                impl = ("err", err_kind(e))
            pend.append(("tree", {"pair-ens": t1}, impl, drv.ask(*hdr(S), "tree", 2, enc(x), enc(y), "0", "1", "o")))
            ctx.case(("pair-ens", t1, type(x).__name__))
    try:
        compose_qoperations(a["G"]["obj"])
        impl = ("ok",)
    except Exception as e:  # noqa
        impl = ("err", err_kind(e))
    pend.append(("chain", "single element", impl, drv.ask(*hdr(S), "chain", enc(a["G"]["obj"]))))

    # --- to_povm, generate_mprocess(2), truncate_and_normalize
    for kind in (["qubit", "qutrit"] if ctx.quick else ["qubit", "qutrit", "2qubit"]):
        S = get_sys(kind)
        for t in range(6 if ctx.quick else 30):
            m = 2 + t % 3
            M = mk_mprocess(g, S, m)["obj"]
            try:
                impl = list(np.concatenate(M.to_povm().vecs))
            except Exception as e:  # noqa
                impl = [float("nan")]
            pend.append(("topovm", {"kind": kind, "m": m}, impl,
                         drv.ask(*hdr(S), "topovm", m, qlist(np.concatenate([h.flatten() for h in M.hss])))))
            P = mk_povm(g, S, m)["obj"]
            sts = [mk_state(g, S)["obj"] for _ in range(m)]
            M2 = P.generate_mprocess(mode_backaction=2, post_selected_states=sts)
            pend.append(("gen2list", {"kind": kind, "m": m}, list(np.concatenate([h.flatten() for h in M2.hss])),
                         drv.ask(*hdr(S), "gen2list", m, qlist(np.concatenate([s.vec for s in sts])),
                                 qlist(np.concatenate(P.vecs)))))
            M3 = P.generate_mprocess(mode_backaction=2, post_selected_states=sts[0])
            pend.append(("gen2", {"kind": kind, "m": m}, list(np.concatenate([h.flatten() for h in M3.hss])),
                         drv.ask(*hdr(S), "gen2", m, qlist(sts[0].vec), qlist(np.concatenate(P.vecs)))))
            ctx.case(("kernels", kind, t))
    for t in range(20 if ctx.quick else 200):
        k = 2 + t % 4
        p = g.integers(0, 20, size=k).astype(float)
        if t % 5 == 0:
            p[:] = 0
        if p.sum() > 0:
            p = p / p.sum()
        if t % 3 == 1:
            p[int(g.integers(0, k))] = 1e-15
        if t % 7 == 2:
            p[int(g.integers(0, k))] = -1e-3
        eps = [None, 1e-13, 1e-3][t % 3]
        with np.errstate(all="ignore"):
            r = matrix_util.truncate_and_normalize(p.copy(), eps) if eps is not None else matrix_util.truncate_and_normalize(p.copy())
        impl = ("err", "nanDist") if np.any(np.isnan(r)) else ("ok", list(r))
        pend.append(("truncnorm", {"p": p.tolist(), "eps": eps}, impl,
                     drv.ask(4, 2, q(atol), "truncnorm", q(atol if eps is None else eps), qlist(p))))
        ctx.case(("truncnorm", tuple(p), eps), nontrivial=impl[0] == "ok")

    # --- generate_mprocess(mode 1): spectral step (rows of the eigh matrix, grouping of equal eigenvalues) on real
    #     symmetric POVM elements; `eigh` results are passed to the model as parameters
    for kind in ("qubit", "qutrit"):
        S = get_sys(kind)
        d = S.d
        for t in range(4 if ctx.quick else 25):
            o, _ = np.linalg.qr(g.standard_normal((d, d)))
            lam = np.sort(g.uniform(0.05, 0.95, size=d))
            if t % 4 == 3:
                lam = np.round(lam * 4) / 4 + 0.125      # dyadic, repeated values likely
            E = o @ np.diag(lam) @ o.T
            E = (E + E.T) / 2
            try:
                P = Povm(S.c, [S.vec(E), S.vec(np.eye(d) - E)], is_physicality_required=False)
                mats = P.matrices_with_sparsity()
                back = P.generate_mprocess(1).to_povm()
            except Exception as e:  # noqa
                ctx.count("mode1 skipped (raises)")
                continue
            for x, mat in enumerate(mats):
                w, v = np.linalg.eigh(np.array(mat))
                if np.max(np.abs(v.imag)) > 0:
                    ctx.count("mode1 skipped (complex eigenvectors)")
                    continue
                impl = list(S.mat(back.vecs[x]).real.flatten())
                pend.append(("mode1", {"kind": kind, "t": t, "x": x}, impl,
                             drv.ask(*hdr(S), "mode1", d, qlist(w), qlist(v.real.flatten()))))
                ctx.case(("mode1", kind, t, x), sample={"op": "mode1", "system": kind})
                ctx.count("mode1 spectral step")
    out = drv.run()
    for op, inp, impl, i in pend:
        ctx.corr_ops.add(op)
        line = out[i]
        if op in ("tree", "chain"):
            model = parse_reply(line)
            if impl == ("ok",) or not same(impl, model):
                ctx.disagree(op, inp, _short(impl), line[:300])
        elif op == "truncnorm":
            if impl[0] == "err":
                ok = line == "err nanDist"
            else:
                ok = line.startswith("ok ") and allclose(impl[1], [float(x) for x in unqlist(line.split()[1])], TOL)
            if not ok:
                ctx.disagree(op, inp, impl, line[:300])
        else:
            ok = line.startswith("ok ") and allclose(impl, [float(x) for x in unqlist(line.split()[1])], TOL)
            if not ok:
                ctx.disagree(op, inp, impl[:8], line[:300])


def _short(c):
    if c[0] == "err":
        return c
    return (c[0], c[1], [round(float(x), 6) for x in c[2][:12]])


# ----------------------------------------------------------------------------- oracle
def check_against_sem(S, obj, sem, tol=1e-7):
    """compare an implementation result with the reference semantics; returns None or (aspect, text)"""
    if sem.kind == "inst" and sem.is_gate:
        if type(obj) != Gate:
            return ("type", f"expected Gate, got {type(obj).__name__}")
        if not np.allclose(obj.hs, S.hs(sem.items[0]), atol=tol):
            return ("value", "HS matrix differs from the product of the Kraus operators")
        return None
    if sem.kind == "inst":
        if type(obj) != MProcess:
            return ("type", f"expected MProcess, got {type(obj).__name__}")
        if tuple(obj.shape) != sem.shape:
            return ("shape", f"reported shape {tuple(obj.shape)}, time-ordered (earlier, later) shape {sem.shape}")
        if len(obj.hss) != len(sem.items) or not all(np.allclose(h, S.hs(ks), atol=tol) for h, ks in zip(obj.hss, sem.items)):
            return ("value", "HS list differs from Kraus products laid out as the reported shape says")
        return None
    if sem.kind == "ens" and sem.is_state:
        if type(obj) != State:
            return ("type", f"expected State, got {type(obj).__name__}")
        if not np.allclose(S.mat(obj.vec), sem.items[0], atol=tol):
            return ("value", "state differs from sum_k K rho K^dagger")
        return None
    if sem.kind == "ens":
        if type(obj) != StateEnsemble:
            return ("type", f"expected StateEnsemble, got {type(obj).__name__}")
        d = obj.prob_dist
        if tuple(d.shape) != sem.shape:
            return ("shape", f"reported shape {tuple(d.shape)}, time-ordered shape {sem.shape}")
        ps = np.array([np.trace(r).real for r in sem.items])
        if len(d.ps) != len(ps) or not np.allclose(d.ps, ps, atol=tol):
            return ("value", f"probabilities {np.round(d.ps, 5).tolist()} differ from tr(K rho K^dagger) {np.round(ps, 5).tolist()}")
        for x, (st, r, p) in enumerate(zip(obj.states, sem.items, ps)):
            if p > 1e-5:
                if not np.allclose(S.mat(st.vec), r / p, atol=tol / p * 1e-2 + tol):
                    return ("value", f"post-measurement state of outcome {x} is not K rho K^dagger / p")
                if abs(np.sqrt(S.d) * st.vec[0] - 1) > 1e-6:
                    return ("value", f"post-measurement state of outcome {x} is not normalised")
            elif p < 1e-12 and np.max(np.abs(st.vec)) > 1e-9:
                return ("value", f"zero-probability outcome {x} does not carry the zero state")
        if abs(np.sum(d.ps) - 1) > 1e-7:
            return ("value", "probabilities do not sum to 1")
        # look-up by outcome label: the tuple (x_earlier, ..., x_later) addresses the row-major entry of both the
        # probabilities and the post-measurement states
        if len(sem.shape) >= 1:
            for k, idx in enumerate(np.ndindex(*sem.shape)):
                lab = tuple(int(i) for i in idx)
                try:
                    st = obj.state(lab)
                    pl = d[lab]
                except Exception as e:  # noqa
                    return ("label", f"look-up by outcome label {lab} raises {type(e).__name__}: {e}")
                if st is not obj.states[k] and not np.array_equal(st.vec, obj.states[k].vec):
                    return ("label", f"state({lab}) of an ensemble of shape {sem.shape} is not the post-measurement state of "
                                     f"outcome {lab} (row-major entry {k})")
                if pl != d.ps[k]:
                    return ("label", f"prob_dist[{lab}] of shape {sem.shape} is not the row-major entry {k}")
                if type(obj.state(k)) != State or obj.state(k) is not obj.states[k]:
                    return ("label", f"state({k}) (int look-up) is not the {k}-th state")
        return None
    if sem.kind == "povm":
        if type(obj) != Povm:
            return ("type", f"expected Povm, got {type(obj).__name__}")
        if len(obj.vecs) != len(sem.items) or not all(np.allclose(S.mat(v), e, atol=tol) for v, e in zip(obj.vecs, sem.items)):
            return ("value", "POVM elements differ from the Heisenberg-picture elements sum_k K^dagger Pi K in (earlier, later) order")
        return None
    if sem.kind == "dist":
        if type(obj) != MultinomialDistribution:
            return ("type", f"expected MultinomialDistribution, got {type(obj).__name__}")
        if tuple(obj.shape) != sem.shape:
            return ("shape", f"reported shape {tuple(obj.shape)}, time-ordered shape {sem.shape}")
        ps = np.array(sem.items)
        if len(obj.ps) != len(ps) or not np.allclose(obj.ps, ps, atol=tol):
            return ("value", f"distribution {np.round(obj.ps, 5).tolist()} differs from Born probabilities {np.round(ps, 5).tolist()}")
        if np.any(np.asarray(obj.ps) < 0) or abs(np.sum(obj.ps) - 1) > 1e-7:
            return ("value", "distribution is not non-negative with unit sum")
        return None
    return ("type", "no reference")


TNAME = {State: "State", Gate: "Gate", Povm: "Povm", MProcess: "MProcess", StateEnsemble: "StateEnsemble",
         MultinomialDistribution: "MultinomialDistribution"}


def physical_out(obj):
    if type(obj) in (State, Gate, Povm, MProcess):
        return bool(obj.is_physical(1e-9, 1e-9))
    if type(obj) == StateEnsemble:
        return all(bool(s.is_physical(1e-7, 1e-7)) for s, p in zip(obj.states, obj.prob_dist.ps) if p > 1e-5)
    return True


def oracle_tree(ctx, S, br, leaves, rep, seen):
    """evaluate one bracketing node by node on the real code against the reference semantics.
    Returns (impl object or None, sem or None); None = an upstream node already failed."""
    if isinstance(br, int):
        return leaves[br]["obj"], leaves[br]["sem"]
    a, sa = oracle_tree(ctx, S, br[0], leaves, rep, seen)
    b, sb = oracle_tree(ctx, S, br[1], leaves, rep, seen)
    if a is None or b is None:
        return None, None
    pair = f"{TNAME.get(type(a), '?')}-{TNAME.get(type(b), '?')}"
    sem = sem_compose(sa, sb)
    r = dict(rep, node=tree_str(br), pair=pair)
    try:
        obj = _compose_qoperations(a, b)
    except Exception as e:  # noqa
        ctx.violate(f"C06/compose/{pair}/raises", f"{type(e).__name__}: {e} (bracketing {tree_str(br)} of {rep['types']})", r)
        return None, None
    bad = check_against_sem(S, obj, sem)
    if bad is not None:
        ctx.violate(f"C06/compose/{pair}/{bad[0]}",
                    f"{bad[1]} (node {tree_str(br)} of chain {rep['types']} on {rep['kind']}, "
                    f"outcome counts {rep['counts']})", r)
        return None, None
    if not physical_out(obj):
        ctx.violate(f"C06/compose/{pair}/physical", f"physical operands, non-physical result at node {tree_str(br)}", r)
        return None, None
    return obj, sem


PARTIAL = [
    {"theorem": "compose_assoc_mprocess_partial (M1∘M2)∘ρ = M1∘(M2∘ρ)", "missing": "exact only in the no-truncation regime: the composite renormalises over all joint outcomes, the step-by-step evaluation inside each earlier outcome's block (witness compose_assoc_mprocess_truncation_fails, equal eps_zero = 1/7); the difference is bounded by the truncated mass — inherent to thresholding, not recorded as a defect"},
    {"theorem": "bracketing on the executed path", "missing": "tree_eval_instruments / tree_bracketing_instruments / composeChain_eq_rightNested cover every chain of gates and measurement processes on Tree.eval / composeChain (outcome maps, layout, shape; eps_zero of the result = largest eps_zero in the chain, not stated); chains of gates ending in a state: gate_chain_state_bracketing (any length); chains with measurement processes before a state or starting with a POVM have the exact triples (assoc_*), the forStates-level lemmas and ensemble_step_partial / compose_assoc_mprocess_partial, not one ∀-length theorem on compose"},
    {"theorem": "mprocess_state_partial", "missing": "closed formulas HS_x rho / p_x, weight*p_x are for the no-truncation regime; the eps_zero branch: mprocess_state_exact (definitional closed form) + truncated_probs_sum, truncated_weighted_state, post_states_normalised"},
    {"theorem": "ensemble_step_partial / compose_assoc_mprocess_partial / assoc_povm_mprocess_state_partial", "missing": "no-truncation regime, zero-distribution branch not covered; stated on forStates / bornRaw (unnormalised states, raw weights); mpState is reached by mpState_generic_partial, mpEnsemble / povmEnsemble through C16.ctor are not; peShape is generated but only the correspondence ties it"},
    {"theorem": "Born distribution", "missing": "born_sum_one, born_nonneg are about bornRaw, truncNorm_sum_one / truncNorm_nonneg / truncNorm_generic about truncate_and_normalize; povm_state_generic assembles povmState = ctor ∘ bornRaw for identity-sum POVM / unit-trace state / no weight below atol; the truncating case only through truncNorm_sum_one / truncNorm_nonneg"},
    {"theorem": "a gate acts through its Kraus operators", "missing": "gate_state_kraus proves it for an HS matrix given as the HS of the Kraus operators (any basis, any dimension); that to_kraus_matrices returns such operators is C02's conversion, checked here by oracle_kraus on the real code only"},
    {"theorem": "mode1_to_povm_partial", "missing": "real eigenvector matrices, pairwise different eigenvalues, fold form of the spectral sum (not identified with eighRecon); repeated eigenvalues, the complex case, mode1Apply and mode 0 (sqrtm, D14 open) are covered by correspondence / oracle only"},
    {"theorem": "compose_physical", "missing": "only the equality parts (tp_comp_tp, povm_gate_identity_sum, povm_mprocess_identity_sum, mprocess_prob_sum_one); sumtp_mpMp; complete positivity of compositions is not proved"},
]


def oracle(ctx, volume=1):
    ctx.partial = PARTIAL
    g = ctx.npgen(2)
    for kind, length, family, t in chain_plan(ctx, volume):
        S = get_sys(kind)
        st = g.bit_generator.state
        types, leaves = gen_chain(g, S, length, family, t)
        counts = [len(l["sem"].items) for l in leaves]
        brs = trees(0, length)
        if kind == "2qubit":
            brs = brs[:3] + brs[-2:]
        rep = {"system": kind, "length": length, "family": family, "t": t, "types": "".join(types),
               "counts": counts, "seed": ctx.seed, "tier": ctx.tier, "volume": volume}
        rep["kind"] = kind
        results = []
        fold_ok = False
        for br in brs:
            if near_threshold(ref_probs(br, leaves)):
                continue
            obj, sem = oracle_tree(ctx, S, br, leaves, dict(rep, tree=tree_str(br), replay_kind="chain"), set())
            ctx.case(("oracle", kind, "".join(types), tree_str(br), t, family), nontrivial=length > 2,
                     sample={"op": "oracle chain", "types": "".join(types), "bracketing": tree_str(br), "counts": counts})
            if obj is not None:
                results.append((br, canon(obj)))
                fold_ok = fold_ok or br == right_nested(length)
        # cross-bracketing agreement of everything that passed (redundant with the reference, kept as the property states it)
        for (b1, c1), (b2, c2) in zip(results, results[1:]):
            d1, d2 = tuple(c1[1]), tuple(c2[1])
            if c1[0] == "D" and c2[0] == "D":
                # Povm∘MProcess yields a flat Povm: the serial (row-major) labelling is what must agree
                d1, d2 = (int(np.prod(d1[0])), d1[1]), (int(np.prod(d2[0])), d2[1])
            if c1[0] != c2[0] or d1 != d2 or not allclose(c1[2], c2[2], 1e-6):
                ctx.violate("C06/compose/bracketings/disagree",
                            f"bracketings {tree_str(b1)} and {tree_str(b2)} of {''.join(types)} differ",
                            dict(rep, tree=tree_str(b1), tree2=tree_str(b2), replay_kind="chain"))
        # the public fold
        try:
            # (only when the same bracketing passed node by node: otherwise the failure is already attributed)
            if fold_ok and not near_threshold(ref_probs(right_nested(length), leaves)):
                full = compose_qoperations(*[l["obj"] for l in leaves])
                semf = leaves[-1]["sem"]
                for l in reversed(leaves[:-1]):
                    semf = sem_compose(l["sem"], semf)
                bad = check_against_sem(S, full, semf)
                if bad:
                    ctx.violate(f"C06/compose_qoperations/fold/{bad[0]}", bad[1], dict(rep, replay_kind="chain", tree="fold"))
        except Exception as e:  # noqa
            ctx.violate("C06/compose_qoperations/fold/raises", f"{type(e).__name__}: {e}", dict(rep, replay_kind="chain", tree="fold"))
    oracle_generate(ctx, volume)
    oracle_truncation(ctx, volume)
    oracle_kraus(ctx, volume)
    oracle_eps_zero(ctx, volume)
    oracle_rare_branch(ctx, volume)
    oracle_list_args(ctx)


def oracle_list_args(ctx):
    """list arguments are flattened: compose_qoperations([a, b], c) == compose_qoperations(a, b, c)"""
    g = ctx.npgen(5)
    S = get_sys("qubit")
    a, b, c = mk_gate(g, S)["obj"], mk_mprocess(g, S, 3)["obj"], mk_state(g, S)["obj"]
    x = canon(compose_qoperations([a, b], c))
    y = canon(compose_qoperations(a, b, c))
    z = canon(compose_qoperations(a, compose_qoperations(b, c)))
    if not (same(x, y) and same(y, z)):
        ctx.violate("C06/compose_qoperations/list-args", "list arguments are not flattened in order", {"replay_kind": "list"})


def spectral_groups(mat, tol=1e-9):
    w, v = np.linalg.eigh(mat)
    groups = []
    for lam, vec in zip(w, v.T):
        if groups and abs(groups[-1][0] - lam) < tol:
            groups[-1][1].append(vec)
        else:
            groups.append([lam, [vec]])
    return [(lam, sum(np.outer(x, x.conj()) for x in vs)) for lam, vs in groups]


def psd_sqrt(mat):
    w, v = np.linalg.eigh(mat)
    return (v * np.sqrt(np.clip(w, 0, None))) @ v.conj().T


def povm_families(g, S, t):
    """(name, list of effect matrices): generic full rank, rank one, projective tilted real, projective complex"""
    d = S.d
    fam = t % 5
    if fam == 0:
        return "full-rank", qobj.rand_povm_mats(g, d, 2 + t % 3)
    if fam == 1:
        return "rank-one", qobj.rand_povm_mats(g, d, d + t % 2, 1)
    u = qobj.rand_unitary(g, d)
    if fam == 2:      # real orthogonal eigenbasis (tilted projective measurement)
        a = g.standard_normal((d, d))
        u, _ = np.linalg.qr(a)
        u = u.astype(np.complex128)
    if fam == 4 and d == 2:   # y measurement
        u = np.array([[1, 1], [1j, -1j]]) / np.sqrt(2)
    if fam == 3 and d > 2:    # degenerate projectors (rank 2 + rank 1 ...)
        return "projective-degenerate", [np.outer(u[:, 0], u[:, 0].conj()) + np.outer(u[:, 1], u[:, 1].conj())] + \
               [np.outer(u[:, i], u[:, i].conj()) for i in range(2, d)]
    return ["", "", "projective-real", "projective-complex", "projective-y"][fam], \
        [np.outer(u[:, i], u[:, i].conj()) for i in range(d)]


def oracle_generate(ctx, volume=1):
    """generate_mprocess(mode) round trip with to_povm, Born consistency, Lüders / spectral / prepared post states"""
    g = ctx.npgen(3)
    kinds = ["qubit", "qutrit"] if ctx.quick else ["qubit", "qutrit", "2qubit"]
    for kind in kinds:
        for t in range((10 if ctx.quick else 50) * volume):
            # every second POVM lives on a fresh composite system whose first computational-basis request is a
            # read-only query in the other memory layout (results must not depend on earlier queries)
            if t % 2 == 1 and kind != "2qubit":
                S = Sys(kind)
                S.c.comp_basis(mode=["column_major", "row_major"][(t // 2) % 2])
            else:
                S = get_sys(kind)
            name, mats = povm_families(g, S, t)
            m = len(mats)
            rho = qobj.rand_density(g, S.d)
            state = State(S.c, S.vec(rho))
            posts = [qobj.rand_density(g, S.d) for _ in range(m)]
            try:
                P = Povm(S.c, [S.vec(e) for e in mats])
            except Exception as e:  # noqa
                ctx.violate("C06/generate/povm-ctor", f"{type(e).__name__}: {e}", {"replay_kind": "generate", "system": kind, "t": t})
                continue
            for mode in (0, 1, 2):
                rep = {"replay_kind": "generate", "system": kind, "t": t, "mode": mode, "family": name,
                       "povm": [e.tolist() for e in mats] if S.d <= 3 else None, "volume": volume}
                sig = f"C06/generate_mprocess/mode{mode}"
                singular = any(np.linalg.eigvalsh(e)[0] < 1e-9 for e in mats)
                # mode 0 goes through scipy.linalg.sqrtm, whose accuracy collapses on singular matrices: separate input class
                sfx = "/singular" if (mode == 0 and singular) else ""
                # mode 1 groups eigenvalues by exact float equality: elements with a (numerically) repeated eigenvalue
                # are a separate input class
                if mode == 1 and any(np.min(np.diff(np.linalg.eigvalsh(e))) < 1e-9 for e in mats):
                    sfx = "/degenerate"
                ctx.case(("generate", kind, t, mode, name), sample={"op": "generate_mprocess", "mode": mode, "family": name})
                ctx.count(f"generate {name} mode={mode}")
                try:
                    if mode == 2:
                        M = P.generate_mprocess(2, [State(S.c, S.vec(r)) for r in posts])
                    else:
                        M = P.generate_mprocess(mode)
                except Exception as e:  # noqa
                    ctx.violate(f"{sig}/raises{sfx}", f"{type(e).__name__}: {e} on a {name} POVM ({kind}, {m} outcomes)", rep)
                    continue
                try:
                    back = M.to_povm()
                except Exception as e:  # noqa
                    ctx.violate("C06/to_povm/raises", f"{type(e).__name__}: {e} (measurement process from generate_mprocess({mode}), {name})", rep)
                    continue
                if len(back.vecs) != m or not all(np.allclose(a, b, atol=1e-7) for a, b in zip(back.vecs, P.vecs)):
                    err = max(np.max(np.abs(a - b)) for a, b in zip(back.vecs, P.vecs))
                    ctx.violate(f"{sig}/to_povm{sfx}", f"to_povm(generate_mprocess({mode})) differs from the POVM by {err:.3g} "
                                f"({name}, {kind})", rep)
                    continue
                if not M.is_physical(1e-8, 1e-8):
                    ctx.violate(f"{sig}/physical{sfx}", f"generated measurement process is not physical ({name})", rep)
                    continue
                # action on a state
                try:
                    ens = compose_qoperations(M, state)
                    dist = compose_qoperations(P, state)
                except Exception as e:  # noqa
                    ctx.violate(f"{sig}/compose-raises{sfx}", f"{type(e).__name__}: {e}", rep)
                    continue
                if not np.allclose(ens.prob_dist.ps, dist.ps, atol=1e-7):
                    ctx.violate(f"{sig}/born{sfx}", "probabilities of M∘ρ differ from those of Π∘ρ", rep)
                    continue
                for x, e in enumerate(mats):
                    p = np.trace(e @ rho).real
                    if p < 1e-5:
                        continue
                    if mode == 0:
                        s = psd_sqrt(e)
                        ref = s @ rho @ s / p
                    elif mode == 1:
                        ref = sum(lam * pr @ rho @ pr for lam, pr in spectral_groups(e)) / p
                    else:
                        ref = posts[x]
                    got = S.mat(ens.states[x].vec)
                    if mode == 1 and np.min(np.diff(np.linalg.eigvalsh(e))) < 1e-9:
                        # inside a degenerate eigenspace the property does not prescribe which post state mode 1 yields
                        # (the code groups repeated eigenvalues by exact float equality): only normalisation and
                        # positivity are required there; a deviation from P rho P / p is an observation, not a violation
                        w = np.linalg.eigvalsh((got + got.conj().T) / 2)
                        if abs(np.trace(got).real - 1) > 1e-7 or w[0] < -1e-8:
                            ctx.violate(f"{sig}/post-state-unphysical", f"post-measurement state of outcome {x} is not a normalised PSD matrix ({name})", rep)
                            break
                        if not np.allclose(got, ref, atol=1e-6):
                            note = ("generate_mprocess(1): for an element with a repeated eigenvalue the post state is "
                                    "sum_i |v_i><v_i| rho |v_i><v_i| / p over eigh's eigenbasis, not P rho P / p (exact-equality grouping)")
                            if note not in ctx.notes:
                                ctx.notes.append(note)
                            ctx.count("observation mode1 degenerate post state")
                        continue
                    if not np.allclose(got, ref, atol=1e-6):
                        ctx.violate(f"{sig}/post-state{sfx}", f"post-measurement state of outcome {x} differs from the mode-{mode} definition ({name})", rep)
                        break



def structured_gates(g, S):
    """textbook gates with exactly-zero matrix entries (as Kraus lists), next to random ones"""
    d = S.d
    out = []
    if d == 2:
        X = np.array([[0, 1], [1, 0]], dtype=complex)
        Y = np.array([[0, -1j], [1j, 0]])
        Z = np.diag([1, -1]).astype(complex)
        H = np.array([[1, 1], [1, -1]], dtype=complex) / np.sqrt(2)
        out += [("X", [X]), ("Y", [Y]), ("Z", [Z]), ("H", [H]),
                ("pauli-channel", [np.sqrt(0.3) * X, np.sqrt(0.7) * Y]),
                ("amplitude-damping", [np.array([[1, 0], [0, np.sqrt(0.6)]], dtype=complex), np.array([[0, np.sqrt(0.4)], [0, 0]], dtype=complex)])]
    elif d == 3:
        shift = np.roll(np.eye(3), 1, axis=0).astype(complex)
        out += [("cyclic-shift", [shift]), ("shift-squared", [shift @ shift]),
                ("dephasing", [np.diag([1, 0, 0]).astype(complex), np.diag([0, 1, 0]).astype(complex), np.diag([0, 0, 1]).astype(complex)])]
    elif d == 4:
        X = np.array([[0, 1], [1, 0]], dtype=complex)
        cnot = np.eye(4)[[0, 1, 3, 2]].astype(complex)
        out += [("X(x)U", [np.kron(X, qobj.rand_unitary(g, 2))]), ("CNOT", [cnot]), ("SWAP", [np.eye(4)[[0, 2, 1, 3]].astype(complex)])]
    out += [("random-unitary", [qobj.rand_unitary(g, d)]), ("random-channel", qobj.rand_kraus(g, d, 1, 2)[0])]
    return out


def oracle_kraus(ctx, volume=1):
    """"a gate acts on a state through its Kraus operators": the Kraus operators the objects report (`to_kraus_matrices`)
    reproduce `compose(G, rho)` / the outcome branches of `compose(M, rho)` and are jointly trace preserving"""
    g = ctx.npgen(9)
    for kind in (["qubit", "qutrit"] if ctx.quick and volume == 1 else ["qubit", "qutrit", "2qubit"]):
        S = get_sys(kind)
        rho = qobj.rand_density(g, S.d)
        st = State(S.c, S.vec(rho))
        for name, ks in structured_gates(g, S):
            rep = {"replay_kind": "kraus", "system": kind, "gate": name, "volume": volume}
            ctx.case(("kraus", kind, name), sample={"op": "kraus action", "system": kind, "gate": name})
            ctx.count(f"kraus {name}")
            try:
                G = Gate(S.c, S.hs(ks))
                with np.errstate(all="ignore"):
                    got = G.to_kraus_matrices()
                out = compose_qoperations(G, st)
            except Exception as e:  # noqa
                ctx.violate("C06/kraus/Gate/raises", f"{type(e).__name__}: {e} for the gate {name} on {kind}", rep)
                continue
            got = [np.asarray(k) for k in got]
            if not got or not all(np.all(np.isfinite(k)) for k in got):
                ctx.violate("C06/kraus/Gate/not-finite", f"to_kraus_matrices() of the gate {name} ({kind}) is not finite", rep)
                continue
            act = sum(k @ rho @ k.conj().T for k in got)
            tp = sum(k.conj().T @ k for k in got)
            if not np.allclose(act, S.mat(out.vec), atol=1e-7) or not np.allclose(act, sum(k @ rho @ k.conj().T for k in ks), atol=1e-7):
                ctx.violate("C06/kraus/Gate/action", f"sum_k K rho K^dagger with K = to_kraus_matrices() differs from compose(G, rho) for {name} ({kind})", rep)
            elif not np.allclose(tp, np.eye(S.d), atol=1e-7):
                ctx.violate("C06/kraus/Gate/tp", f"Kraus operators of {name} ({kind}) are not jointly trace preserving", rep)
            # the same gate after a measurement: Kraus operators of every outcome branch
            try:
                M = _compose_qoperations(G, mk_mprocess(g, S, 2)["obj"])
                ens = compose_qoperations(M, st)
                for x in range(len(M.hss)):
                    with np.errstate(all="ignore"):
                        kx = [np.asarray(k) for k in M.to_kraus_matrices(x)]
                    br = sum(k @ rho @ k.conj().T for k in kx) if kx else np.zeros((S.d, S.d))
                    p = ens.prob_dist.ps[x]
                    if not np.all(np.isfinite(br)) or abs(np.trace(br).real - p) > 1e-7 or \
                            (p > 1e-5 and not np.allclose(br / p, S.mat(ens.states[x].vec), atol=1e-6)):
                        ctx.violate("C06/kraus/MProcess/action", f"outcome {x}: Kraus operators of ({name} after a measurement) do not "
                                    f"reproduce probability / post state ({kind})", rep)
                        break
            except Exception as e:  # noqa
                ctx.violate("C06/kraus/MProcess/raises", f"{type(e).__name__}: {e} ({name} after a measurement, {kind})", rep)



def oracle_eps_zero(ctx, volume=1):
    """a measurement process constructed with a non-default `eps_zero`: the composites M∘G, G∘M, M∘M must keep treating
    its outcomes the same way (all bracketings agree), i.e. carry its `eps_zero`"""
    g = ctx.npgen(10)
    S = get_sys("qubit")
    for t in range(2 * volume):
        eps = [1e-4, 1e-3][t % 2]
        c = eps / 100                      # an outcome probability between the default threshold 1e-8 and eps_zero
        groups = [[np.sqrt(c) * qobj.rand_unitary(g, S.d)], [np.sqrt(1 - c) * qobj.rand_unitary(g, S.d)]]
        M = mk_mprocess(g, S, 2, groups=groups, eps_zero=eps)["obj"]
        G = mk_gate(g, S, unitary=True)["obj"]
        st = mk_state(g, S)["obj"]
        rep = {"replay_kind": "eps_zero", "t": t, "eps_zero": eps, "outcome_probability": c, "volume": volume}
        ctx.case(("eps_zero", t), sample={"op": "non-default eps_zero", "eps_zero": eps, "p": c})
        sig = "C06/compose/eps_zero-dropped"
        try:
            MG, GM, MM = _compose_qoperations(M, G), _compose_qoperations(G, M), _compose_qoperations(M, M)
            pairs = [("(M∘G)∘ρ vs M∘(G∘ρ)", _compose_qoperations(MG, st), _compose_qoperations(M, _compose_qoperations(G, st))),
                     ("(G∘M)∘ρ vs G∘(M∘ρ)", _compose_qoperations(GM, st), _compose_qoperations(G, _compose_qoperations(M, st)))]
        except Exception as e:  # noqa
            ctx.violate("C06/compose/eps_zero/raises", f"{type(e).__name__}: {e}", rep)
            continue
        bad = [n for n, o in (("M∘G", MG), ("G∘M", GM), ("M∘M", MM)) if o.eps_zero != eps]
        diff = [n for n, a, b in pairs if tuple(a.prob_dist.shape) != tuple(b.prob_dist.shape)
                or not np.allclose(a.prob_dist.ps, b.prob_dist.ps, atol=1e-9)
                or not all(np.allclose(x.vec, y.vec, atol=1e-7) for x, y in zip(a.states, b.states))]
        if bad or diff:
            ctx.violate(sig, f"MProcess with eps_zero={eps} and an outcome of probability {c}: composites {bad} carry the default "
                             f"eps_zero; bracketings that disagree: {diff}", rep)



def oracle_rare_branch(ctx, volume=1):
    """a user-built StateEnsemble (constructor defaults) with a rare but far-from-negligible branch (weight 1e-6 ≫ the
    1e-8 threshold): a POVM, a gate and a measurement process applied to it must keep that branch's statistics"""
    g = ctx.npgen(11)
    S = get_sys("qubit")
    for t in range(2 * volume):
        wt = [1e-6, 3e-5][t % 2]
        rhos = [qobj.rand_density(g, S.d), qobj.rand_density(g, S.d)]
        ens = StateEnsemble([State(S.c, S.vec(r)) for r in rhos], MultinomialDistribution(np.array([wt, 1 - wt]), shape=(2,)))
        P, G = mk_povm(g, S, 3), mk_gate(g, S, unitary=True)
        rep = {"replay_kind": "rare-branch", "t": t, "weight": wt, "volume": volume}
        ctx.case(("rare-branch", t), sample={"op": "rare ensemble branch", "weight": wt})
        ku = G["sem"].items[0][0]
        try:
            d1 = _compose_qoperations(P["obj"], ens)
            d2 = _compose_qoperations(P["obj"], _compose_qoperations(G["obj"], ens))
        except Exception as e:  # noqa
            ctx.violate("C06/compose/StateEnsemble-rare-branch/raises", f"{type(e).__name__}: {e}", rep)
            continue
        ws = [wt, 1 - wt]
        ref1 = np.array([w * np.trace(e @ r).real for w, r in zip(ws, rhos) for e in P["sem"].items])
        ref2 = np.array([w * np.trace(e @ ku @ r @ ku.conj().T).real for w, r in zip(ws, rhos) for e in P["sem"].items])
        for name, d, ref in (("Povm∘E", d1, ref1), ("Povm∘(Gate∘E)", d2, ref2)):
            if tuple(d.shape) != (2, 3) or not np.allclose(d.ps, ref, atol=1e-10, rtol=1e-6):
                ctx.violate("C06/compose/StateEnsemble-rare-branch/value",
                            f"{name}: the branch of weight {wt} lost its statistics ({np.array(d.ps)[:3]} instead of {ref[:3]})", rep)
                break


def oracle_truncation(ctx, volume=1):
    """zero / tiny probabilities: normalised post states for every surviving outcome, zero state otherwise"""
    g = ctx.npgen(4)
    S = get_sys("qubit")
    for t in range((6 if ctx.quick else 30) * volume):
        s1, s2 = mk_state(g, S), mk_state(g, S)
        wt = [2e-8, 5e-8, 0.0][t % 3]
        ens = StateEnsemble([s1["obj"], s2["obj"]], MultinomialDistribution(np.array([wt, 1 - wt]), shape=(2,)))
        # unequal conditional probabilities on the rare branch: one of weight*p falls below eps_zero, the other not
        c = 0.1 + 0.05 * (t % 3)
        groups = [[np.sqrt(c) * qobj.rand_unitary(g, S.d)], [np.sqrt(1 - c) * qobj.rand_unitary(g, S.d)]]
        M = mk_mprocess(g, S, 2, groups=groups)
        rep = {"replay_kind": "truncation", "t": t, "weight": wt, "cond_prob": c, "volume": volume}
        ctx.case(("truncation", t), sample={"op": "MProcess∘StateEnsemble tiny weight", "weight": wt})
        sig = "C06/compose/MProcess-StateEnsemble/truncate-renormalise"
        try:
            out = _compose_qoperations(M["obj"], ens)
        except Exception as e:  # noqa
            ctx.violate(sig, f"{type(e).__name__}: {e} for ensemble weights [{wt}, 1-{wt}] and conditional probabilities [{c}, {1-c}]", rep)
            continue
        for st, p in zip(out.states, out.prob_dist.ps):
            if p > 0 and abs(np.sqrt(S.d) * st.vec[0] - 1) > 1e-6:
                ctx.violate(sig, f"surviving post-measurement state has trace {np.sqrt(S.d) * st.vec[0]:.4f}", rep)
                break
        else:
            ref = np.array([wt * c, wt * (1 - c), (1 - wt) * c, (1 - wt) * (1 - c)])
            if tuple(out.prob_dist.shape) != (2, 2) or not np.allclose(out.prob_dist.ps, ref, atol=3e-8):
                ctx.violate("C06/compose/MProcess-StateEnsemble/value", "joint probabilities off by more than the truncation threshold", rep)


def search(ctx):
    oracle(ctx, volume=3)


# ----------------------------------------------------------------------------- replay
def replay(ctx, data):
    r = data["replay"]
    print("replaying", {k: v for k, v in r.items() if k != "povm"})
    sig = data.get("signature")
    before = len(ctx.violations)
    ctx.seed = r.get("seed", ctx.seed)
    if r.get("tier"):
        ctx.tier = r["tier"]
        ctx.quick = ctx.tier == "quick"
    oracle(ctx, volume=r.get("volume", 1))
    hits = [v for v in ctx.violations[before:] if v["signature"] == sig]
    for v in hits[:3]:
        print("  ", v["signature"], "::", v["what"])
    print("still failing" if hits else "not reproduced")
    return 1 if hits else 0
