"""C09 — linear estimation inverts the forward model: correspondence with QModel.C09 (the coded formula with numpy's
inverse as a parameter, the verified checker `lsqCert`, the exact rational least-squares reference `lsqExact`) and the
property oracle on the real code (exact recovery, normal equations, sequence = pointwise, independence from counts)."""
import numpy as np
import shim  # noqa: F401
from common import Driver, Ctx, q, qlist, unqlist, allclose
import tomo_setups as ts
from quara.protocol.qtomography.standard.linear_estimator import LinearEstimator
from quara.simulation import consistency_check

import ast
import os
import common
import pymat2lean as P2L

TOMO = "quara/protocol/qtomography/standard/"


def translate(ctx):
    """regenerate lean/QGen/C09.lean from the source of LinearEstimator.calc_estimate_sequence / calc_estimate,
    StandardQTomography.is_fullrank_matA and StandardQTomographyEstimationResult.estimated_var / estimated_qoperation:
    the matrix expressions, the tuple component that is read from each (count, distribution) pair, the joining call,
    the guard expression and the sequence indices.  Raises on source it cannot translate."""
    rel = TOMO + "linear_estimator.py"
    tree = P2L.load(os.path.join(common.REPO, rel))
    cls = P2L.find_class(tree, "LinearEstimator", rel)
    fn = P2L.find_func(cls, "calc_estimate_sequence", rel)
    body = P2L.strip_doc(fn.body)
    # --- guard: first statement `if not qtomography.is_fullrank_matA(): raise Exception`
    g = body[0]
    if not (isinstance(g, ast.If) and ast.unparse(g.test) == "not qtomography.is_fullrank_matA()" and len(g.body) == 1
            and isinstance(g.body[0], ast.Raise) and not g.orelse):
        P2L.fail(rel, g, "expected the full-rank guard `if not qtomography.is_fullrank_matA(): raise …` as first statement")
    env = {}
    loop = None
    top = {}
    for st in body[1:]:
        if isinstance(st, ast.Assign) and len(st.targets) == 1 and isinstance(st.targets[0], ast.Name):
            top[st.targets[0].id] = st
        elif isinstance(st, ast.For):
            if loop is not None:
                P2L.fail(rel, st, "more than one loop")
            loop = st
    for name, call, ty in (("A", "qtomography.calc_matA()", ("mat", "m", "n")), ("b", "qtomography.calc_vecB()", ("vec", "m"))):
        if name not in top or ast.unparse(top[name].value) != call:
            P2L.fail(rel, top.get(name, fn), f"expected `{name} = {call}` before the loop")
        env[name] = (name, ty)
    if "A_ddag" not in top:
        P2L.fail(rel, fn, "expected `A_ddag = …` before the loop (computed once for all datasets)")
    ddag, ddag_ty = P2L.mat_expr(top["A_ddag"].value, env, rel)
    ddag_line = top["A_ddag"].lineno
    if loop is None or ast.unparse(loop.iter) != "empi_dists_sequence" or not isinstance(loop.target, ast.Name):
        P2L.fail(rel, loop or fn, "expected `for <x> in empi_dists_sequence:`")
    item = loop.target.id
    inner = {}
    appended = False
    for st in loop.body:
        if isinstance(st, ast.Assign) and len(st.targets) == 1 and isinstance(st.targets[0], ast.Name):
            if st.targets[0].id in ("A", "b", "A_ddag"):
                P2L.fail(rel, st, "forward model / pseudo-inverse reassigned inside the loop")
            inner[st.targets[0].id] = st
        elif isinstance(st, ast.Expr) and ast.unparse(st.value) == "estimate_sequence.append(v)":
            appended = True
        elif isinstance(st, ast.If) and "is_computation_time_required" in ast.unparse(st.test):
            continue
        elif isinstance(st, ast.Expr) and isinstance(st.value, ast.Constant):
            continue
        else:
            P2L.fail(rel, st, "unexpected statement in the estimation loop")
    if not appended:
        P2L.fail(rel, loop, "expected `estimate_sequence.append(v)` in the loop")
    # empi_dists_tmp = [e[k] for e in <item>]
    lc = inner.get("empi_dists_tmp")
    if lc is None or not isinstance(lc.value, ast.ListComp) or len(lc.value.generators) != 1 \
            or ast.unparse(lc.value.generators[0].iter) != item or lc.value.generators[0].ifs \
            or not isinstance(lc.value.elt, ast.Subscript) \
            or ast.unparse(lc.value.elt.value) != ast.unparse(lc.value.generators[0].target):
        P2L.fail(rel, lc or loop, "expected `empi_dists_tmp = [e[k] for e in <dataset>]`")
    comp = P2L.subscript_index(lc.value.elt, rel)
    if comp not in (0, 1):
        P2L.fail(rel, lc, "component index of the (count, distribution) pair must be 0 or 1")
    fj = inner.get("f")
    if fj is None or ast.unparse(fj.value) != "np.concatenate(empi_dists_tmp)":
        P2L.fail(rel, fj or loop, "expected `f = np.concatenate(empi_dists_tmp)`")
    env2 = dict(env)
    env2["A_ddag"] = ("A_ddag", ddag_ty)
    env2["f"] = ("f", ("vec", "m"))
    if "v" not in inner:
        P2L.fail(rel, loop, "expected `v = …` in the loop")
    vexp, v_ty = P2L.mat_expr(inner["v"].value, env2, rel)
    # result = LinearEstimationResult(estimate_sequence, …)
    res = top.get("result")
    if res is None or not isinstance(res.value, ast.Call) or not res.value.args \
            or ast.unparse(res.value.args[0]) != "estimate_sequence":
        P2L.fail(rel, res or fn, "expected `result = LinearEstimationResult(estimate_sequence, …)`")
    # calc_estimate delegates to a sequence of one
    fn1 = P2L.find_func(cls, "calc_estimate", rel)
    calls = [n for n in ast.walk(fn1) if isinstance(n, ast.Call) and ast.unparse(n.func) == "self.calc_estimate_sequence"]
    if len(calls) != 1 or len(calls[0].args) < 2 or ast.unparse(calls[0].args[1]) != "[empi_dists]":
        P2L.fail(rel, fn1, "expected calc_estimate to call self.calc_estimate_sequence(qtomography, [empi_dists], …)")
    # --- the guard itself
    rel2 = TOMO + "standard_qtomography.py"
    t2 = P2L.load(os.path.join(common.REPO, rel2))
    gf = P2L.find_func(P2L.find_class(t2, "StandardQTomography", rel2), "is_fullrank_matA", rel2)
    gb = P2L.strip_doc(gf.body)
    names = {}
    ret = None
    for st in gb:
        if isinstance(st, ast.Assign) and len(st.targets) == 1 and isinstance(st.targets[0], ast.Name):
            names[st.targets[0].id] = st.value
        elif isinstance(st, ast.Return):
            ret = st.value
        else:
            P2L.fail(rel2, st, "unexpected statement in is_fullrank_matA")
    if ast.unparse(names.get("matA", ast.Constant(0))) != "self.calc_matA()" or \
            ast.unparse(names.get("rank", ast.Constant(0))) != "np.linalg.matrix_rank(matA)" or len(names) != 3:
        P2L.fail(rel2, gf, "expected matA = self.calc_matA(); rank = np.linalg.matrix_rank(matA); size = …")
    sz = names.get("size")
    if not (isinstance(sz, ast.Call) and isinstance(sz.func, ast.Name) and sz.func.id in ("min", "max") and len(sz.args) == 1
            and ast.unparse(sz.args[0]) == "matA.shape"):
        if isinstance(sz, ast.Subscript) and ast.unparse(sz.value) == "matA.shape":
            size_lean = {0: "m", 1: "n"}.get(P2L.subscript_index(sz, rel2))
            if size_lean is None:
                P2L.fail(rel2, sz, "unsupported size expression")
        else:
            P2L.fail(rel2, sz or gf, "unsupported size expression")
    else:
        size_lean = f"({sz.func.id} m n)"
    if not (isinstance(ret, ast.Compare) and len(ret.ops) == 1 and isinstance(ret.ops[0], ast.Eq)
            and {ast.unparse(ret.left), ast.unparse(ret.comparators[0])} == {"size", "rank"}):
        P2L.fail(rel2, ret or gf, "expected `return size == rank`")
    # --- estimated_var / estimated_qoperation indices
    rel3 = TOMO + "standard_qtomography_estimator.py"
    t3 = P2L.load(os.path.join(common.REPO, rel3))
    rc = P2L.find_class(t3, "StandardQTomographyEstimationResult", rel3)
    ev = P2L.find_func(rc, "estimated_var", rel3)
    evr = [n for n in ast.walk(ev) if isinstance(n, ast.Return)][0].value
    if not (isinstance(evr, ast.Subscript) and ast.unparse(evr.value) == "self._estimated_var_sequence"):
        P2L.fail(rel3, evr, "expected `return self._estimated_var_sequence[k]`")
    ev_idx = P2L.subscript_index(evr, rel3)
    eq = P2L.find_func(rc, "estimated_qoperation", rel3)
    eqa = [n for n in ast.walk(eq) if isinstance(n, ast.Assign) and ast.unparse(n.targets[0]) == "var"]
    if len(eqa) != 1 or not (isinstance(eqa[0].value, ast.Subscript) and ast.unparse(eqa[0].value.value) == "self._estimated_var_sequence"):
        P2L.fail(rel3, eq, "expected `var = self._estimated_var_sequence[k]`")
    eq_idx = P2L.subscript_index(eqa[0].value, rel3)
    if ev_idx < 0 or eq_idx < 0:
        P2L.fail(rel3, ev, "negative sequence index")
    L = P2L.lean_type
    text = f"""import QModel.C09
/-! GENERATED on every run by harness/c09.py:translate (harness/pymat2lean.py) from the Python sources of quara — do not edit. -/
namespace QGen.C09

/-- {rel}:{ddag_line} `A_ddag = {ast.unparse(top['A_ddag'].value)}` (computed once, before the loop over datasets);
`inv` stands for `np.linalg.inv` -/
def A_ddag {{K : Type}} [Add K] [Mul K] [Zero K] {{m n : Nat}} (inv : QM.Mat K n n → QM.Mat K n n) (A : QM.Mat K m n) :
    {L(ddag_ty)} :=
  {ddag}

/-- {rel}:{inner['v'].lineno} `v = {ast.unparse(inner['v'].value)}` -/
def v {{K : Type}} [Add K] [Mul K] [Sub K] [Zero K] {{m n : Nat}} (A_ddag : {L(ddag_ty)}) (f b : QM.Vec K m) : {L(v_ty)} :=
  {vexp}

/-- {rel}:{lc.lineno} `{ast.unparse(lc.value)}`: the component read from each `(count, distribution)` pair -/
def data_of {{K : Type}} (e : Nat × List K) : List K := e.{comp + 1}

/-- {rel}:{fj.lineno} `f = np.concatenate(empi_dists_tmp)` -/
def join {{K : Type}} (arrs : List (List K)) : Except QM.C09.Err (List K) := QM.C09.concatArrays arrs

/-- {rel2}:{gf.lineno} `is_fullrank_matA`: `size = {ast.unparse(sz)}`, `return {ast.unparse(ret)}`; `m n` = `matA.shape` -/
def is_fullrank (m n rank : Nat) : Bool := {size_lean} == rank

/-- {rel3}:{ev.lineno} `estimated_var` = `_estimated_var_sequence[{ev_idx}]` -/
def estimated_var_index : Nat := {ev_idx}

/-- {rel3}:{eq.lineno} `estimated_qoperation` is generated from `_estimated_var_sequence[{eq_idx}]` -/
def estimated_qoperation_index : Nat := {eq_idx}

end QGen.C09
"""
    P2L.write_if_changed(os.path.join(common.LEAN, "QGen", "C09.lean"), text)
    return []


COND_MAX = 1.0e3          # generators keep cond(A) below this (cond(AᵀA) ≤ 1e6), DESIGN §4-C09
KNOWN_MIXED = "C09/calc_estimate/mixed-outcome-counts/raises"
KNOWN_POST = "C09/circuit/qmpt/small-outcome-probability/post-state-validation-raises"


# ----------------------------------------------------------------------------- configurations
def specs(tier, volume=1):
    """(sys, states-how, povms-how, kind, flag, m) — four tomography types × both flags × complete / over-complete"""
    out = []
    combos_q = [("typical", "typical"), ("typical_over", "typical"), ("random", "random_over"),
                ("random_over", "random_over"), ("typical", "random")]
    quick = tier == "quick" and volume == 1
    for kind in ts.TYPES:
        for flag in (True, False):
            for sh, ph in combos_q:
                for m in ((2, 3) if kind in ("povmt", "qmpt") else (2,)):
                    if kind == "qmpt" and m == 3 and (sh, ph) != ("typical", "typical"):
                        continue
                    out.append(("qubit", sh, ph, kind, flag, m))
            for sh, ph in ([("typical", "typical"), ("random_over", "random_over")] if quick else combos_q[:4]):
                m = 3 if kind == "povmt" else 2
                if quick and kind == "qmpt" and sh != "typical":
                    continue
                out.append(("qutrit", sh, ph, kind, flag, m))
            if flag:                  # physical testers derived with the library's arithmetic (flagged non-validated)
                out.append(("qubit", "derived", "derived", kind, flag, 2))
            if kind != "povmt":       # tester POVMs with different outcome counts (over-complete sets)
                out.append(("qubit", "typical", "mixed", kind, flag, 2))
                out.append(("qubit", "random_over", "mixed", kind, flag, 2))
                if kind == "qst" or not quick:
                    out.append(("qutrit", "typical", "mixed", kind, flag, 2))
            if kind == "qst":          # composite systems whose subsystems have different dimensions
                out.append(("qubit_qutrit", "random", "random_over", kind, flag, 2))
                if not quick or flag:
                    out.append(("qutrit_qubit", "random", "random_over", kind, flag, 2))
            two = [("typical", "typical")] if quick else [("typical", "typical"), ("random_over", "random_over"),
                                                            ("typical_over", "random_over")]
            for sh, ph in two:
                if quick and kind in ("qpt", "qmpt"):
                    continue
                if kind == "qmpt" and sh != "typical":
                    continue
                out.append(("2qubit", sh, ph, kind, flag, 4 if kind == "povmt" else 2))
    return out


class Setup:
    def __init__(self, seed, spec, schedules="all"):
        self.spec = spec
        sysname, sh, ph, kind, flag, m = spec
        self.g = Ctx("C09", "quick", seed).npgen("setup-" + "-".join(str(x) for x in spec))
        self.c_sys = ts.make_csys(sysname)
        self.states, self.rhos = ts.tester_states(self.g, self.c_sys, sysname, sh)
        self.povms, self.pmats = ts.tester_povms(self.g, self.c_sys, sysname, ph)
        self.kind, self.flag, self.m = kind, flag, m
        if schedules == "perm":
            base = ts.default_schedules(kind, len(self.states), len(self.povms))
            idx = list(self.g.permutation(len(base)))
            schedules = [base[i] for i in idx] + [base[idx[0]]]       # permuted, one repeated
        self.qt = ts.build(kind, self.states, self.povms, flag, m, schedules)
        self.schedules = self.qt._experiment.schedules
        # private copies: the harness must not share arrays with the tomography object it is judging
        self.A = np.array(self.qt.calc_matA(), dtype=np.float64, copy=True)
        self.b = np.array(self.qt.calc_vecB(), dtype=np.float64, copy=True)
        self.counts = [self.qt.num_outcomes(i) for i in range(len(self.schedules))]

    def trues(self):
        return ts.true_objects(self.g, self.c_sys, self.kind, self.m, flag=self.flag)

    def split(self, f):
        out, k = [], 0
        for c in self.counts:
            out.append(np.array(f[k:k + c], dtype=np.float64))
            k += c
        return out

    def sampled(self, dist, n):
        out = []
        for p in dist:
            p = np.clip(p, 0, None)
            p = p / p.sum()
            out.append(self.g.multinomial(n, p) / n)
        return out

    def adversarial(self, scale):
        """not normalised, negative entries allowed"""
        f = self.g.standard_normal(len(self.b)) * scale
        f = np.round(f * 1024) / 1024
        return self.split(f)


def with_counts(dists, counts):
    return [(int(c), d) for c, d in zip(counts, dists)]


def err_kind(e):
    m = str(e)
    if isinstance(e, np.linalg.LinAlgError):
        return "singular"
    if type(e) is Exception:
        return "notFullRank"
    if isinstance(e, IndexError):
        return "index"
    if "need at least one array" in m:
        return "emptyData"
    if "must match exactly" in m:
        return "ragged"
    if "broadcast" in m:
        return "shape"
    return type(e).__name__


def seq_text(seq):
    if not seq:
        return "_"
    return "|".join(";".join(f"{c}:{qlist(d)}" for c, d in ds) if ds else "-" for ds in seq)


def vecs_text(vs):
    return ";".join(qlist(v) for v in vs) if len(vs) else "_"


def parse_vecs(s):
    return [] if s == "_" else [[float(x) for x in unqlist(t)] for t in s.split("|")]


def impl_seq(qt, seq):
    try:
        r = LinearEstimator().calc_estimate_sequence(qt, seq)
        return ("ok", [np.array(v, dtype=np.float64) for v in r.estimated_var_sequence])
    except Exception as e:  # noqa
        return ("err", err_kind(e))


def finite(vs):
    return all(np.all(np.isfinite(np.asarray(v, dtype=np.float64))) for v in vs)


def raised(ctx, where, tag, e, what, rep):
    """an unexpected exception from the real code on a property-relevant input is a violation with that input"""
    ctx.violate(f"C09/{where}/{tag}/raises-{type(e).__name__}", f"{type(e).__name__}: {str(e)[:200]} — {what}", rep)


def mat_text(M):
    return qlist(np.asarray(M, dtype=np.float64).flatten())


# ----------------------------------------------------------------------------- correspondence
def correspondence(ctx):
    drv = Driver("C09")
    pend = []
    lim_mirror = 3.0e5 if ctx.quick else 3.0e6      # n·n·m above which the right-associated product is run
    lim_exact = 33 if ctx.quick else 82             # exact rational solve up to this many variables
    lim_rows = 400 if ctx.quick else 1300
    def one(spec, sched):
        S = Setup(ctx.seed, spec, sched)
        A, b = S.A, S.b
        mm, n = A.shape
        if mm > lim_rows:
            ctx.count("corr skipped (too large for the exact model in this tier)")
            return
        cond = np.linalg.cond(A)
        if cond > COND_MAX:
            ctx.count("corr skipped cond>1e3")
            return
        rank = int(np.linalg.matrix_rank(A))
        G = np.linalg.inv(A.T @ A)
        trues = S.trues()
        seq, labels = [], []
        for i, t in enumerate(trues):
            d = ts.born_reference(S.kind, S.rhos, S.pmats, S.schedules, t)
            seq.append(with_counts(d, [1 + 7 * i] * len(d)))
            labels.append("exact-" + t.label)
        d0 = [x[1] for x in seq[0]]
        seq.append(with_counts(S.sampled(d0, 50), [50] * len(d0)))
        labels.append("sampled")
        seq.append(with_counts(S.adversarial(1.0), list(range(len(d0)))))
        labels.append("adversarial")
        seq.append(with_counts(S.adversarial(100.0), [0] * len(d0)))
        labels.append("adversarial-100")
        impl = impl_seq(S.qt, seq)
        rep = {"kind": "setup", "seed": ctx.seed, "spec": list(spec), "sched": sched}
        tag = f"{S.kind}/flag={S.flag}"
        if impl[0] == "ok" and not finite(impl[1]):
            bad = [labels[i] for i, v in enumerate(impl[1]) if not finite([v])]
            ctx.violate(f"C09/calc_estimate_sequence/{tag}/non-finite",
                        f"{spec}: non-finite estimate for datasets {bad} (counts attached: "
                        f"{[[c for c, _ in seq[labels.index(x)]][:4] for x in bad]})", rep)
            return
        again = impl_seq(S.qt, seq)        # the same tomography object, estimated a second time
        if impl[0] == "ok" and (again[0] != "ok" or not all(np.array_equal(a_, b_) for a_, b_ in zip(impl[1], again[1]))):
            ctx.violate(f"C09/calc_estimate_sequence/{tag}/second-estimation-differs",
                        f"{spec}: estimating the same data twice with the same tomography object gives different results "
                        f"(second: {again[0]})", rep)
            return
        ctx.count(f"corr {spec[0]} {S.kind} flag={S.flag} testers={spec[1]}/{spec[2]} sched={sched}")
        Atxt, btxt = mat_text(A), qlist(b)
        i_full = drv.ask("fullrank", mm, n, rank)
        pend.append(("fullrank", spec, str(bool(S.qt.is_fullrank_matA())).lower(), i_full))
        if n * n * mm <= lim_mirror:
            i_est = drv.ask("estseq", mm, n, rank, mat_text(G), Atxt, btxt, seq_text(seq))
            pend.append(("estseq", (spec, sched, labels), impl, i_est))
        else:
            fs = [np.concatenate([d for _, d in ds]) for ds in seq]
            i_est = drv.ask("estfast", mm, n, mat_text(G), Atxt, btxt, vecs_text(fs))
            pend.append(("estfast", (spec, sched, labels), impl, i_est))
        if impl[0] == "ok" and n <= 40:
            # estimated_qoperation_sequence at the object level (generate_from_var of the template)
            rs = LinearEstimator().calc_estimate_sequence(S.qt, seq[:3])
            objs = [np.array(o.to_stacked_vector(), dtype=np.float64) for o in rs.estimated_qoperation_sequence]
            dim = S.c_sys.dim
            i_obj = drv.ask("estobj", S.kind, "1" if S.flag else "0", q(np.sqrt(dim)), dim * dim, S.m, mm, n, rank,
                            mat_text(G), Atxt, btxt, seq_text(seq[:3]))
            pend.append(("estobj", (spec, sched, labels[:3]), ("ok", objs), i_obj))
        if impl[0] == "ok":
            fs = [np.concatenate([d for _, d in ds]) for ds in seq]
            scale = max(1.0, max(np.abs(f).max() for f in fs)) * max(1.0, np.linalg.norm(A, 2) ** 2)
            tol = 1e-9 * scale
            # numpy's inverse certified against the contract: |G·AᵀA − 1|, |AᵀA·G − 1| ≤ 1e-8 entrywise (cond ≤ 1e3)
            if n <= (40 if ctx.quick else 90):
                i_inv = drv.ask("invcert", mm, n, mat_text(G), Atxt, "1/100000000")
                pend.append(("invcert", (spec, sched), "true", i_inv))
            i_cert = drv.ask("cert", mm, n, Atxt, btxt, q(tol), vecs_text(fs), vecs_text(impl[1]))
            pend.append(("cert", (spec, sched, labels, tol), ",".join(["true"] * len(fs)), i_cert))
            if n <= lim_exact:
                pick = [0, 4] if ctx.quick else [0, 1, 2, 3, 4]
                i_ex = drv.ask("lsqexact", mm, n, Atxt, btxt, vecs_text([fs[k] for k in pick]))
                pend.append(("lsqexact", (spec, sched, labels), ("ok", [impl[1][k] for k in pick]), i_ex))
        for lab in labels:
            ctx.case(("corr", spec, sched, lab), nontrivial=not lab.startswith("exact"),
                     sample={"op": "estseq/cert", "spec": list(spec), "shape": [mm, n], "data": lab,
                             "cond": round(float(cond), 2)})

    for spec in specs(ctx.tier):
        for sched in ("all", "perm") if spec[0] == "qubit" and spec[1] == "typical" else ("all",):
            try:
                one(spec, sched)
            except Exception as e:  # noqa
                raised(ctx, "correspondence", f"{spec[3]}/flag={spec[4]}", e, f"while preparing / estimating {spec} sched={sched}",
                       {"kind": "setup", "seed": ctx.seed, "spec": list(spec), "sched": sched})
    # --- error branches and plumbing on a small set-up (1 qubit QST)
    def branches(flag):
        S = Setup(ctx.seed, ("qubit", "typical", "typical", "qst", flag, 2))
        A, b = S.A, S.b
        mm, n = A.shape
        rank = int(np.linalg.matrix_rank(A))
        G = np.linalg.inv(A.T @ A)
        t = S.trues()[0]
        d = ts.born_reference("qst", S.rhos, S.pmats, S.schedules, t)
        cases = [
            ("empty-sequence", []),
            ("empty-dataset", [[]]),
            ("short-data", [with_counts(d[:2], [1, 1])]),
            ("long-data", [with_counts(d + d, [1] * 6)]),
            ("length-1-broadcast", [[(1, np.array([0.5]))]]),
            ("mixed-lengths-wrong-total", [with_counts([d[0], np.array([0.25, 0.25, 0.5]), d[2]], [1, 1, 1])]),
            ("mixed-lengths-right-total", [with_counts([np.concatenate([d[0], d[1][:1]]), d[1][1:], d[2]], [1, 1, 1])]),
            ("second-fails", [with_counts(d, [1, 2, 3]), with_counts(d[:1], [1])]),
            ("one-array-of-6", [[(5, np.concatenate(d))]]),
        ]
        for name, seq in cases:
            impl = impl_seq(S.qt, seq)
            if impl[0] == "ok" and not finite(impl[1]):
                ctx.violate(f"C09/calc_estimate_sequence/qst/flag={flag}/non-finite", f"branch {name}: non-finite estimate",
                            {"kind": "setup", "seed": ctx.seed, "spec": list(S.spec), "sched": "all"})
                continue
            i = drv.ask("estseq", mm, n, rank, mat_text(G), mat_text(A), qlist(b), seq_text(seq))
            pend.append(("estseq", (S.spec, name), impl, i))
            ctx.count("corr error/plumbing branches")
            ctx.case(("corr-branch", flag, name), sample={"op": "estseq", "branch": name, "impl": impl[0]})
        # calc_estimate = sequence of one, first entry
        r = LinearEstimator().calc_estimate(S.qt, with_counts(d, [3, 3, 3]))
        i = drv.ask("est", mm, n, rank, mat_text(G), mat_text(A), qlist(b), seq_text([with_counts(d, [3, 3, 3])]))
        pend.append(("est", (S.spec, "single"), ("ok", [r.estimated_var]), i))

    for flag in (True, False):
        try:
            branches(flag)
        except Exception as e:  # noqa
            raised(ctx, "correspondence", f"qst/flag={flag}", e, "error-branch / guard section", {"kind": "guard", "seed": ctx.seed})
    # --- the guard on informationally incomplete tester sets
    def guard_case(kind, flag, names_s, names_p):
        c_sys = ts.make_csys("qubit")
        sts = ts.generate_tester_states(c_sys, names_s) if names_s else []
        pvs = ts.generate_tester_povms(c_sys, names_p) if names_p else []
        qt = ts.build(kind, sts, pvs, flag, 2)
        A, b = np.array(qt.calc_matA(), copy=True), np.array(qt.calc_vecB(), copy=True)
        mm, n = A.shape
        rank = int(np.linalg.matrix_rank(A))
        full_before = str(bool(qt.is_fullrank_matA())).lower()
        f = np.full(mm, 0.5)
        k, cnts = 0, [qt.num_outcomes(i) for i in range(qt.num_schedules)]
        ds = []
        for c in cnts:
            ds.append((1, f[k:k + c])); k += c
        impl = impl_seq(qt, [ds])
        i_full = drv.ask("fullrank", mm, n, rank)
        pend.append(("fullrank", (kind, flag, names_s, names_p), full_before, i_full))
        ctx.count("corr guard on incomplete testers")
        ctx.case(("corr-guard", kind, flag, tuple(names_s or ()), tuple(names_p or ())),
                 sample={"op": "estseq", "guard": impl, "shape": [mm, n], "rank": rank})
        if rank == min(mm, n):
            # wide A of full row rank: the coded guard (`min(shape) == rank`) lets it through; numpy's inv of the
            # singular AᵀA raises or returns garbage — there is no `G` satisfying the contract to hand to the
            # model, so only the guard verdict is compared
            ctx.count("corr guard passes a wide matrix (impl: %s)" % (impl[1] if impl[0] == "err" else "answers"))
            if impl == ("err", "singular"):
                # np.linalg.inv raised LinAlgError: the model's `estSeqInv … none …`, with data and with an empty sequence
                i = drv.ask("estseqnone", mm, n, rank, mat_text(A), qlist(b), seq_text([ds]))
                pend.append(("estseqnone", (kind, flag, "wide"), impl, i))
                i = drv.ask("estseqnone", mm, n, rank, mat_text(A), qlist(b), seq_text([]))
                pend.append(("estseqnone", (kind, flag, "wide-empty"), impl_seq(qt, []), i))
            return
        Gd = np.zeros((n, n))
        i = drv.ask("estseq", mm, n, rank, mat_text(Gd), mat_text(A), qlist(b), seq_text([ds]))
        pend.append(("estseq", (kind, flag, "incomplete"), impl, i))

    for kind, flag, names_s, names_p in [("qst", True, None, ["x", "z"]), ("qst", False, None, ["x", "z"]),
                                         ("qst", True, None, ["z"]), ("povmt", True, ["x0", "z0", "z1"], None),
                                         ("qpt", False, ["x0", "y0", "z0"], ["x", "y", "z"]),
                                         ("qst", False, None, ["z"])]:
        try:
            guard_case(kind, flag, names_s, names_p)
        except Exception as e:  # noqa
            raised(ctx, "correspondence", f"{kind}/flag={flag}", e, "error-branch / guard section", {"kind": "guard", "seed": ctx.seed})
    out = drv.run()
    for op, inp, impl, i in pend:
        ctx.corr_ops.add(op)
        rep = out[i]
        if op in ("fullrank", "cert", "invcert"):
            if rep != impl:
                ctx.disagree(op, inp, impl, rep)
            continue
        t = rep.split()
        if t[0] == "err":
            if impl != ("err", t[1]):
                ctx.disagree(op, inp, impl, rep)
            continue
        if t[0] == "singular" or t[0] == "bad-op" or impl[0] != "ok":
            ctx.disagree(op, inp, impl if impl[0] == "err" else "ok", rep[:200])
            continue
        vs = parse_vecs(t[1])
        tol = 1e-7 if op == "lsqexact" else 1e-9
        if len(vs) != len(impl[1]) or any(not allclose(a, b_, tol) for a, b_ in zip(impl[1], vs)):
            worst = max((float(np.abs(np.array(a) - np.array(b_)).max()) for a, b_ in zip(impl[1], vs)
                         if len(a) == len(b_)), default=None)
            ctx.disagree(op, inp, f"impl differs from model, max abs diff {worst}", "")


# ----------------------------------------------------------------------------- oracle
def tol_of(S):
    c = np.linalg.cond(S.A)
    return 1e-11 + 1e-13 * c * c, c


def check_setup(ctx, spec, sched="all"):
    """the property on one tomography set-up; nothing raised by the real code escapes: it becomes a violation"""
    try:
        _check_setup(ctx, spec, sched)
    except Exception as e:  # noqa
        raised(ctx, "oracle", f"{spec[3]}/flag={spec[4]}", e, f"on {spec} sched={sched}",
               {"kind": "setup", "seed": ctx.seed, "spec": list(spec), "sched": sched})


def _check_setup(ctx, spec, sched="all"):
    """the property on one tomography set-up, on the real code, against independent references.
    ONE tomography object is used for all estimations of the set-up (exact recovery is therefore also checked on the
    2nd, 3rd … estimation with the same object), and the forward model is re-read at the end."""
    S = Setup(ctx.seed, spec, sched)
    qt, A, b = S.qt, S.A, S.b
    rep = {"kind": "setup", "seed": ctx.seed, "spec": list(spec), "sched": sched}
    tag = f"{S.kind}/flag={S.flag}"
    tol, cond = tol_of(S)
    if cond > COND_MAX:
        ctx.count("oracle skipped cond>1e3")
        return
    ctx.count(f"oracle {spec[0]} {S.kind} flag={S.flag}")
    est = LinearEstimator()
    # (1) exact data => exact recovery (independent Born rule, and the library's own consistency check)
    trues = S.trues()
    exact = []
    for t in trues:
        d = ts.born_reference(S.kind, S.rhos, S.pmats, S.schedules, t)
        exact.append(d)
        ctx.case(("oracle-exact", spec, sched, t.label), sample={"check": "exact recovery", "spec": list(spec),
                                                                "true": t.label})
        try:
            r = est.calc_estimate(qt, with_counts(d, [1] * len(d)))
            v = r.estimated_var
            o = r.estimated_qoperation
        except Exception as e:  # noqa
            if isinstance(e, ValueError) and "must match exactly" in str(e) and len(set(S.counts)) > 1:
                ctx.violate(KNOWN_MIXED, f"{spec}: outcome counts {S.counts[:6]}…: np.vstack raises ValueError on the exact "
                            f"data of a physical object (true={t.label})", rep)
            else:
                ctx.violate(f"C09/calc_estimate/{tag}/exact/raises-{type(e).__name__}", f"{type(e).__name__}: {e} on {spec} true={t.label}", rep)
            return
        if not finite([v]):
            ctx.violate(f"C09/calc_estimate/{tag}/exact/non-finite", f"{spec} true={t.label}: non-finite estimate from exact data", rep)
            return
        ev = float(np.abs(v - t.var(S.flag)).max())
        eo = float(np.abs(o.to_stacked_vector() - t.obj.to_stacked_vector()).max())
        if not (ev <= tol) or not (eo <= tol):
            ctx.violate(f"C09/calc_estimate/{tag}/exact-recovery",
                        f"{spec} true={t.label}: estimate differs from the true object, var err {ev:.3e}, object err {eo:.3e} (tol {tol:.1e})", rep)
            return
        if type(o) is not type(t.obj) or o.on_para_eq_constraint != S.flag:
            ctx.violate(f"C09/estimated_qoperation/{tag}/type", f"{spec}: estimated object has wrong type/flag", rep)
            return
        try:
            mse, _ = consistency_check.calc_mse_of_true_estimated(t.obj, qt, est)
        except Exception as e:  # noqa
            psm = ts.small_branch(S.kind, S.rhos, S.schedules, t) if "the state is not physically correct" in str(e) else None
            if psm is not None:
                # the library cannot produce the exact distributions of this physical object (finding D15): the
                # estimator itself was checked above with the independent Born data
                ctx.violate(KNOWN_POST, f"{spec} true={t.label}: an outcome of the measurement process has probability {psm:.2e} on a "
                            f"tester state; generate_prob_dists_sequence (inside the library consistency check) raises `{e}`", rep)
                continue
            ctx.violate(f"C09/consistency_check/{tag}/raises", f"{type(e).__name__}: {e} on {spec}", rep)
            return
        if not (mse < 1e-10):
            ctx.violate(f"C09/consistency_check/{tag}/mse", f"{spec} true={t.label}: library consistency check mse {mse:.3e}", rep)
            return
    # (2) arbitrary data => least squares: residual orthogonal to the model, equal to an independent lstsq
    datas = [("sampled", S.sampled(exact[0], 30)), ("sampled-1", S.sampled(exact[-1], 1)),
             ("adversarial", S.adversarial(1.0)), ("adversarial-100", S.adversarial(100.0)),
             ("zero", S.split(np.zeros(len(b))))]
    nrmA = np.linalg.norm(A, 2)
    for lab, d in datas:
        f = np.concatenate(d)
        ctx.case(("oracle-lsq", spec, sched, lab), sample={"check": "normal equations", "spec": list(spec), "data": lab})
        try:
            v = est.calc_estimate(qt, with_counts(d, [10] * len(d))).estimated_var
        except Exception as e:  # noqa
            ctx.violate(f"C09/calc_estimate/{tag}/{lab}/raises", f"{type(e).__name__}: {e} on {spec}", rep)
            return
        scale = max(1.0, float(np.abs(f).max()))
        g_ = A.T @ (A @ v + b - f)
        ref = np.linalg.lstsq(A, f - b, rcond=None)[0]
        if not (np.abs(g_).max() <= 1e-9 * scale * max(1.0, nrmA ** 2) * cond):
            ctx.violate(f"C09/calc_estimate/{tag}/normal-equations",
                        f"{spec} data={lab}: residual not orthogonal to the model, |Aᵀ(Av+b−f)|max = {np.abs(g_).max():.3e}", rep)
            return
        if not (np.abs(v - ref).max() <= tol * scale * 10):
            ctx.violate(f"C09/calc_estimate/{tag}/least-squares",
                        f"{spec} data={lab}: estimate differs from the least-squares solution by {np.abs(v - ref).max():.3e}", rep)
            return
    # (3) sequence = pointwise; (4) independence from the counts
    seq = [with_counts(d, [1 + i] * len(d)) for i, d in enumerate(exact)] + \
          [with_counts(d, [100] * len(d)) for _, d in datas]
    try:
        rs = est.calc_estimate_sequence(qt, seq)
        vs = rs.estimated_var_sequence
        singles = [est.calc_estimate(qt, ds) for ds in seq]
        objs = rs.estimated_qoperation_sequence
    except Exception as e:  # noqa
        ctx.violate(f"C09/calc_estimate_sequence/{tag}/raises", f"{type(e).__name__}: {e} on {spec}", rep)
        return
    ctx.case(("oracle-seq", spec, sched), sample={"check": "sequence = pointwise", "spec": list(spec), "len": len(seq)})
    if len(vs) != len(seq) or len(objs) != len(seq):
        ctx.violate(f"C09/calc_estimate_sequence/{tag}/length", f"{spec}: {len(vs)} estimates for {len(seq)} datasets", rep)
        return
    for i, (v, s) in enumerate(zip(vs, singles)):
        if not np.allclose(v, s.estimated_var, rtol=0, atol=1e-12 * max(1.0, np.abs(v).max())):
            ctx.violate(f"C09/calc_estimate_sequence/{tag}/pointwise",
                        f"{spec}: entry {i} of the sequence estimate differs from estimating dataset {i} alone by "
                        f"{np.abs(v - s.estimated_var).max():.3e}", rep)
            return
        if not np.allclose(objs[i].to_stacked_vector(), s.estimated_qoperation.to_stacked_vector(), rtol=0,
                           atol=1e-12 * max(1.0, np.abs(v).max())):
            ctx.violate(f"C09/estimated_qoperation_sequence/{tag}/pointwise",
                        f"{spec}: object {i} of the sequence differs from the object estimated from dataset {i} alone", rep)
            return
    if not np.array_equal(rs.estimated_var, vs[0]) or not np.allclose(
            rs.estimated_qoperation.to_stacked_vector(), objs[0].to_stacked_vector(), rtol=0, atol=1e-13):
        ctx.violate(f"C09/estimated_var/{tag}/first", f"{spec}: estimated_var / estimated_qoperation is not the first entry", rep)
        return
    d = datas[0][1]
    base = est.calc_estimate(qt, with_counts(d, [1] * len(d))).estimated_var
    for cnts in ([0] * len(d), [10 ** 6] * len(d), list(range(1, len(d) + 1)), [int(x) for x in S.g.integers(1, 10 ** 4, len(d))]):
        ctx.case(("oracle-counts", spec, sched, tuple(cnts)), sample={"check": "counts ignored", "counts": cnts[:4]})
        v = est.calc_estimate(qt, with_counts(d, cnts)).estimated_var
        if not finite([v]):
            ctx.violate(f"C09/calc_estimate/{tag}/non-finite",
                        f"{spec}: non-finite estimate when the attached sample counts are {cnts[:4]}… (finite with counts 1)", rep)
            return
        if not np.array_equal(v, base):
            ctx.violate(f"C09/calc_estimate/{tag}/depends-on-counts",
                        f"{spec}: estimate changes by {np.abs(v - base).max():.3e} when only the sample counts change to {cnts[:4]}…", rep)
            return
    # the estimations must have left the tomography object's forward model alone, and a further estimation with the
    # same object must still recover the first true object from its exact data
    A2, b2 = qt.calc_matA(), qt.calc_vecB()
    if A2.shape != A.shape or not np.array_equal(A2, A) or not np.array_equal(b2, b):
        ctx.violate(f"C09/calc_estimate/{tag}/forward-model-changed",
                    f"{spec}: calc_matA()/calc_vecB() of the tomography object differ after estimating with it "
                    f"(max change {np.abs(A2 - A).max() if A2.shape == A.shape else 'shape'})", rep)
        return
    v = est.calc_estimate(qt, with_counts(exact[0], [1] * len(exact[0]))).estimated_var
    ctx.case(("oracle-reuse", spec, sched), sample={"check": "same tomography object, later estimation", "spec": list(spec)})
    if not finite([v]) or not np.abs(v - trues[0].var(S.flag)).max() <= tol:
        ctx.violate(f"C09/calc_estimate/{tag}/reused-object/exact-recovery",
                    f"{spec}: after several estimations with the same tomography object the exact data of true={trues[0].label} "
                    f"are no longer inverted (err {np.abs(v - trues[0].var(S.flag)).max():.3e})", rep)
        return


INCOMPLETE = [("qst", None, ["x", "z"]), ("qst", None, ["x", "y"]), ("povmt", ["x0", "y0", "z0"], None),
              ("povmt", ["x0", "x1", "z0", "z1"], None), ("qpt", ["x0", "y0", "z0"], ["x", "y", "z"]),
              ("qpt", ["x0", "y0", "z0", "z1"], ["x", "z"]), ("qmpt", ["x0", "y0", "z0", "z1"], ["y", "z"])]


def check_guard(ctx):
    """informationally incomplete tester sets lie OUTSIDE the property's quantifier (complete / over-complete sets
    only), so nothing here is a violation: what the estimator does with them is recorded as `ctx.notes` observations.
    (The guard itself is still tied to the model by the correspondence ops `fullrank` / `estseq`.)"""
    c_sys = ts.make_csys("qubit")
    for kind, ns, npv in INCOMPLETE:
        for flag in (True, False):
            sts = ts.generate_tester_states(c_sys, ns) if ns else []
            pvs = ts.generate_tester_povms(c_sys, npv) if npv else []
            try:
                qt = ts.build(kind, sts, pvs, flag, 2)
                A, b = np.array(qt.calc_matA(), copy=True), np.array(qt.calc_vecB(), copy=True)
                if A.shape[0] != sum(qt.num_outcomes(i) for i in range(qt.num_schedules)) or b.shape != (A.shape[0],):
                    raise ValueError(f"matA {A.shape} / vecB {b.shape} do not have one row per (schedule, outcome)")
            except Exception as e:  # noqa
                # building a tomography object and reading its forward model must work for ANY tester set
                raised(ctx, "forward-model", f"{kind}/flag={flag}", e,
                       f"constructing {kind} with testers {ns}/{npv} (after the other set-ups of this run) and reading matA/vecB",
                       {"kind": "oracle-full", "seed": ctx.seed})
                continue
            f = np.full(A.shape[0], 0.5)
            f[::2] = 0.25
            f[1::2] = 0.75
            ds, k = [], 0
            for i in range(qt.num_schedules):
                c = qt.num_outcomes(i)
                ds.append((1, f[k:k + c])); k += c
            ctx.case(("oracle-guard", kind, flag, tuple(ns or ()), tuple(npv or ())),
                     sample={"check": "guard (observation only)", "kind": kind, "shape": list(A.shape)})
            wide = A.shape[0] < A.shape[1]
            ctx.count("observed guard on incomplete testers (%s matA)" % ("wide" if wide else "tall"))
            try:
                v = LinearEstimator().calc_estimate(qt, ds).estimated_var
            except Exception:  # noqa  rejected
                continue
            if not finite([v]):
                ctx.notes.append(f"observation (outside the quantifier): {kind} flag={flag} testers {ns}/{npv}: non-finite answer")
                continue
            g_ = A.T @ (A @ v + b - f)
            if not wide:
                ctx.notes.append(f"observation (outside the quantifier): {kind} flag={flag} testers {ns}/{npv}, tall matA of rank "
                                 f"{np.linalg.matrix_rank(A)} < {A.shape[1]} columns is answered instead of rejected")
            elif not np.abs(g_).max() <= 1e-8:
                ctx.notes.append(f"observation (outside the quantifier): {kind} flag={flag} testers {ns}/{npv}: matA "
                                 f"{A.shape[0]}x{A.shape[1]} of full ROW rank passes `min(shape) == rank`; inv(AᵀA) of the singular "
                                 f"matrix returns garbage, |Aᵀ(Av+b−f)|max = {np.abs(g_).max():.2e} "
                                 f"(would be rejected with size = matA.shape[1])")


def check_mixed(ctx):
    """over-complete tester set whose POVMs have different outcome counts (qubit QST / QPT)"""
    for kind in ("qst", "qpt", "qmpt"):
        for flag in (True, False):
            rep = {"kind": "mixed", "seed": ctx.seed, "which": [kind, flag]}
            try:
                g = ctx.npgen("mixed-" + kind + str(flag))
                c_sys = ts.make_csys("qubit")
                sts, rhos = ts.tester_states(g, c_sys, "qubit", "typical")
                pvs, pm = ts.tester_povms(g, c_sys, "qubit", "mixed")
                qt = ts.build(kind, sts, pvs, flag, 2)
                t = ts.true_objects(g, c_sys, kind, 2, classes=("interior",), flag=flag)[0]
                d = ts.born_reference(kind, rhos, pm, qt._experiment.schedules, t)
            except Exception as e:  # noqa
                raised(ctx, "oracle-mixed", f"{kind}/flag={flag}", e, "building the mixed-outcome-count set-up", rep)
                continue
            ctx.case(("oracle-mixed", kind, flag), sample={"check": "mixed outcome counts", "counts": [len(x) for x in d][:6]})
            ctx.count("oracle mixed outcome counts")
            try:
                v = LinearEstimator().calc_estimate(qt, with_counts(d, [1] * len(d))).estimated_var
            except ValueError as e:
                if "must match exactly" in str(e):
                    ctx.violate(KNOWN_MIXED, f"{kind} flag={flag}, POVM outcome counts {[len(p.vecs) for p in pvs]}: "
                                f"np.vstack raises ValueError on the exact data of a physical object", rep)
                else:
                    ctx.violate(f"C09/calc_estimate/{kind}/mixed/raises", f"ValueError: {e}", rep)
                continue
            except Exception as e:  # noqa
                ctx.violate(f"C09/calc_estimate/{kind}/mixed/raises", f"{type(e).__name__}: {e}", rep)
                continue
            if not np.abs(v - t.var(flag)).max() <= 1e-9:
                ctx.violate(f"C09/calc_estimate/{kind}/mixed/exact-recovery",
                            f"{kind} flag={flag} mixed outcome counts: estimate off by {np.abs(v - t.var(flag)).max():.3e}", rep)


def check_product_boundary(ctx):
    """2-qubit measurement-process tomography with the library's product testers (`tensor_product`, local outcome counts
    (2,2)) and BOUNDARY true objects with exact zero-probability outcomes: the library's own consistency check and exact
    recovery from the independent Born rule (oracle only; too large for the exact model)"""
    spec = ("2qubit", "typical", "typical", "qmpt", True, 2)
    rep = {"kind": "product-boundary", "seed": ctx.seed}
    try:
        S = Setup(ctx.seed, spec)
        est = LinearEstimator()
        tol, cond = tol_of(S)
        for t in ts.edge_objects(S.c_sys, "qmpt", 2, True)[:2] + S.trues()[:1]:
            ctx.case(("oracle-product-boundary", t.label), sample={"check": "2-qubit QMPT, boundary object", "true": t.label})
            d = ts.born_reference("qmpt", S.rhos, S.pmats, S.schedules, t)
            r = est.calc_estimate(S.qt, with_counts(d, [1] * len(d)))
            eo = float(np.abs(r.estimated_qoperation.to_stacked_vector() - t.obj.to_stacked_vector()).max())
            if not eo <= tol:
                ctx.violate("C09/calc_estimate/qmpt/flag=True/2qubit-boundary/exact-recovery",
                            f"{spec} true={t.label}: object err {eo:.3e} (tol {tol:.1e})", rep)
                return
            mse, _ = consistency_check.calc_mse_of_true_estimated(t.obj, S.qt, est)
            if not mse < 1e-10:
                ctx.violate("C09/consistency_check/qmpt/flag=True/2qubit-boundary/mse",
                            f"{spec} true={t.label}: library consistency check mse {mse:.3e}", rep)
                return
    except Exception as e:  # noqa
        raised(ctx, "oracle-product-boundary", "qmpt/flag=True", e, f"on {spec}", rep)
    ctx.count("oracle 2-qubit QMPT boundary objects with product testers")


PARTIAL = [
    {"theorem": "QM.C09.est_exact / est_normal / est_lsq",
     "missing": "the contract G·(AᵀA)=1 is exact; numpy's inverse satisfies it only up to rounding (generators keep "
                "cond(A) ≤ 1e3; every implementation output is certified by lsqCert with an explicit tolerance)"},
]


def oracle(ctx, volume=1):
    ctx.partial = PARTIAL
    for spec in specs(ctx.tier, volume):
        check_setup(ctx, spec)
        if spec[0] == "qubit" and spec[1] == "typical" and spec[2] == "typical":
            check_setup(ctx, spec, "perm")
    if volume > 1:
        for extra in range(1, volume):
            sub = Ctx("C09", ctx.tier, ctx.seed * 1000 + extra)
            for spec in specs("quick", 1):
                if spec[0] != "2qubit":
                    check_setup(sub, spec)
            ctx.violations += sub.violations
            ctx.evaluations += sub.evaluations
    check_guard(ctx)
    check_mixed(ctx)
    check_product_boundary(ctx)


def search(ctx):
    oracle(ctx, volume=3)


def replay(ctx, data):
    r = data["replay"]
    print("replaying", r)
    sub = Ctx("C09", "quick", int(r.get("seed", 0)))
    if r["kind"] == "setup":
        check_setup(sub, tuple(r["spec"]), r.get("sched", "all"))
    elif r["kind"] == "oracle-full":
        oracle(sub)
    elif r["kind"] == "product-boundary":
        check_product_boundary(sub)
    elif r["kind"] == "guard":
        check_guard(sub)
    else:
        check_mixed(sub)
    for v in sub.violations:
        print("  still failing:", v["signature"], "-", v["what"])
    if not sub.violations:
        print("  no violation on this input any more")
    return 1 if sub.violations else 0
