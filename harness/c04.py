"""C04 — equality / inequality projections are nearest-point projections.

correspondence: every calc_proj_{eq,ineq}_constraint(_with_var) / func_calc_proj_* of State, Povm, Gate, MProcess is run on
the real code and re-computed by QModel.C04 on the same rationals (eigh results of the real run are tapped and passed through).
oracle: the property itself on the real code, with independent numpy references (constraint matrices + least squares for the
equality part; KKT certificate + own eigen-decomposition + variational inequality against random feasible competitors for
the inequality part), idempotence, fixed points, argument snapshots, object-level vs variable-level agreement."""
import shim  # noqa: F401
import numpy as np
from common import Driver, q, qlist
import qobj
from quara.objects.state import State
from quara.objects.povm import Povm
from quara.objects.gate import Gate
from quara.objects.mprocess import MProcess
from quara.settings import Settings

LEAN_EXTRA_SOURCES = ("C04Psd.lean", "C04Ineq.lean", "Psd.lean")
LEAN_EXTRA_TARGETS = ("QGen.C04",)


def translate(ctx):
    """regenerate lean/QGen/C04.lean (element / slice assignments of the State and Gate equality projections) from /repo"""
    import c04_translate
    return c04_translate.translate()

PARTIAL = [
    {"theorem": "projIneqCore_spec_partial, gate_projIneq_spec_partial, projIneqCore_idem_spec_partial, projIneqCore_fix_partial, "
                "blocks_nearest_partial (and the general-family versions projIneqCore_{feasible,vi,nearest,idem}_partial with hspan)",
     "missing": "proved for an exact eigh result (U unitary, U diag(lam) U^H = operator of the input) and eps_truncate_imaginary_part = 0; "
                "projIneqCore_eps_partial bounds the effect of eps > 0 in exact arithmetic (no raise, every coordinate moves by < eps); float "
                "accuracy of eigh and the rounding-level imaginary residue that makes the real code raise at scale ~1e3 (D13) are not covered. "
                "The imaginary-part guard is characterised exactly (truncate_ok_iff / truncate_raises_iff / truncate_perturbed: absolute "
                "threshold, finding D13). The hypotheses on the basis are proved for the normalised Pauli basis (pauli_orthoN, pauli_hermB). "
                "Basis completeness is no longer a hypothesis (derived from orthonormality + Hermiticity + count d^2; the harness re-checks "
                "these three numerically for every system it uses)"},
    {"theorem": "clause C04.4 (argument never modified)", "missing": "no theorem with content (mprocess_eq_var_argument_model_trivial is rfl "
     "on identity definitions): established by before/after snapshots of every call site in the correspondence and the oracle only"},
    {"theorem": "state_var_eq_obj_F, povm_var_eq_obj_F, mprocess_var_eq_obj_F", "missing": "definitional in the model (projEqVarF := projEq); for Povm and MProcess both source sites are regenerated (QGen.C04) and proved "
     "equal to that definition (gen_povm_eq, gen_mprocess_eq); for State the same via gen_state_eq; Gate's flat-index routine is modelled "
     "separately (gate_var_eq_obj_F has content)"},
]
TYPES = ("State", "Povm", "Gate", "MProcess")
CLS = {"State": State, "Povm": Povm, "Gate": Gate, "MProcess": MProcess}
SCALES = [2.0 ** -10, 2.0 ** -7, 2.0 ** -3, 1.0, 8.0, 128.0, 1024.0]     # ~1e-3 .. ~1e3 (dyadic)
SCALE_NAME = {2.0 ** -10: "1e-3", 2.0 ** -7: "1e-2", 2.0 ** -3: "1e-1", 1.0: "1", 8.0: "1e1", 128.0: "1e2", 1024.0: "1e3"}

_SYS = {}


def _rot_pauli(seed):
    """normalized Pauli basis conjugated by a fixed unitary: orthonormal, Hermitian, 0th element prop. to the identity"""
    from quara.objects import matrix_basis as mb
    p = mb.get_normalized_pauli_basis()
    arr = [np.asarray(b.toarray() if hasattr(b, "toarray") else b) for b in p]
    u = qobj.rand_unitary(np.random.default_rng(seed), 2)
    return type(p)([arr[0]] + [u @ b @ u.conj().T for b in arr[1:]])


def _sys_g4():
    from quara.objects import matrix_basis as mb
    return qobj.CompositeSystem([qobj.ElementalSystem(0, mb.get_normalized_generalized_gell_mann_basis(1, 4))])


def _sys_qr():
    return qobj.CompositeSystem([qobj.ElementalSystem(0, _rot_pauli(5))])


def _sys_qqr():
    from quara.objects import matrix_basis as mb
    return qobj.CompositeSystem([qobj.ElementalSystem(0, _rot_pauli(6)), qobj.ElementalSystem(1, mb.get_normalized_pauli_basis())])


# systems of equal dimension (and equal number of subsystems where that matters) but different bases / factor order:
# whatever quara caches per system must not leak from one member to the next one used in the same process
SIBLINGS = (("qq", "g4", "qqr"), ("q", "qr"), ("qt", "tq"))


def warm_siblings(kind):
    """use every OTHER member of the sibling group of `kind` first (replays re-create the sequence that exposed a failure)"""
    for grp in SIBLINGS:
        if kind in grp:
            for sib in grp:
                if sib != kind:
                    cs_, _ = system(sib)
                    g = np.random.default_rng(2)
                    call_site("State", cs_, "ineq", "obj", False, gen_param(g, "State", sib, 1, 1.0, "random"), 1)
                    if cs_.dim <= 4:
                        call_site("Gate", cs_, "ineq", "obj", False, gen_param(g, "Gate", sib, 1, 1.0, "random"), 1)


def system(kind):
    """kind: 'q' qubit, 't' qutrit, 'qq' two qubits, 'qt' qubit x qutrit, 'tq' qutrit x qubit, 'g4' one 4-level system
    (generalised Gell-Mann basis), 'qr' qubit with a rotated Pauli basis, 'qqr' rotated qubit x qubit (cached: quara caches sparse bases per system)"""
    if kind not in _SYS:
        c = {"q": lambda: qobj.csys("qubit"), "t": lambda: qobj.csys("qutrit"),
             "qq": lambda: qobj.csys("qubit", names=(0, 1)),
             "qt": lambda: qobj.csys(["qubit", "qutrit"], names=(0, 1)),
             "tq": lambda: qobj.csys(["qutrit", "qubit"], names=(0, 1)),
             "g4": _sys_g4, "qr": _sys_qr, "qqr": _sys_qqr}[kind]()
        B = qobj.basis_mats(c)
        # hypotheses of the Lean theorems about the operator basis (OrthoN, HermB, d*d elements), re-checked numerically
        G = np.array([[np.trace(a.conj().T @ b) for b in B] for a in B])
        if len(B) != c.dim ** 2 or np.max(np.abs(G - np.eye(len(B)))) > 1e-12 or \
                max(float(np.max(np.abs(b - b.conj().T))) for b in B) > 1e-14:
            raise RuntimeError(f"basis of system {kind!r} is not an orthonormal Hermitian family of d^2 matrices")
        if kind == "q":
            # the qubit basis quara ships is the one QProofs.C04Ineq.pauliB formalises (sigma_a / sqrt 2, order I X Y Z)
            sig = [np.eye(2), np.array([[0, 1], [1, 0]]), np.array([[0, -1j], [1j, 0]]), np.array([[1, 0], [0, -1]])]
            if max(float(np.max(np.abs(b - s_ / np.sqrt(2)))) for b, s_ in zip(B, sig)) > 1e-15:
                raise RuntimeError("normalised Pauli basis differs from the formalised one")
        _SYS[kind] = (c, B)
    return _SYS[kind]


# ----------------------------------------------------------------------------- independent reference maths
def n_of(c):
    return c.dim ** 2


def shape_of(typ, c, m):
    n = n_of(c)
    return {"State": (n,), "Povm": (m, n), "Gate": (n, n), "MProcess": (m, n, n)}[typ]


def make(typ, c, X, flag, **kw):
    """real quara object with stacked parameters X (no physicality validation)"""
    X = np.array(X, dtype=np.float64)
    n = n_of(c)
    cfg = dict(is_physicality_required=False, on_para_eq_constraint=flag)
    cfg.update(kw)
    if _EPS_TRUNC[0] is not None and "eps_truncate_imaginary_part" not in cfg:
        cfg["eps_truncate_imaginary_part"] = _EPS_TRUNC[0]      # non-default constructor option requested by the caller
    if typ == "State":
        return State(c, X.reshape(n).copy(), **cfg)
    if typ == "Povm":
        return Povm(c, [v.copy() for v in X.reshape(-1, n)], **cfg)
    if typ == "Gate":
        return Gate(c, X.reshape(n, n).copy(), **cfg)
    if "shape" not in cfg and _MP_SHAPE[0] is not None and int(np.prod(_MP_SHAPE[0])) == X.size // (n * n):
        cfg["shape"] = tuple(_MP_SHAPE[0])          # multi-axis outcome layout requested by the caller (see mprocess_shapes)
    return MProcess(c, [h.copy() for h in X.reshape(-1, n, n)], **cfg)


_MP_SHAPE = [None]
_EPS_TRUNC = [None]
_ATOL_AT_CALL = [None]     # global Settings atol changed AFTER the objects / closures were built, for the duration of the call
_HOSTS = {}


def physical_host(typ, c, m, flag):
    """a physical object built with is_physicality_required=True (the constructor default, as |0><0|, the Z POVM, the identity
    gate ... are): closures taken from such a host must project unphysical arguments just like closures from any other host"""
    key = (typ, id(c), m, flag, tuple(_MP_SHAPE[0]) if _MP_SHAPE[0] is not None else None, _EPS_TRUNC[0])
    if key not in _HOSTS:
        kind = [k for k, v in _SYS.items() if v[0] is c][0]
        g = np.random.default_rng(sum(ord(ch) for ch in typ + kind) * 31 + m)
        _HOSTS[key] = make(typ, c, gen_param(g, typ, kind, m, 1.0, "physical"), flag, is_physicality_required=True)
    return _HOSTS[key]


def eq_system(typ, c, m):
    """(C, b): the equality constraint on the flattened stacked parameters is C x = b (built from the definition:
    trace one / elements sum to identity / trace preserving / sum trace preserving, with B_0 = 1/sqrt(d))"""
    d = c.dim
    n = d * d
    if typ == "State":
        C = np.zeros((1, n)); C[0, 0] = 1
        return C, np.array([1 / np.sqrt(d)])
    if typ == "Povm":
        C = np.zeros((n, m * n))
        for x in range(m):
            C[:, x * n:(x + 1) * n] = np.eye(n)
        b = np.zeros(n); b[0] = np.sqrt(d)
        return C, b
    if typ == "Gate":
        C = np.zeros((n, n * n)); C[:, :n] = np.eye(n)
        b = np.zeros(n); b[0] = 1
        return C, b
    C = np.zeros((n, m * n * n))
    for x in range(m):
        C[:, x * n * n: x * n * n + n] = np.eye(n)
    b = np.zeros(n); b[0] = 1
    return C, b


def eq_ref(typ, c, m, x):
    """nearest point of the affine set by the normal equations"""
    C, b = eq_system(typ, c, m)
    x = np.asarray(x, dtype=np.float64).ravel()
    return x - C.T @ np.linalg.solve(C @ C.T, C @ x - b)


def kron_basis(B):
    return [np.kron(a, b.conj()) for a in B for b in B]


_KB = {}


def op_basis(typ, kind):
    """orthonormal Hermitian operator basis whose real span carries one block of the stacked parameters"""
    c, B = system(kind)
    if typ in ("State", "Povm"):
        return B
    if kind not in _KB:
        _KB[kind] = kron_basis(B)
    return _KB[kind]


def blocks(typ, c, x):
    """stacked parameters -> list of coefficient blocks (one per operator that must be PSD)"""
    n = n_of(c)
    x = np.asarray(x, dtype=np.float64).ravel()
    if typ == "State":
        return [x]
    if typ == "Povm":
        return list(x.reshape(-1, n))
    if typ == "Gate":
        return [x]
    return list(x.reshape(-1, n * n))


_STACK = {}


def _stack(basis):
    k = id(basis)
    if k not in _STACK or _STACK[k][0] is not basis:
        _STACK[k] = (basis, np.array(basis, dtype=np.complex128))
    return _STACK[k][1]


def op_of(basis, coef):
    return np.tensordot(np.asarray(coef, dtype=np.float64), _stack(basis), axes=1)


def coef_of(basis, M):
    return np.einsum("aij,ij->a", _stack(basis).conj(), M).real


def psd_part(M):
    """own eigen-decomposition reference (explicit conjugate transpose), via eig of the Hermitian part"""
    H = (M + M.conj().T) / 2
    w, v = np.linalg.eigh(H)
    return (v * np.maximum(w, 0)) @ v.conj().T


def ineq_ref(typ, kind, x):
    c, _ = system(kind)
    basis = op_basis(typ, kind)
    return np.concatenate([coef_of(basis, psd_part(op_of(basis, blk))) for blk in blocks(typ, c, x)])


# conversions between the reduced variables (flag True) and stacked parameters, written from the documentation of the
# parametrisation (independent of quara's convert_* functions)
def to_var(typ, c, x, flag):
    x = np.asarray(x, dtype=np.float64).ravel()
    if not flag:
        return x.copy()
    n = n_of(c)
    if typ == "State":
        return x[1:].copy()
    if typ == "Povm":
        return x[:-n].copy()
    if typ == "Gate":
        return x[n:].copy()
    m = x.size // (n * n)
    k = (m - 1) * n * n
    return np.concatenate([x[:k], x[k + n:]])


def of_var(typ, c, v, flag):
    v = np.asarray(v, dtype=np.float64).ravel()
    if not flag:
        return v.copy()
    d = c.dim
    n = d * d
    if typ == "State":
        return np.concatenate([[1 / np.sqrt(d)], v])
    if typ == "Povm":
        pre = v.reshape(-1, n)
        last = -pre.sum(axis=0); last[0] += np.sqrt(d)
        return np.concatenate([v, last])
    if typ == "Gate":
        e = np.zeros(n); e[0] = 1
        return np.concatenate([e, v])
    m = (v.size + n) // (n * n)
    k = (m - 1) * n * n
    pre = v[:k].reshape(m - 1, n, n)
    first = -pre[:, 0, :].sum(axis=0) if m > 1 else np.zeros(n)
    first[0] += 1
    return np.concatenate([v[:k], first, v[k:]])


def stacked(obj):
    return np.array(obj.to_stacked_vector(), dtype=np.float64).ravel().copy()


# ----------------------------------------------------------------------------- generators
def dy(g, shape, scale, bits=8):
    return np.round(g.standard_normal(shape) * 2 ** bits) / 2 ** bits * scale


def rand_herm(g, D, scale, spectrum=None):
    if spectrum is None:
        return qobj.rand_hermitian(g, D, scale)
    u = qobj.rand_unitary(g, D)
    return (u * np.asarray(spectrum, dtype=float)) @ u.conj().T * scale


def degenerate_spectrum(g, D):
    k = int(g.integers(0, 6))
    if k == 0:
        return np.zeros(D)
    if k == 1:
        return np.ones(D)
    if k == 2:
        return -np.ones(D)
    if k == 3:                                   # one repeated negative and one repeated positive eigenvalue
        s = np.ones(D); s[: max(1, D // 2)] = -1
        return s
    if k == 4:                                   # zero eigenvalues (boundary) next to a repeated positive one
        s = np.zeros(D); s[D // 2:] = 2
        return s
    s = np.round(g.standard_normal(D) * 2) / 2   # coarse grid: repeated and zero eigenvalues are likely
    return s


def gen_param(g, typ, kind, m, scale, cls):
    """stacked parameters of one generated object.  cls: random | degenerate | psd | boundary | physical | near"""
    c, B = system(kind)
    d = c.dim
    n = d * d
    D = d if typ in ("State", "Povm") else n
    nblk = {"State": 1, "Povm": m, "Gate": 1, "MProcess": m}[typ]
    if cls == "random":
        return dy(g, int(np.prod(shape_of(typ, c, m))), scale)
    if cls == "lowpurity":
        # noisy linear estimate of a rank-deficient mixed state: trace one, purity <= 1/2, slightly non-PSD (per block)
        basis = op_basis(typ, kind)
        out = []
        for _ in range(nblk):
            spec = np.sort(g.dirichlet(np.ones(max(1, D - 1))))[::-1] if D > 1 else np.ones(1)
            spec = np.concatenate([0.9 * spec + 0.1 / max(1, D - 1), [0.0]]) if D > 1 else spec
            M = rand_herm(g, D, 1.0, spec)
            N = qobj.rand_hermitian(g, D, 1.0)
            N = N - np.trace(N).real / D * np.eye(D)
            M = M + 0.02 * N / np.linalg.norm(N)
            out.append(coef_of(basis, M) * (scale if typ != "State" else 1.0))
        return np.concatenate(out)
    if cls in ("degenerate", "psd", "boundary"):
        basis = op_basis(typ, kind)
        out = []
        for _ in range(nblk):
            if cls == "degenerate":
                M = rand_herm(g, D, scale, degenerate_spectrum(g, D))
            elif cls == "psd":
                M = rand_herm(g, D, scale, np.abs(g.standard_normal(D)) + 0.05)
            else:
                s = np.zeros(D); s[int(g.integers(0, D))] = 1.0; s[int(g.integers(0, D))] = 1.0
                M = rand_herm(g, D, scale, s)
            out.append(coef_of(basis, M))
        return np.concatenate(out)
    # physical objects (scale is ignored: they live at scale 1) and noisy versions of them
    if typ == "State":
        rank = 1 if cls == "physical" and g.random() < 0.4 else None
        x = stacked(qobj.rand_state(g, c, rank=rank, required=False))
    elif typ == "Povm":
        rank = 1 if cls == "physical" and g.random() < 0.4 and m >= d else None
        x = stacked(qobj.rand_povm(g, c, m, rank=rank, required=False))
    elif typ == "Gate":
        x = stacked(qobj.rand_gate(g, c, kraus_rank=int(g.integers(1, 3)), required=False))
    else:
        x = stacked(qobj.rand_mprocess(g, c, m, kraus_rank=int(g.integers(1, 3)), required=False)[0])
    if cls == "near":
        x = x + dy(g, x.shape, 2.0 ** -10 * scale)
    if cls == "almost":
        # physical up to a perturbation of relative size ~1e-6 / 1e-9 / 1e-12 (ppm-level mis-normalisation, tiny negative
        # eigenvalues): below every loose `isclose` tolerance but far above the exactness the property demands
        e = 2.0 ** -int(g.choice([20, 30, 40]))
        k = int(g.integers(0, 3))
        if k == 0:
            x = x + dy(g, x.shape, e)                    # small noise in every parameter
        elif k == 1:
            x = x * (1.0 + e)                            # global mis-normalisation (ppm level and below)
        else:
            x = x * (1.0 - e) + dy(g, x.shape, e * 2.0 ** -10)
    return x


def cases(ctx, salt, per_cell, kinds, types=TYPES, ms=(2, 3, 4, 5), scales=SCALES,
          classes=("random", "degenerate", "psd", "boundary", "physical", "near", "almost")):
    """deterministic structured sweep: every (type, system, class) cell `per_cell` times with rotating m and scale"""
    g = ctx.npgen(salt)
    k = 0
    cnt = {}
    for typ in types:
        for kind in kinds:
            for cls in classes:
                for r in range(per_cell):
                    m = ms[k % len(ms)] if typ in ("Povm", "MProcess") else 1
                    # every class walks through all scales over its own occurrences (independent of the number of classes)
                    cnt[cls] = cnt.get(cls, -1) + 1
                    scale = scales[(cnt[cls] + classes.index(cls)) % len(scales)] if cls not in ("physical", "almost") else 1.0
                    k += 1
                    yield dict(typ=typ, kind=kind, m=m, scale=scale, cls=cls,
                               x=gen_param(g, typ, kind, m, scale, cls), g=g)


# ----------------------------------------------------------------------------- real-code entry points
class EighTap:
    """records every np.linalg.eigh call of the real code (argument and result) so that the same kernel result can be
    handed to the model"""

    def __enter__(self):
        self.calls = []
        self.orig = np.linalg.eigh

        def tap(a, *k, **kw):
            r = self.orig(a, *k, **kw)
            self.calls.append((np.array(a), np.array(r[0]), np.array(r[1])))
            return r
        np.linalg.eigh = tap
        return self

    def __exit__(self, *a):
        np.linalg.eigh = self.orig


def err_kind(e):
    if isinstance(e, ValueError) and "imaginary parts" in str(e):
        return "imag"
    return type(e).__name__


def site_base(site):
    return site.split("-")[0]


def call_site(typ, c, which, site, flag, x, m, tap=False):
    """run one projection entry point of the real code.  `x` are the stacked parameters of the full object; for flag True the
    variable-level sites receive to_var(x).  Closure sites come in three variants: `func` / `funcvar` (closure requested with the
    explicit flag from an object carrying the same flag), `func-opp` / `funcvar-opp` (explicit flag, object carrying the OPPOSITE flag),
    `func-dflt` / `funcvar-dflt` (flag not passed: the object's own flag, which is `flag`, must be used),
    `func-phys` / `funcvar-phys` (explicit flag, host is a PHYSICAL object built with is_physicality_required=True).
    Returns dict(result=stacked-or-var array | None, err, arg_before, arg_after, eigh)"""
    cls = CLS[typ]
    out = dict(err=None, result=None, eigh=[])
    hflag = (not flag) if site.endswith("-opp") else flag
    kwargs = {} if site.endswith("-dflt") else {"on_para_eq_constraint": flag}
    phys = site.endswith("-phys")
    site = site_base(site)
    if phys:
        try:
            holder = physical_host(typ, c, m, hflag)
        except Exception as e:  # noqa  (a physical object, by the independent reference, is rejected by the constructor)
            v0 = to_var(typ, c, x, flag)
            return dict(err="physical-host-" + err_kind(e), msg=str(e)[:200], result=None, eigh=[], arg_before=v0, arg_after=v0.copy())
    else:
        holder = make(typ, c, of_var(typ, c, to_var(typ, c, x, flag), flag) if site != "obj" else x, hflag)
    if site == "obj":
        obj = make(typ, c, x, flag)
        arg = obj
        before = stacked(obj)

        def run():
            r = getattr(obj, f"calc_proj_{which}_constraint")()
            return stacked(r)
        after = lambda: stacked(obj)
    else:
        var = to_var(typ, c, x, flag)
        before = var.copy()
        if site == "var":
            def run():
                kw2 = {"eps_truncate_imaginary_part": _EPS_TRUNC[0]} if (_EPS_TRUNC[0] is not None and which == "ineq") else {}
                return np.array(getattr(cls, f"calc_proj_{which}_constraint_with_var")(c, var, on_para_eq_constraint=flag, **kw2),
                                dtype=np.float64)
        elif site == "func":
            f = getattr(holder, f"func_calc_proj_{which}_constraint")(**kwargs)

            def run():
                return np.array(f(var), dtype=np.float64)
        else:
            f = getattr(holder, f"func_calc_proj_{which}_constraint_with_var")(**kwargs)

            def run():
                return np.array(f(var), dtype=np.float64)
        after = lambda: var.copy()
    atol0 = Settings.get_atol()
    try:
        if _ATOL_AT_CALL[0] is not None:
            Settings.set_atol(float(_ATOL_AT_CALL[0]))
        if tap:
            with EighTap() as t:
                res = run()
            out["eigh"] = t.calls
        else:
            res = run()
        out["result"] = np.array(res, dtype=np.float64).ravel().copy()
    except Exception as e:  # noqa
        out["err"] = err_kind(e)
        out["msg"] = str(e)[:200]
    finally:
        Settings.set_atol(atol0)
    out["arg_before"] = before
    out["arg_after"] = after()
    return out


SITES = ("obj", "var", "func", "funcvar")
CLOSURE_VARIANTS = ("func-opp", "funcvar-opp", "func-dflt", "funcvar-dflt", "func-phys", "funcvar-phys")
ALL_SITES = SITES + CLOSURE_VARIANTS


# ----------------------------------------------------------------------------- correspondence
def cx_list(M):
    M = np.asarray(M, dtype=np.complex128).ravel()
    out = []
    for z in M:
        out.append(q(z.real)); out.append(q(z.imag))
    return ",".join(out) if out else "-"


_BASIS_TXT = {}


def basis_txt(kind):
    if kind not in _BASIS_TXT:
        _, B = system(kind)
        _BASIS_TXT[kind] = cx_list(np.array(B))
    return _BASIS_TXT[kind]


def eq_request(drv, typ, c, site, flag, arg, m):
    """arg: what the real entry point received (stacked parameters for obj, variables otherwise)"""
    site = site_base(site)
    d = c.dim
    n = d * d
    s, t = 1 / np.sqrt(d), np.sqrt(d)
    F = "T" if flag else "F"
    if typ == "State":
        if site == "obj":
            return drv.ask("s_eq_obj", q(s), qlist(arg))
        return drv.ask("s_eq_var" if site in ("var", "funcvar") else "s_eq_func", F, q(s), qlist(arg))
    if typ == "Povm":
        if site == "obj":
            return drv.ask("p_eq_obj", q(t), m, n, qlist(arg))
        return drv.ask("p_eq_var", F, q(t), m - 1 if flag else m, n, qlist(arg))
    if typ == "Gate":
        if site == "obj":
            return drv.ask("g_eq_obj", n, qlist(arg))
        return drv.ask("g_eq_var" if site in ("var", "funcvar") else "g_eq_func", F, n, qlist(arg))
    if site == "obj":
        return drv.ask("m_eq_obj", m, n, qlist(arg))
    return drv.ask("m_eq_var", F, m, n, qlist(arg))


def ineq_request(drv, typ, kind, site, flag, arg, m, eigh):
    site = site_base(site)
    c, _ = system(kind)
    d = c.dim
    n = d * d
    eps = q(Settings.get_atol())
    F = "T" if (flag and site != "obj") else "F"
    lams = qlist(np.concatenate([e[1] for e in eigh]))
    us = cx_list(np.concatenate([e[2].ravel() for e in eigh]))
    if typ == "State":
        return drv.ask("s_ineq", F, d, n, q(1 / np.sqrt(d)), eps, basis_txt(kind), qlist(arg), lams, us)
    if typ == "Povm":
        return drv.ask("p_ineq", F, d, n, m, q(np.sqrt(d)), eps, basis_txt(kind), qlist(arg), lams, us)
    if typ == "Gate":
        return drv.ask("g_ineq", F, d, n, eps, basis_txt(kind), qlist(arg), lams, us)
    return drv.ask("m_ineq", F, d, n, m, eps, basis_txt(kind), qlist(arg), lams, us)


def tol_of(*arrays):
    mx = max([1.0] + [float(np.max(np.abs(a))) for a in arrays if a is not None and np.size(a)])
    return 1e-10 * mx


def correspondence(ctx):
    ctx.partial = PARTIAL
    drv = Driver("C04")
    pend = []
    # ---- equality projections: cheap, all sites, both flags
    per = 4 if ctx.quick else 30
    kinds = ("q", "t") if ctx.quick else ("q", "t", "qq")
    for cs in cases(ctx, 11, per, kinds, classes=("random", "physical", "near", "psd", "almost")):
        typ, kind, m, x = cs["typ"], cs["kind"], cs["m"], cs["x"]
        c, _ = system(kind)
        for flag in (False, True):
            for site in ALL_SITES:
                r = call_site(typ, c, "eq", site, flag, x, m)
                arg = r["arg_before"]
                i = eq_request(drv, typ, c, site, flag, arg, m)
                pend.append(("eq", typ, kind, site, flag, m, arg, r, i))
                if typ == "MProcess" and site_base(site) in ("var", "funcvar"):
                    # argument after the call, as modelled (pure since the repair of D5)
                    j = drv.ask("m_eq_var_after", "T" if flag else "F", m, n_of(c), qlist(arg))
                    pend.append(("eqafter", typ, kind, site, flag, m, arg, dict(r, result=r["arg_after"]), j))
                ctx.count(f"eq {typ} {site} flag={flag}")
                ctx.case(("eq", typ, kind, site, flag, m, tuple(arg)), nontrivial=not (flag and typ in ("State", "Gate")),
                         sample={"op": f"eq/{typ}/{site}", "flag": flag, "m": m, "system": kind, "scale": cs["scale"],
                                 "class": cs["cls"]})
    # ---- inequality projections: eigh tapped and passed through
    per = 2 if ctx.quick else 14
    plan = [("State", ("q", "t", "qq")), ("Povm", ("q", "t", "qq") if not ctx.quick else ("q", "t")),
            ("Gate", ("q", "t")), ("MProcess", ("q",))]
    for typ, kinds in plan:
        for cs in cases(ctx, 12 + TYPES.index(typ), per, kinds, types=(typ,), ms=(2, 3, 4, 5) if typ == "Povm" else (2, 3)):
            kind, m, x = cs["kind"], cs["m"], cs["x"]
            c, _ = system(kind)
            for flag in (False, True):
                for site in (ALL_SITES if (ctx.quick is False or cs["cls"] in ("random", "degenerate")) else ("obj", "var")):
                    r = call_site(typ, c, "ineq", site, flag, x, m, tap=True)
                    ctx.count(f"ineq {typ} {site} flag={flag} scale={SCALE_NAME.get(cs['scale'])} class={cs['cls']}")
                    if r["err"] == "imag":
                        # float rounding decides this branch (absolute 1e-13 threshold): oracle's business, not comparable
                        ctx.count("ineq impl raised imag (skipped in correspondence)")
                        continue
                    nexp = m if typ in ("Povm", "MProcess") else 1
                    if r["err"] or len(r["eigh"]) != nexp:
                        ctx.disagree(f"ineq/{typ}/{site}", {"flag": flag, "x": x.tolist(), "m": m, "system": kind},
                                     f"err={r['err']} eigh-calls={len(r['eigh'])}", f"expected {nexp} eigh calls, no error")
                        continue
                    arg = r["arg_before"]
                    i = ineq_request(drv, typ, kind, site, flag, arg, m, r["eigh"])
                    pend.append(("ineq", typ, kind, site, flag, m, arg, r, i))
                    ctx.case(("ineq", typ, kind, site, flag, m, tuple(arg)),
                             nontrivial=bool(any((e[1] < 0).any() for e in r["eigh"])),
                             sample={"op": f"ineq/{typ}/{site}", "flag": flag, "m": m, "system": kind, "scale": cs["scale"],
                                     "class": cs["cls"]})
    out = drv.run()
    for which, typ, kind, site, flag, m, arg, r, i in pend:
        op = f"{which}/{typ}/{site}"
        ctx.corr_ops.add(op)
        if which in ("eq", "ineq") and r["err"] is None and not np.array_equal(r["arg_before"], r["arg_after"]):
            # the model is pure: the argument must be what it was
            ctx.disagree(op + "/argument", {"flag": flag, "m": m, "system": kind, "arg": arg.tolist()},
                         "argument modified", "model: pure")
        inp = {"flag": flag, "m": m, "system": kind, "arg": arg.tolist()}
        toks = out[i].split()
        if toks[0] != "ok":
            ctx.disagree(op, inp, r["err"] or "ok", out[i][:200]); continue
        if r["err"]:
            ctx.disagree(op, inp, "err " + r["err"], out[i][:200]); continue
        mod = _floats(toks[1])
        res = r["result"]
        tol = tol_of(arg, res)
        if mod.shape != res.shape or np.max(np.abs(mod - res), initial=0.0) > tol:
            ctx.disagree(op, inp, res.tolist(), mod.tolist()); continue
        if which == "ineq":
            # contracts of the passed-through kernel: U diag(lam) U^H reproduces the matrix handed to eigh; U unitary
            e1, e2 = float(_frac(toks[2])) ** 0.5, float(_frac(toks[3])) ** 0.5
            if e1 > 1e-9 * max(1.0, float(np.max(np.abs(arg)))) * len(arg) or e2 > 1e-9:
                ctx.disagree(op + "/eigh-contract", inp, "matrix handed to eigh by the implementation",
                             f"model input matrix differs from U diag(lam) U^H by {e1:.3e}; unitarity defect {e2:.3e}")


def _frac(s):
    from fractions import Fraction
    return Fraction(s)


def _floats(tok):
    if tok == "-":
        return np.zeros(0)
    return np.array([float(_frac(v)) for v in tok.split(",")], dtype=np.float64)


# ----------------------------------------------------------------------------- oracle
def min_eigs(typ, kind, x):
    c, _ = system(kind)
    basis = op_basis(typ, kind)
    return min(float(np.linalg.eigvalsh(op_of(basis, blk)).min()) for blk in blocks(typ, c, x))


def rand_feasible_ineq(g, typ, kind, m, scale):
    c, _ = system(kind)
    d = c.dim
    D = d if typ in ("State", "Povm") else d * d
    basis = op_basis(typ, kind)
    nblk = {"State": 1, "Povm": m, "Gate": 1, "MProcess": m}[typ]
    out = []
    for _ in range(nblk):
        r = int(g.integers(0, D + 1))
        if r == 0:
            M = np.zeros((D, D), dtype=complex)
        else:
            a = g.standard_normal((D, r)) + 1j * g.standard_normal((D, r))
            M = a @ a.conj().T * scale * float(g.choice([0.01, 1.0, 10.0])) / D
        out.append(coef_of(basis, M))
    return np.concatenate(out)


def imag_sig(which, typ, site, bucket):
    """default threshold: one signature per type (finding D13); non-default `eps_truncate_imaginary_part`: per entry point"""
    if _ATOL_AT_CALL[0] is not None:
        return f"C04/{which}/{typ}/{site_base(site)}/raises-imag/atol-set-after-construction-{_ATOL_AT_CALL[0]:g}/scale-{bucket}"
    if _EPS_TRUNC[0] is None:
        return f"C04/{which}/{typ}/raises-imag/scale-{bucket}"
    return f"C04/{which}/{typ}/{site_base(site)}/raises-imag/eps_truncate_imaginary_part-{_EPS_TRUNC[0]:g}/scale-{bucket}"


def sig(which, typ, site, flag, what):
    return f"C04/{which}/{typ}/{site}/{'T' if flag else 'F'}/{what}"


def check_point(ctx, g, which, typ, kind, m, x, scale, cls, ncomp, extra=None):
    """all clauses of the property for one input and one projection kind, on the real code"""
    c, _ = system(kind)
    rep0 = {"which": which, "typ": typ, "system": kind, "m": m, "x": np.asarray(x).tolist(), "scale": scale, "class": cls}
    rep0.update(extra or {})
    bucket = SCALE_NAME.get(scale, "1")
    results = {}
    for flag in (False, True):
        for site in ALL_SITES:
            rep = dict(rep0, flag=flag, site=site)
            r = call_site(typ, c, which, site, flag, x, m)
            ctx.case(("oracle", which, typ, kind, site, flag, m, tuple(np.asarray(x).tolist())))
            # (4) the argument is never modified
            if not np.array_equal(r["arg_before"], r["arg_after"]):
                ctx.violate(sig(which, typ, site, flag, "mutates-argument"),
                            f"{typ}.{which} projection ({site}, on_para_eq_constraint={flag}) changed its argument by "
                            f"{np.max(np.abs(r['arg_before'] - r['arg_after'])):.3g}", rep)
            if r["err"]:
                if r["err"] == "imag":
                    ctx.violate(imag_sig(which, typ, site, bucket),
                                f"{typ} {which} projection ({site}) raises ValueError(imaginary parts) at parameter scale ~{bucket}"
                                + (f" although eps_truncate_imaginary_part={_EPS_TRUNC[0]:g} was requested" if _EPS_TRUNC[0] else ""), rep)
                else:
                    ctx.violate(sig(which, typ, site, flag, "raises"), f"{r['err']}: {r.get('msg')}", rep)
                continue
            results[(site, flag)] = r["result"]
    # full-space reading of every site's result
    full = {}
    for (site, flag), res in results.items():
        if site == "obj" or not flag:
            full[(site, flag)] = res
        elif which == "eq":
            full[(site, flag)] = of_var(typ, c, res, True)
        else:
            # reduced variables: the clipped operators need not satisfy the equality constraint, so the variable-level
            # result is the reduced reading of the object-level (full-parameter) nearest point, nothing more
            xin = of_var(typ, c, to_var(typ, c, x, True), True)
            want = to_var(typ, c, ineq_ref(typ, kind, xin), True)
            if res.shape != want.shape or np.max(np.abs(res - want), initial=0) > 1e-8 * max(1.0, float(np.max(np.abs(xin)))):
                ctx.violate(sig(which, typ, site, flag, "not-nearest"),
                            f"reduced-variable result differs from to_var(nearest PSD point) by "
                            f"{np.max(np.abs(res - want), initial=0) if res.shape == want.shape else 'shape'}",
                            dict(rep0, flag=flag, site=site))
    # reference point(s): the input seen by the site (flag True variable-level sites see of_var(to_var(x)))
    for (site, flag), P in full.items():
        rep = dict(rep0, flag=flag, site=site)
        xin = x if (site == "obj" or not flag) else of_var(typ, c, to_var(typ, c, x, True), True)
        xin = np.asarray(xin, dtype=np.float64).ravel()
        if P.shape != xin.shape:
            ctx.violate(sig(which, typ, site, flag, "shape"), f"result has shape {P.shape}, input {xin.shape}", rep); continue
        mag = max(1.0, float(np.max(np.abs(xin))))
        tol = 1e-9 * mag
        if which == "eq":
            C, b = eq_system(typ, c, m)
            # (1) exact feasibility, nearest point by the normal equations, orthogonality to feasible directions
            if np.max(np.abs(C @ P - b)) > 1e-12 * mag:
                ctx.violate(sig(which, typ, site, flag, "infeasible"),
                            f"constraint defect {np.max(np.abs(C @ P - b)):.3g}", rep); continue
            ref = eq_ref(typ, c, m, xin)
            if np.max(np.abs(P - ref)) > tol:
                ctx.violate(sig(which, typ, site, flag, "not-nearest"),
                            f"differs from the least-squares nearest feasible point by {np.max(np.abs(P - ref)):.3g}", rep); continue
            for _ in range(ncomp):
                y = eq_ref(typ, c, m, dy(g, xin.shape, scale * float(g.choice([0.1, 1, 10]))))
                ip = float(np.dot(xin - P, y - P))
                if abs(ip) > 1e-9 * mag * max(1.0, float(np.linalg.norm(y - P))) * max(1.0, float(np.linalg.norm(xin - P))):
                    ctx.violate(sig(which, typ, site, flag, "not-orthogonal"), f"<x-Px, y-Px> = {ip:.3g} for a feasible y", rep); break
        else:
            lo = min_eigs(typ, kind, P)
            if lo < -1e-10 * mag:
                ctx.violate(sig(which, typ, site, flag, "infeasible"), f"smallest eigenvalue {lo:.3g}", rep); continue
            ref = ineq_ref(typ, kind, xin)
            if np.max(np.abs(P - ref)) > 1e-8 * mag:
                ctx.violate(sig(which, typ, site, flag, "not-nearest"),
                            f"differs from the eigen-decomposition reference by {np.max(np.abs(P - ref)):.3g}", rep); continue
            # KKT certificate: P - x >= 0 and <P - x, P> = 0
            lo2 = min_eigs(typ, kind, P - xin)
            comp = float(np.dot(P - xin, P))
            if lo2 < -1e-9 * mag or abs(comp) > 1e-8 * mag * mag * xin.size:
                ctx.violate(sig(which, typ, site, flag, "kkt"), f"P-x min eig {lo2:.3g}, <P-x,P> = {comp:.3g}", rep); continue
            for _ in range(ncomp):
                y = rand_feasible_ineq(g, typ, kind, m, scale)
                ip = float(np.dot(xin - P, y - P))
                if ip > 1e-8 * mag * max(1.0, float(np.linalg.norm(y - P))) * max(1.0, float(np.linalg.norm(xin - P))):
                    ctx.violate(sig(which, typ, site, flag, "vi"), f"<x-Px, y-Px> = {ip:.3g} > 0 for a PSD competitor y", rep); break
    # (3) object-level = variable-level, both flags
    for flag in (False, True):
        base = results.get(("var", flag))
        for site in ("func", "funcvar") + CLOSURE_VARIANTS:
            o = results.get((site, flag))
            if base is not None and o is not None and (base.shape != o.shape or np.max(np.abs(base - o), initial=0) > 1e-10 * max(1.0, float(np.max(np.abs(base), initial=0)))):
                ctx.violate(sig(which, typ, site, flag, "obj-vs-var"),
                            f"{site} result differs from calc_proj_{which}_constraint_with_var by {np.max(np.abs(base - o)):.3g}",
                            dict(rep0, flag=flag, site=site))
    o, v = results.get(("obj", False)), results.get(("var", False))
    if o is not None and v is not None and np.max(np.abs(o - v)) > 1e-10 * max(1.0, float(np.max(np.abs(o)))):
        ctx.violate(sig(which, typ, "var", False, "obj-vs-var"), f"object-level and variable-level results differ by {np.max(np.abs(o - v)):.3g}",
                    dict(rep0, flag=False, site="var"))
    # (2) idempotence and fixed points (object level and variable level, flag False)
    P = results.get(("obj", False))
    if P is not None:
        mag = max(1.0, float(np.max(np.abs(P))))
        for site in ("obj", "var"):
            r2 = call_site(typ, c, which, site, False, P, m)
            if r2["err"]:
                if r2["err"] != "imag":
                    ctx.violate(sig(which, typ, site, False, "idem-raises"), f"{r2['err']}: {r2.get('msg')}", dict(rep0, flag=False, site=site))
                else:
                    ctx.violate(imag_sig(which, typ, site, bucket),
                                f"{typ} {which} projection raises ValueError(imaginary parts) at parameter scale ~{bucket}", dict(rep0, flag=False, site=site))
            elif np.max(np.abs(r2["result"] - P)) > 1e-9 * mag:
                ctx.violate(sig(which, typ, site, False, "not-idempotent"),
                            f"P(P(x)) differs from P(x) by {np.max(np.abs(r2['result'] - P)):.3g}", dict(rep0, flag=False, site=site))
    feasible_in = (which == "eq" and cls in ("physical",)) or (which == "ineq" and cls in ("physical", "psd", "boundary"))
    if feasible_in:
        for (site, flag), Pf in full.items():
            xin = x if (site == "obj" or not flag) else of_var(typ, c, to_var(typ, c, x, True), True)
            if np.max(np.abs(Pf - np.asarray(xin).ravel())) > 1e-9 * max(1.0, float(np.max(np.abs(xin)))):
                ctx.violate(sig(which, typ, site, flag, "moves-feasible-point"),
                            f"a feasible input is moved by {np.max(np.abs(Pf - np.asarray(xin).ravel())):.3g}", dict(rep0, flag=flag, site=site))


def oracle(ctx, volume=1):
    if ctx.quick:
        plan = [(("q", "t"), 4 * volume, 6), (("qq",), 1 * volume, 3)]
    else:
        plan = [(("q", "t"), 60 * volume, 10), (("qq",), 16 * volume, 6), (("qt",), 2 * volume, 3)]
    for pi, (kinds, per, ncomp) in enumerate(plan):
        for which in ("eq", "ineq"):
            types = TYPES
            if which == "ineq" and "qt" in kinds:
                types = ("State", "Povm")            # 36x36 Choi matrices of qubit x qutrit gates: equality part only
            if "qt" in kinds and which == "eq":
                types = TYPES
            for cs in cases(ctx, 100 + 10 * pi + (0 if which == "eq" else 1), per, kinds, types=types,
                            ms=(2, 3, 4, 5) if "q" in kinds else (2, 3)):
                ctx.count(f"oracle {which} {cs['typ']} {cs['kind']} class={cs['cls']} scale={SCALE_NAME.get(cs['scale'])}")
                check_point(ctx, cs["g"], which, cs["typ"], cs["kind"], cs["m"], cs["x"], cs["scale"], cs["cls"], ncomp)
    defect_d5(ctx)
    basis_table_sequence(ctx, volume)
    equal_dim_sequence(ctx, volume)
    mprocess_shapes(ctx, volume)
    nondefault_eps(ctx, volume)
    aliased_elements(ctx, volume)
    low_purity(ctx, volume)


def basis_table_sequence(ctx, volume=1):
    """composite systems of equal dimension and equal number of subsystems but different factor order (2x3, then 3x2), and
    2x2, used one after the other in one process: every system must project with ITS OWN basis tables"""
    g = ctx.npgen(8)
    for kind in ("qt", "tq", "qq", "tq", "qt"):
        for typ, m in (("State", 1), ("Povm", 3)):
            for cls in (("random", "lowpurity") if typ == "State" else ("random",)):
                for _ in range(volume):
                    x = gen_param(g, typ, kind, m, 1.0, cls)
                    ctx.count(f"oracle basis-table sequence {typ} {kind} class={cls}")
                    check_point(ctx, g, "ineq", typ, kind, m, x, 1.0, cls, 3)


def mprocess_shapes(ctx, volume=1):
    """measurement processes whose outcomes are laid out on several axes (shape (2,2), (2,3), (1,3), (3,1): what
    tensor_product / compose of m-processes produce): the equality projection spreads the defect over ALL outcomes"""
    from quara.objects.operators import tensor_product
    g = ctx.npgen(12)
    cq, _ = system("q")
    todo = [("q", sh) for sh in ((2, 2), (2, 3), (1, 3), (3, 1))] + [("t", (2, 2))]
    for kind, sh in todo:
        m = int(np.prod(sh))
        for cls in ("random", "near"):
            x = gen_param(g, "MProcess", kind, m, 1.0, cls)
            _MP_SHAPE[0] = sh
            try:
                ctx.count(f"oracle mprocess shape={sh} {kind} class={cls}")
                check_point(ctx, g, "eq", "MProcess", kind, m, x, 1.0, cls, 2, extra={"shape": list(sh)})
            finally:
                _MP_SHAPE[0] = None
    # a genuine tensor product of two 1-qubit m-processes (shape (2,2) on a 2-qubit system), perturbed
    a = make("MProcess", cq, gen_param(g, "MProcess", "q", 2, 1.0, "physical"), False)
    c1 = qobj.csys("qubit", names=(10,))
    b = MProcess(c1, [h.copy() for h in gen_param(g, "MProcess", "q", 2, 1.0, "physical").reshape(2, 4, 4)], is_physicality_required=False,
                 on_para_eq_constraint=False)
    tp = tensor_product(a, b)
    c2 = tp.composite_system
    x = stacked(tp) + dy(g, stacked(tp).shape, 2.0 ** -4)
    obj = MProcess(c2, [h.copy() for h in x.reshape(4, 16, 16)], shape=tp.shape, is_physicality_required=False, on_para_eq_constraint=False)
    rep = {"which": "eq", "typ": "MProcess", "system": "tensor(q,q)", "m": 4, "x": x.tolist(), "shape": list(tp.shape), "kind": "tensor"}
    ctx.case(("oracle", "eq", "MProcess", "tensor", tuple(x.tolist())))
    try:
        r = stacked(obj.calc_proj_eq_constraint())
        v = np.array(MProcess.calc_proj_eq_constraint_with_var(c2, x.copy(), on_para_eq_constraint=False), dtype=float)
        f = np.array(obj.func_calc_proj_eq_constraint(on_para_eq_constraint=False)(x.copy()), dtype=float)
    except Exception as e:  # noqa
        ctx.violate("C04/eq/MProcess/tensor-shape/raises", f"{type(e).__name__}: {e}", rep); return
    ref = eq_ref("MProcess", c2, 4, x)
    for nm, val in (("obj", r), ("var", v), ("func", f)):
        if np.max(np.abs(val - ref)) > 1e-9:
            ctx.violate(f"C04/eq/MProcess/{nm}/tensor-shape/not-nearest",
                        f"tensor product of two 2-outcome m-processes (shape {tuple(tp.shape)}): {nm} result differs from the nearest "
                        f"feasible point by {np.max(np.abs(val - ref)):.3g}", rep)


def nondefault_eps(ctx, volume=1):
    """objects built with a non-default `eps_truncate_imaginary_part` (1e-8): the option must reach `truncate_hs` from every
    entry point, so that parameters of size 1e2..1e3 are projected (the default 1e-13 is what finding D13 is about)"""
    g = ctx.npgen(13)
    _EPS_TRUNC[0] = 1e-8
    try:
        for typ, kind, m in (("State", "q", 1), ("State", "t", 1), ("Povm", "q", 3), ("Gate", "q", 1), ("MProcess", "q", 2)):
            for scale in (128.0, 1024.0):
                for _ in range(volume):
                    x = gen_param(g, typ, kind, m, scale, "random")
                    ctx.count(f"oracle non-default eps_truncate_imaginary_part {typ} {kind} scale={SCALE_NAME[scale]}")
                    check_point(ctx, g, "ineq", typ, kind, m, x, scale, "random", 2, extra={"eps_trunc": 1e-8})
    finally:
        _EPS_TRUNC[0] = None
    # the global `Settings.set_atol` changed after construction must be honoured as well (objects keep `None` = "current atol")
    _ATOL_AT_CALL[0] = 1e-8
    try:
        for typ, kind, m in (("State", "q", 1), ("Povm", "q", 3), ("Gate", "q", 1), ("MProcess", "q", 2)):
            for _ in range(volume):
                x = gen_param(g, typ, kind, m, 1024.0, "random")
                ctx.count(f"oracle atol set after construction {typ} {kind} scale=1e3")
                check_point(ctx, g, "ineq", typ, kind, m, x, 1024.0, "random", 2, extra={"atol_at_call": 1e-8})
    finally:
        _ATOL_AT_CALL[0] = None
    derived_objects(ctx, g, volume)


def derived_objects(ctx, g, volume=1):
    """objects obtained from others by `+`, `-`, `*`, `/`, `copy()`: they must carry the configuration of their operands (here the
    non-default `eps_truncate_imaginary_part`), so that their projections behave like those of a directly constructed object"""
    for typ, kind, m in (("State", "q", 1), ("Povm", "q", 2), ("Gate", "q", 1), ("MProcess", "q", 2)):
        c, _ = system(kind)
        for _ in range(volume):
            x = gen_param(g, typ, kind, m, 1024.0, "random")
            y = gen_param(g, typ, kind, m, 1024.0, "random")
            kw = dict(eps_truncate_imaginary_part=1e-8)
            a, b = make(typ, c, x, False, **kw), make(typ, c, y, False, **kw)
            for nm, build, val in (("add", lambda: a + b, x + y), ("sub", lambda: a - b, x - y), ("mul", lambda: a * 0.5, x * 0.5),
                                   ("div", lambda: a / 2.0, x / 2.0), ("copy", lambda: a.copy(), x)):
                rep = {"which": "ineq", "typ": typ, "system": kind, "m": m, "x": x.tolist(), "y": y.tolist(), "kind": "derived", "op": nm}
                ctx.case(("oracle", "derived", typ, nm, tuple(x.tolist())))
                try:
                    o = build()
                    if o.eps_truncate_imaginary_part != 1e-8:
                        ctx.violate(f"C04/ineq/{typ}/derived-{nm}/option-dropped",
                                    f"`{nm}` of {typ}s built with eps_truncate_imaginary_part=1e-8 carries {o.eps_truncate_imaginary_part}", rep)
                    r = stacked(o.calc_proj_ineq_constraint())
                except Exception as e:  # noqa
                    ctx.violate(f"C04/ineq/{typ}/derived-{nm}/raises", f"{type(e).__name__}: {str(e)[:100]}", rep); continue
                ref = ineq_ref(typ, kind, val)
                if np.max(np.abs(r - ref)) > 1e-8 * max(1.0, float(np.max(np.abs(val)))):
                    ctx.violate(f"C04/ineq/{typ}/derived-{nm}/not-nearest", f"differs from the reference by {np.max(np.abs(r - ref)):.3g}", rep)


def aliased_elements(ctx, volume=1):
    """objects whose element list contains the SAME ndarray object more than once (`[A, A, B]`, `[hs] * m`): the projection
    must treat the elements as values"""
    g = ctx.npgen(14)
    c, _ = system("q")
    n = 4
    fixed = [("MProcess", [np.eye(4), None, np.zeros((4, 4))])]
    for t in range(2 * volume):
        A, B = dy(g, (n, n), 1.0), dy(g, (n, n), 1.0)
        fixed.append(("MProcess", [A, None, B] if t % 2 == 0 else [B, A, None]))
        a, b = dy(g, n, 1.0), dy(g, n, 1.0)
        fixed.append(("Povm", [a, None, b] if t % 2 == 0 else [b, a, None, None]))
    for typ, elems in fixed:
        first = next(e for e in elems if e is not None)
        elems = [first if e is None else e for e in elems]         # None -> the very same object as the first element
        m = len(elems)
        x = np.concatenate([np.ravel(e) for e in elems]).astype(float)
        rep = {"which": "eq", "typ": typ, "system": "q", "m": m, "x": x.tolist(), "kind": "aliased",
               "alias": [int(next(i for i, f in enumerate(elems) if f is e)) for e in elems]}
        for which in ("eq", "ineq"):
            ctx.case(("oracle", "aliased", which, typ, tuple(x.tolist())))
            try:
                obj = CLS[typ](c, list(elems), is_physicality_required=False, on_para_eq_constraint=False)
                before = stacked(obj)
                r = stacked(getattr(obj, f"calc_proj_{which}_constraint")())
                after = stacked(obj)
            except Exception as e:  # noqa
                ctx.violate(f"C04/{which}/{typ}/obj/aliased-elements/raises", f"{type(e).__name__}: {str(e)[:120]}", dict(rep, which=which)); continue
            ref = eq_ref(typ, c, m, x) if which == "eq" else ineq_ref(typ, "q", x)
            if not np.array_equal(before, after):
                ctx.violate(f"C04/{which}/{typ}/obj/aliased-elements/mutates-argument", "the object was modified", dict(rep, which=which))
            if np.max(np.abs(r - ref)) > 1e-9 * max(1.0, float(np.max(np.abs(x)))):
                ctx.violate(f"C04/{which}/{typ}/obj/aliased-elements/not-nearest",
                            f"{typ} whose element list contains the same ndarray twice (positions {rep['alias']}): result differs from "
                            f"the nearest feasible point by {np.max(np.abs(r - ref)):.3g}", dict(rep, which=which))


def equal_dim_sequence(ctx, volume=1):
    """systems of equal dimension with different bases, one after the other (2 qubits Pauli x Pauli -> one 4-level generalised
    Gell-Mann system -> rotated 2-qubit basis -> back; qubit Pauli -> rotated qubit -> back): HS <-> Choi conversions
    (Gate / MProcess clauses) must use each system's own basis"""
    g = ctx.npgen(10)
    for kind in ("qq", "g4", "qqr", "qq", "q", "qr", "q"):
        for typ, m in (("Gate", 1), ("MProcess", 2)):
            if typ == "MProcess" and kind in ("qqr", "qq") and ctx.quick:
                continue
            for cls in ("near",) if ctx.quick else ("near", "random", "physical"):
                for _ in range(volume):
                    x = gen_param(g, typ, kind, m, 1.0, cls)
                    ctx.count(f"oracle equal-dimension sequence {typ} {kind} class={cls}")
                    check_point(ctx, g, "ineq", typ, kind, m, x, 1.0, cls, 3)


def low_purity(ctx, volume=1):
    """trace-one, low-purity (<= 1/2), slightly non-PSD inputs (noisy linear estimates of rank-deficient mixed states):
    inside the 'Bloch ball' but not PSD for d > 2"""
    g = ctx.npgen(9)
    for kind in ("qq", "t", "q"):
        for typ, m in (("State", 1), ("Povm", 2)):
            for _ in range((2 if ctx.quick else 8) * volume):
                x = gen_param(g, typ, kind, m, 1.0, "lowpurity")
                ctx.count(f"oracle low-purity {typ} {kind}")
                check_point(ctx, g, "ineq", typ, kind, m, x, 1.0, "lowpurity", 3)


def defect_d5(ctx):
    """minimal exhibit of DESIGN §5-D5 (repaired in /repo d072139; kept as a fixed corpus case so that a regression is
    reported as C04/eq/MProcess/var/F/mutates-argument on every run)"""
    c, _ = system("q")
    x = stacked(qobj.rand_mprocess(ctx.npgen(5), c, 2, required=False)[0])
    x = x + 0.01
    check_point(ctx, ctx.npgen(6), "eq", "MProcess", "q", 2, x, 1.0, "near", 1)


def search(ctx):
    oracle(ctx, volume=3)
    g = ctx.npgen(777)
    for dgr in ctx.disagreements[:40]:
        inp = dgr.get("input") or {}
        op = dgr["op"].split("/")
        if len(op) < 3 or "system" not in inp:
            continue
        which, typ = op[0], op[1]
        if typ not in TYPES:
            continue
        c, _ = system(inp["system"])
        flag = inp.get("flag", False)
        arg = np.array(inp.get("arg", inp.get("x", [])), dtype=float)
        try:
            x = arg if arg.size == int(np.prod(shape_of(typ, c, inp["m"]))) else of_var(typ, c, arg, flag)
            check_point(ctx, g, which, typ, inp["system"], inp["m"], x, max(1.0, float(np.max(np.abs(x)))), "random", 6)
        except Exception:  # noqa
            continue


def replay(ctx, data):
    r = data["replay"]
    print("replaying", {k: v for k, v in r.items() if k != "x"})
    before = len(ctx.violations)
    if r.get("kind") == "tensor":
        mprocess_shapes(ctx)
    elif r.get("kind") == "aliased":
        aliased_elements(ctx)
    elif r.get("kind") == "derived":
        derived_objects(ctx, ctx.npgen(13))
        nondefault_eps(ctx)
    else:
        _EPS_TRUNC[0] = r.get("eps_trunc")
        _ATOL_AT_CALL[0] = r.get("atol_at_call")
        warm_siblings(r["system"])
        _MP_SHAPE[0] = tuple(r["shape"]) if r.get("shape") else None
        try:
            check_point(ctx, ctx.npgen(1), r["which"], r["typ"], r["system"], r["m"], np.array(r["x"], dtype=float), r.get("scale", 1.0),
                        r.get("class", "random"), 8,
                        extra={k: r[k] for k in ("shape", "eps_trunc", "atol_at_call") if r.get(k) is not None} or None)
        finally:
            _MP_SHAPE[0] = None
            _EPS_TRUNC[0] = None
            _ATOL_AT_CALL[0] = None
    for v in ctx.violations[before:]:
        print(" ", v["signature"], "--", v["what"])
    hit = [v for v in ctx.violations[before:] if v["signature"] == data.get("signature")]
    return 1 if hit else 0
