"""Shared set-up code of the C10 / C11 harnesses: tomography experiments with well-conditioned (rotated MUB) testers,
data generators, independent physicality defects, estimator runners.  Owned by the C10/C11 builder."""
import io, contextlib, itertools
import numpy as np
import shim  # noqa: F401
import qobj
from quara.objects.state import State
from quara.objects.povm import Povm
from quara.objects.gate import Gate
from quara.objects.mprocess import MProcess
from quara.protocol.qtomography.standard.standard_qst import StandardQst
from quara.protocol.qtomography.standard.standard_povmt import StandardPovmt
from quara.protocol.qtomography.standard.standard_qpt import StandardQpt
from quara.protocol.qtomography.standard.standard_qmpt import StandardQmpt
from quara.protocol.qtomography.standard.linear_estimator import LinearEstimator
from quara.protocol.qtomography.standard.projected_linear_estimator import ProjectedLinearEstimator
from quara.protocol.qtomography.standard.loss_minimization_estimator import LossMinimizationEstimator
from quara.loss_function.weighted_probability_based_squared_error import (
    WeightedProbabilityBasedSquaredError as SE, WeightedProbabilityBasedSquaredErrorOption as SEO)
from quara.loss_function.weighted_relative_entropy import (
    WeightedRelativeEntropy as RE, WeightedRelativeEntropyOption as REO)
from quara.loss_function.standard_qtomography_based_weighted_probability_based_squared_error import (
    StandardQTomographyBasedWeightedProbabilityBasedSquaredError as FSE,
    StandardQTomographyBasedWeightedProbabilityBasedSquaredErrorOption as FSEO)
from quara.loss_function.standard_qtomography_based_weighted_relative_entropy import (
    StandardQTomographyBasedWeightedRelativeEntropy as FRE,
    StandardQTomographyBasedWeightedRelativeEntropyOption as FREO)
from quara.minimization_algorithm.projected_gradient_descent_backtracking import (
    ProjectedGradientDescentBacktracking as PGDB, ProjectedGradientDescentBacktrackingOption as PGDBO)
from quara.minimization_algorithm.projected_gradient_descent_with_momentum import (
    ProjectedGradientDescentWithMomentum as PGDM, ProjectedGradientDescentWithMomentumOption as PGDMO)
from quara.minimization_algorithm.projected_fast_iterative_shrinkage_thresholding_algorithm import (
    ProjectedFastIterativeShrinkageThresholdingAlgorithm as FISTA,
    ProjectedFastIterativeShrinkageThresholdingAlgorithmOption as FISTAO)

LOSSES = {"se": (SE, SEO), "re": (RE, REO), "fse": (FSE, FSEO), "fre": (FRE, FREO)}
ALGOS = {"pgdb": (PGDB, PGDBO), "pgdm": (PGDM, PGDMO), "fista": (FISTA, FISTAO)}
KINDS = ("qst", "povmt", "qpt", "qmpt")
SYSTEMS = {"1qubit": ("qubit", (0,)), "1qutrit": ("qutrit", (0,)), "2qubit": ("qubit", (0, 1))}


def quiet(fn, *a, **k):
    """quara prints warnings with print(); keep the check's stdout clean but hand the text back"""
    buf = io.StringIO()
    with contextlib.redirect_stdout(buf):
        r = fn(*a, **k)
    return r, buf.getvalue()


# ----------------------------------------------------------------------------- testers
def _mub_bases(d):
    """d+1 mutually unbiased bases for d = 2, 3 (columns are basis vectors)"""
    if d == 2:
        s = 1 / np.sqrt(2)
        return [np.eye(2, dtype=complex), np.array([[s, s], [s, -s]], dtype=complex),
                np.array([[s, s], [1j * s, -1j * s]], dtype=complex)]
    if d == 3:
        w = np.exp(2j * np.pi / 3)
        out = [np.eye(3, dtype=complex)]
        for k in range(3):
            out.append(np.array([[w ** (a * b + k * a * a) for b in range(3)] for a in range(3)]) / np.sqrt(3))
        return out
    raise ValueError(d)


def local_bases(g, kind, rotate=True):
    d = 2 if kind == "qubit" else 3
    u = qobj.rand_unitary(g, d) if rotate else np.eye(d)
    return [u @ b for b in _mub_bases(d)]


def tester_matrices(g, sysname, rotate=True):
    """(list of projective bases as unitary matrices, list of IC pure-state density matrices) for the system;
    product testers on two qubits.  A random local rotation keeps the conditioning of the standard MUB testers."""
    kind, names = SYSTEMS[sysname]
    per = [local_bases(g, kind, rotate) for _ in names]
    bases = [np.array(1.0)]
    for loc in per:
        bases = [np.kron(a, b) for a in bases for b in loc] if bases[0].ndim else [b for b in loc]
    bases = [np.atleast_2d(b) for b in bases]
    # IC states: per subsystem the first vector of every basis + the second vector of the first basis
    pers = []
    for loc in per:
        vs = [b[:, 0] for b in loc] + [loc[0][:, 1]]
        if loc[0].shape[0] == 3:   # qutrit needs 9: add more columns
            vs += [loc[0][:, 2]] + [b[:, 1] for b in loc[1:]]
        pers.append(vs)
    vecs = [np.array([1.0 + 0j])]
    for vs in pers:
        vecs = [np.kron(a, b) for a in vecs for b in vs]
    rhos = [np.outer(v, v.conj()) for v in vecs]
    return bases, rhos


def make_qt(g, kind, sysname, para, m=None, rotate=True, eps_proj_physical=None, testers="mub", perm=False):
    """(qt, c_sys, m).  m = outcome count of the estimated POVM / measurement process.
    testers="ineff": over-complete, imperfect testers -- one extra random basis, detection efficiency 60-90 % on all but the
    last element of every tester POVM (elements of unequal trace), partly depolarised tester states: the linear estimate of
    normalised data is then NOT automatically on the equality constraint when on_para_eq_constraint=False."""
    k, names = SYSTEMS[sysname]
    c = qobj.csys(k, names)
    d = c.dim
    bases, rhos = tester_matrices(g, sysname, rotate)
    if testers == "ineff":
        bases = bases + [qobj.rand_unitary(g, d)]
        mats = []
        for b in bases:
            eta = float(g.uniform(0.6, 0.9))
            els = [eta * np.outer(b[:, i], b[:, i].conj()) for i in range(d - 1)]
            els.append(np.eye(d) - sum(els))
            mats.append(els)
        povms = [Povm(c, [qobj.vec_of(c, e) for e in els]) for els in mats]
        extra = qobj.rand_density(g, d)
        rhos = [(1 - lam) * r + lam * np.eye(d) / d for r, lam in zip(rhos, g.uniform(0.0, 0.4, size=len(rhos)))] + [extra]
    else:
        povms = [Povm(c, [qobj.vec_of(c, np.outer(b[:, i], b[:, i].conj())) for i in range(b.shape[1])]) for b in bases]
    states = [State(c, qobj.vec_of(c, r)) for r in rhos]
    # the default schedules of the four classes, as (tester state index, tester povm index) pairs in schedule order
    pairs = {"qst": [(None, j) for j in range(len(povms))], "povmt": [(i, None) for i in range(len(states))]}.get(
        kind, [(i, j) for i in range(len(states)) for j in range(len(povms))])
    schedules = "all"
    if perm:
        # an explicit schedule list: the same experiments in another order (a random permutation, never the identity)
        order = list(g.permutation(len(pairs)))
        if order == sorted(order):
            order = order[1:] + order[:1]
        pairs = [pairs[i] for i in order]
        mid = {"qst": [], "povmt": [], "qpt": [("gate", 0)], "qmpt": [("mprocess", 0)]}[kind]
        schedules = [([("state", i if i is not None else 0)] + mid + [("povm", j if j is not None else 0)]) for i, j in pairs]
    kw = dict(on_para_eq_constraint=para, schedules=schedules, eps_proj_physical=eps_proj_physical)
    if kind == "qst":
        qt = StandardQst(povms, **kw)
    elif kind == "povmt":
        m = m or 3
        qt = StandardPovmt(states, m, **kw)
    elif kind == "qpt":
        qt = StandardQpt(states, povms, **kw)
    else:
        m = m or 2
        qt = StandardQmpt(states, povms, m, **kw)
    qt.verif_testers = (states, povms, pairs)        # for the independent Born-rule forward model of the harness
    return qt, c, (m if kind in ("povmt", "qmpt") else None)


def born_probs(qt, obj):
    """probability distributions of the experiment, schedule by schedule, from the Born rule in basis coordinates (orthonormal
    Hermitian basis: tr(E rho) = <e, r>), using the tester objects and the schedule list only -- not quara's coefficient matrices"""
    states, povms, pairs = qt.verif_testers
    out = []
    for i, j in pairs:
        if isinstance(obj, State):
            out.append(np.array([np.dot(e, obj.vec) for e in povms[j].vecs]))
        elif isinstance(obj, Povm):
            out.append(np.array([np.dot(e, states[i].vec) for e in obj.vecs]))
        elif isinstance(obj, Gate):
            r = obj.hs @ states[i].vec
            out.append(np.array([np.dot(e, r) for e in povms[j].vecs]))
        else:
            out.append(np.array([np.dot(e, h @ states[i].vec) for h in obj.hss for e in povms[j].vecs]))
    return out


# ----------------------------------------------------------------------------- true objects
def true_object(g, kind, c, m, cls):
    """cls: 'interior' (full rank) | 'boundary' (rank deficient: pure state, projective / rank-one elements, unitary gate,
    rank-one instrument)"""
    d = c.dim
    if kind == "qst":
        return State(c, qobj.vec_of(c, qobj.rand_density(g, d, rank=1 if cls == "boundary" else d)))
    if kind == "povmt":
        if cls == "boundary":
            # rank-one elements built from an isometry: sum_x |a_x><a_x| (+ zero-padding element when m > ...) = 1
            u = qobj.rand_unitary(g, max(m, d))[:, :d]          # m x d isometry rows a_x
            mats = [np.outer(u[i].conj(), u[i]) for i in range(u.shape[0])]
            if m < d:   # fewer outcomes than dimension: merge the remaining projectors into the last element
                mats = mats[:m - 1] + [sum(mats[m - 1:])]
            return Povm(c, [qobj.vec_of(c, e) for e in mats])
        return qobj.rand_povm(g, c, m)
    if kind == "qpt":
        if cls == "boundary":
            u = qobj.rand_unitary(g, d)
            return Gate(c, qobj.hs_of_kraus(c, [u]))
        return qobj.rand_gate(g, c, kraus_rank=d * d)
    if cls == "boundary":
        return qobj.rand_mprocess(g, c, m, kraus_rank=1)[0]
    return qobj.rand_mprocess(g, c, m, kraus_rank=d * d)[0]


def aligned_object(g, kind, sysname, c, m):
    """boundary object built from the (unrotated) tester bases themselves: its exact distributions contain exact zeros and ones
    (eigenstate of a tester, projective POVM / instrument in a tester basis, unitary mapping one tester basis onto another)"""
    bases, _ = tester_matrices(g, sysname, rotate=False)
    d = c.dim
    j, k = int(g.integers(0, len(bases))), int(g.integers(0, len(bases)))
    b = bases[j]
    projs = [np.outer(b[:, i], b[:, i].conj()) for i in range(d)]
    if kind == "qst":
        return State(c, qobj.vec_of(c, projs[int(g.integers(0, d))]))
    if kind in ("povmt", "qmpt"):
        groups = [[projs[i]] for i in range(m - 1)] + [[projs[i] for i in range(m - 1, d)]]      # m <= d outcomes
        if kind == "povmt":
            return Povm(c, [qobj.vec_of(c, sum(gr)) for gr in groups])
        return MProcess(c, [qobj.hs_of_kraus(c, gr) for gr in groups])
    u = bases[j] @ bases[k].conj().T
    return Gate(c, qobj.hs_of_kraus(c, [u]))


def exact_data(qt, obj, shots=1000):
    return [(shots, np.array(p, dtype=np.float64)) for p in qt.calc_prob_dists(obj)]


def fewshot_data(g, qt, obj, shots):
    out = []
    for p in qt.calc_prob_dists(obj):
        p = np.clip(np.array(p, dtype=np.float64), 0, None)
        p = p / p.sum()
        out.append((shots, g.multinomial(shots, p) / shots))
    return out


def farout_data(g, qt, obj, mode):
    """valid probability vectors that no physical object produces: every schedule deterministic on a random outcome
    ('det'), or independent Dirichlet draws ('dir')"""
    out = []
    for p in qt.calc_prob_dists(obj):
        n = len(p)
        if mode == "det":
            v = np.zeros(n); v[int(g.integers(0, n))] = 1.0
        else:
            v = g.dirichlet(np.ones(n) * 0.3)
            v = v / v.sum()
        out.append((10, v))
    return out


# ----------------------------------------------------------------------------- independent physicality defects
def _choi(c, hs):
    B = qobj.basis_mats(c)
    n = len(B)
    J = np.zeros((c.dim ** 2, c.dim ** 2), dtype=complex)
    for a in range(n):
        for b in range(n):
            if hs[a, b] != 0.0:
                J += hs[a, b] * np.kron(B[a], B[b].conj())
    return J


def defects(obj):
    """(eq_defect, min_eig): Frobenius/Euclidean size of the violated equality constraint in parameter units and the
    smallest eigenvalue over all matrices that must be PSD.  Independent of quara's own verdict functions."""
    c = obj.composite_system
    d = c.dim
    if isinstance(obj, State):
        rho = qobj.mat_of(c, obj.vec)
        return abs(np.trace(rho).real - 1.0) / np.sqrt(d), float(np.linalg.eigvalsh(rho).min())
    if isinstance(obj, Povm):
        mats = [qobj.mat_of(c, v) for v in obj.vecs]
        return float(np.linalg.norm(sum(mats) - np.eye(d))), float(min(np.linalg.eigvalsh(e).min() for e in mats))
    if isinstance(obj, Gate):
        hs = obj.hs
        e0 = np.zeros(hs.shape[1]); e0[0] = 1.0
        return float(np.linalg.norm(hs[0] - e0)), float(np.linalg.eigvalsh(_choi(c, hs)).min())
    if isinstance(obj, MProcess):
        hss = obj.hss
        e0 = np.zeros(hss[0].shape[1]); e0[0] = 1.0
        return float(np.linalg.norm(sum(hss)[0] - e0)), float(min(np.linalg.eigvalsh(_choi(c, h)).min() for h in hss))
    raise TypeError(type(obj))


# ----------------------------------------------------------------------------- estimator runners
def run_ple(qt, empi, order, history=False):
    est = ProjectedLinearEstimator(mode_proj_order=order)
    return quiet(est.calc_estimate, qt, empi, is_computation_time_required=history)


def run_lme(qt, empi, loss, algo, history=True, func_proj=None, mode_weight="identity", **opt):
    """returns (result, printed text, loss object, algorithm object, option object)"""
    L, LO = LOSSES[loss]
    A, AO = ALGOS[algo]
    lo = LO(mode_weight)
    est = LossMinimizationEstimator()
    lobj, aobj, aopt = L(qt.num_variables), (A(func_proj) if func_proj is not None else A()), AO(**opt)
    r, msg = quiet(est.calc_estimate, qt, empi, lobj, lo, aobj, aopt,
                   is_computation_time_required=history, is_detailed_results_required=history)
    return r, msg, lobj, aobj, aopt


# ----------------------------------------------------------------------------- independent reference projection (numpy only)
def _clip_psd(mat):
    h = (mat + mat.conj().T) / 2
    w, v = np.linalg.eigh(h)
    return (v * np.clip(w, 0, None)) @ v.conj().T


class RefProjector:
    """Nearest physical point in the stacked-parameter (Euclidean) metric, by a Dykstra iteration written here from the two
    elementary projections only: eigenvalue clipping of the density / POVM-element / Choi matrices and the affine equality
    projection.  Uses nothing of quara but the matrix basis of the composite system."""

    def __init__(self, obj):
        self.c = obj.composite_system
        self.d = self.c.dim
        self.B = qobj.basis_mats(self.c)
        self.n = len(self.B)
        if isinstance(obj, State):
            self.kind, self.m = "state", 1
        elif isinstance(obj, Povm):
            self.kind, self.m = "povm", len(obj.vecs)
        elif isinstance(obj, Gate):
            self.kind, self.m = "gate", 1
        else:
            self.kind, self.m = "mprocess", len(obj.hss)
        if self.kind in ("gate", "mprocess"):
            # orthonormal operator basis of the Choi space, flattened: hs[a,b] <-> B_a (x) conj(B_b)
            self.K = np.array([np.kron(a, b.conj()).reshape(-1) for a in self.B for b in self.B])   # (n*n, d^4)

    # -- elementary projections on stacked vectors
    def _psd_vec(self, v):
        mat = sum(x * b for x, b in zip(v, self.B))
        p = _clip_psd(mat)
        return np.array([np.trace(b.conj().T @ p).real for b in self.B])

    def _psd_hs(self, hsflat):
        J = (hsflat @ self.K).reshape(self.d ** 2, self.d ** 2)
        P = _clip_psd(J)
        return (self.K.conj() @ P.reshape(-1)).real

    def proj_ineq(self, s):
        if self.kind == "state":
            return self._psd_vec(s)
        if self.kind == "povm":
            return np.concatenate([self._psd_vec(v) for v in s.reshape(self.m, self.n)])
        if self.kind == "gate":
            return self._psd_hs(s)
        return np.concatenate([self._psd_hs(v) for v in s.reshape(self.m, self.n * self.n)])

    def proj_eq(self, s):
        s = np.array(s, dtype=float)
        if self.kind == "state":
            s[0] = 1 / np.sqrt(self.d)
            return s
        if self.kind == "povm":
            vs = s.reshape(self.m, self.n).copy()
            target = np.zeros(self.n); target[0] = np.sqrt(self.d)
            vs -= (vs.sum(axis=0) - target) / self.m
            return vs.reshape(-1)
        e0 = np.zeros(self.n); e0[0] = 1.0
        if self.kind == "gate":
            hs = s.reshape(self.n, self.n).copy()
            hs[0] = e0
            return hs.reshape(-1)
        hss = s.reshape(self.m, self.n, self.n).copy()
        hss[:, 0, :] -= (hss[:, 0, :].sum(axis=0) - e0) / self.m
        return hss.reshape(-1)

    def project(self, z, tol=1e-13, max_iter=20000):
        """returns (nearest physical point, iterations, converged)"""
        x = np.array(z, dtype=float)
        p = np.zeros_like(x); qq = np.zeros_like(x)
        for it in range(max_iter):
            y = self.proj_eq(x + p)
            p = x + p - y
            xn = self.proj_ineq(y + qq)
            qq = y + qq - xn
            done = np.linalg.norm(xn - x) < tol and np.linalg.norm(xn - y) < 10 * tol
            x = xn
            if done:
                return x, it + 1, True
        return x, max_iter, False
