"""C05 — physical projection (Dykstra alternating projection with iteration history).

correspondence: calc_proj_physical / calc_proj_physical_with_var are run with is_iteration_history=True and every
np.linalg.eigh result tapped; QModel.C05 re-runs the whole loop on the same rationals (op `run`: stop index, k>=1 guard,
max-iteration branch, all five history lists, eigh contracts) and re-derives recorded sweeps from the previous recorded
state (op `step`).
oracle: on the real code — result physical to f(eps), equal (to g(eps)) to an independent high-accuracy Dykstra reference,
variational inequality against random physical competitors, both orders agree, object level = variable level, physical
input returned unchanged after two sweeps, history consistent (invariant x+p+q=x0, error values, stop rule, returned point)."""
import contextlib
import io
import shim  # noqa: F401
import numpy as np
from common import Driver, q, qlist
import c04
from c04 import (TYPES, system, make, of_var, to_var, stacked, eq_ref, ineq_ref, eq_system, min_eigs, gen_param, dy,
                 EighTap, basis_txt, cx_list, _floats, _frac, n_of)
from quara.settings import Settings

LEAN_EXTRA_SOURCES = ("C04.lean", "C04Psd.lean", "C04Ineq.lean", "Psd.lean", "C05Psd.lean")
LEAN_EXTRA_TARGETS = ("QGen.C05", "QGen.C04")
PARTIAL = [
    {"theorem": "dyk_fixed_nearest_partial, dyk_order_independent_partial",
     "missing": "exact statements only at fixed points (stopping value 0); for stopped iterates see dyk_returned_approx_vi_partial and the oracle"},
    {"theorem": "dyk_returned_approx_vi_partial",
     "missing": "bounds the DEFECT of the nearest-point inequality at the returned point by |p|*sqrt(eps), not the distance to the nearest "
                "physical point (strong convergence of Dykstra's sequence is not proved; certified per run by the oracle)"},
    {"theorem": "dyk_runMode_orders (clause C05.5 object level = variable level)",
     "missing": "definitional in the model (one loop for both levels, conversions var <-> stacked vector not modelled): established by the "
                "oracle and the correspondence only"},
    {"theorem": "dyk_run_tapped / dyk_runMode_tapped", "missing": "the equality of the executed run (tapped eigh constants) with the run of the "
     "genuine projections assumes EXACT eigen-decompositions and eps_truncate_imaginary_part = 0 (C04's idealisation); IsProj instances "
     "exist for all four types (m-process outcomes: the block theorem is stated for the operator basis; the Choi-basis instance is "
     "obtained by instantiating it at kronBasis with orthoN_kronBasis / hermB_kron)"},
]
EPSS = [1e-14, 1e-12, 1e-10, 1e-8, 1e-6]
ORDERS = ("eq_ineq", "ineq_eq")


def translate(ctx):
    """regenerate lean/QGen/C05.lean (sweep bodies, stopping value, guard, comparison) from /repo's qoperation.py"""
    import c04_translate
    import c05_translate
    # QProps.C05 imports QProps.C04, whose `gen_*` theorems are about QGen.C04: regenerate both from the same tree
    return (c04_translate.translate() or []) + (c05_translate.translate() or [])


def is_phys_ref(typ, kind, m, x):
    """independent physicality measure: (equality defect, smallest eigenvalue)"""
    c, _ = system(kind)
    C, b = eq_system(typ, c, m)
    return float(np.max(np.abs(C @ np.ravel(x) - b))), min_eigs(typ, kind, x)


def dykstra_ref(typ, kind, m, x0, iters=4000, tol=1e-26):
    """own Dykstra on the independent references of C04 (not quara's code); returns (point, converged)"""
    c, _ = system(kind)
    x = np.array(x0, dtype=np.float64).ravel()
    p = np.zeros_like(x); qq = np.zeros_like(x)
    for _ in range(iters):
        y = eq_ref(typ, c, m, x + p)
        pn = x + p - y
        xn = ineq_ref(typ, kind, y + qq)
        qn = y + qq - xn
        e = float(np.sum((p - pn) ** 2 + (qq - qn) ** 2))
        x, p, qq = xn, pn, qn
        if e < tol:
            return x, True
    return x, False


def rand_physical(g, typ, kind, m):
    return gen_param(g, typ, kind, m, 1.0, "physical")


def start_point(g, typ, kind, m, cls):
    """near: physical + noise 1e-3 (as produced by linear estimation); far: norm up to 1e2; physical; lowpurity"""
    c, _ = system(kind)
    if cls == "physical":
        return rand_physical(g, typ, kind, m)
    if cls == "almost":
        # physical up to a ppm-level (or smaller) mis-normalisation / perturbation
        return gen_param(g, typ, kind, m, 1.0, "almost")
    if cls == "lowpurity":
        # noisy linear estimate of a rank-deficient mixed state: trace one, purity <= 1/2, slightly non-PSD
        return gen_param(g, typ, kind, m, 1.0, "lowpurity")
    if cls == "near":
        x = rand_physical(g, typ, kind, m)
        return x + np.round(g.standard_normal(x.shape) * 2 ** 10) / 2 ** 20
    x = rand_physical(g, typ, kind, m)
    r = np.round(g.standard_normal(x.shape) * 2 ** 8) / 2 ** 8
    nrm = float(g.choice([1.0, 10.0, 100.0]))
    return x * float(g.choice([0.0, 1.0])) + r / max(1e-9, np.linalg.norm(r)) * nrm


def run_real(typ, kind, m, x0, flag, order, eps, level, max_iter, tap=False):
    """level 'obj': object generated from the variables (flag) / from the stacked parameters, calc_proj_physical;
    level 'var': calc_proj_physical_with_var.  Returns dict with result (full stacked vector), history as arrays, eigh, warned"""
    c, _ = system(kind)
    holder = make(typ, c, x0, flag, mode_proj_order=order, eps_proj_physical=eps)
    out = dict(err=None)
    buf = io.StringIO()
    try:
        ctxm = EighTap() if tap else contextlib.nullcontext()
        with ctxm as t, contextlib.redirect_stdout(buf):
            if level == "obj":
                before = stacked(holder)
                # the usual sequence: read the variables of the object (real accessor), then project the same object
                acc = np.array(holder.to_var(), dtype=np.float64).ravel()
                out["accessor_ok"] = bool(acc.shape == to_var(typ, c, before, flag).shape
                                          and np.array_equal(acc, to_var(typ, c, before, flag)))
                out["accessor_pure"] = bool(np.array_equal(before, stacked(holder)))
                r, h = holder.calc_proj_physical(max_iteration=max_iter, is_iteration_history=True)
                out["arg_same"] = bool(np.array_equal(before, stacked(holder)))
                res = stacked(r)
                # ... and the variables of the RESULT, after which the result (= last history entry) must still be what it was
                rv = np.array(r.to_var(), dtype=np.float64).ravel()
                out["result_accessor_ok"] = bool(np.array_equal(res, stacked(r)) and rv.shape == to_var(typ, c, res, flag).shape
                                                 and np.array_equal(rv, to_var(typ, c, res, flag)))
                out["res_var"] = to_var(typ, c, res, flag)
                out["ret_full"] = res
                H = {k: [None if v is None else stacked(v) for v in h[k]] for k in ("p", "q", "x", "y")}
            else:
                var = to_var(typ, c, x0, flag)
                before = var.copy()
                r, h = holder.calc_proj_physical_with_var(var, on_para_eq_constraint=flag, max_iteration=max_iter,
                                                          is_iteration_history=True)
                out["arg_same"] = bool(np.array_equal(before, var))
                out["res_var"] = np.array(r, dtype=np.float64).ravel().copy()
                out["ret_full"] = None
                H = {k: [None if v is None else np.array(v, dtype=np.float64).ravel().copy() for v in h[k]] for k in ("p", "q", "x", "y")}
            H["e"] = [None if v is None else float(v) for v in h["error_value"]]
        out.update(result=H["x"][-1], hist=H, eigh=(t.calls if tap else []), warned="exceeds the limit" in buf.getvalue())
    except Exception as e:  # noqa
        out["err"] = c04.err_kind(e)
        out["msg"] = str(e)[:200]
    return out


def start_of(typ, kind, x0, flag, level):
    """the stacked vector the loop starts from"""
    c, _ = system(kind)
    if level == "var" and flag:
        return of_var(typ, c, to_var(typ, c, x0, True), True)
    return np.array(x0, dtype=np.float64).ravel()


# ----------------------------------------------------------------------------- correspondence
def const_of(typ, c):
    return {"State": 1 / np.sqrt(c.dim), "Povm": np.sqrt(c.dim)}.get(typ, 0.0)


def vlist(tok):
    return [None if t == "none" else _floats(t) for t in tok.split(";")]


def corr_case(ctx, drv, pend, typ, kind, m, x0, flag, order, eps, level, max_iter, cls):
    c, _ = system(kind)
    r = run_real(typ, kind, m, x0, flag, order, eps, level, max_iter, tap=True)
    inp = {"typ": typ, "system": kind, "m": m, "x0": np.asarray(x0).tolist(), "flag": flag, "order": order, "eps": eps,
           "level": level, "max_iter": max_iter, "class": cls}
    if r["err"]:
        ctx.count(f"corr impl error {r['err']}")
        return
    H = r["hist"]
    K = len(H["x"]) - 1
    nper = m if typ in ("Povm", "MProcess") else 1
    if len(r["eigh"]) != K * nper:
        ctx.disagree(f"run/{typ}/{level}", inp, f"{len(r['eigh'])} eigh calls for {K} sweeps", f"expected {K * nper}"); return
    # float rounding must not decide the stop rule
    if any(e is not None and abs(e - eps) <= 1e-3 * eps for e in H["e"]):
        ctx.count("corr skipped: stopping value within 0.1% of eps"); return
    d, n = c.dim, n_of(c)
    lams = qlist(np.concatenate([e[1] for e in r["eigh"]]))
    us = cx_list(np.concatenate([e[2].ravel() for e in r["eigh"]]))
    x_start = H["x"][0]
    i = drv.ask("run", typ, order, d, n, m, q(const_of(typ, c)), q(Settings.get_atol()), basis_txt(kind), q(eps), max_iter, K,
                qlist(x_start), lams, us)
    pend.append(("run", typ, level, inp, r, i, None))
    ctx.case(("run", typ, kind, m, flag, order, eps, level, max_iter, tuple(x_start.tolist())), nontrivial=K > 2,
             sample={"op": f"run/{typ}/{level}", "system": kind, "m": m, "order": order, "eps": eps, "sweeps": K, "class": cls,
                     "flag": flag})
    ctx.count(f"run {typ} {level} {order} class={cls} sweeps={str(K) if K <= 2 else ('3-10' if K <= 10 else '>10')}")
    # re-derive recorded sweeps from the previous recorded state
    ks = list(range(K)) if K <= 8 else sorted(set([0, 1, K - 1] + [int(v) for v in ctx.rng.sample(range(K), 5)]))
    for k in ks:
        e = r["eigh"][k * nper:(k + 1) * nper]
        j = drv.ask("step", typ, order, d, n, m, q(const_of(typ, c)), q(Settings.get_atol()), basis_txt(kind),
                    qlist(H["x"][k]), qlist(H["p"][k]), qlist(H["q"][k]),
                    qlist(np.concatenate([a[1] for a in e])), cx_list(np.concatenate([a[2].ravel() for a in e])))
        pend.append(("step", typ, level, inp, r, j, k))
        ctx.case(("step", typ, kind, m, order, level, k, tuple(H["x"][k].tolist())), nontrivial=k > 0)


def near(a, b, scale):
    return a.shape == b.shape and float(np.max(np.abs(a - b), initial=0.0)) <= 1e-9 * scale


def correspondence(ctx):
    ctx.partial = PARTIAL
    drv = Driver("C05")
    pend = []
    zero_iter = []
    g = ctx.npgen(21)
    plan = []
    reps = 2 if ctx.quick else 16
    for rep in range(reps):
        for typ in TYPES:
            for kind in (("q", "t") if typ in ("State", "Povm") else ("q",)):
                for cls in ("near", "far", "physical"):
                    for order in ORDERS:
                        for level in ("obj", "var"):
                            plan.append((typ, kind, cls, order, level))
    k = 0
    for typ, kind, cls, order, level in plan:
        m = (2, 3, 4)[k % 3] if typ in ("Povm", "MProcess") else 1
        eps = EPSS[k % len(EPSS)]
        flag = bool((k // 2) % 2)
        k += 1
        x0 = start_point(g, typ, kind, m, cls)
        max_iter = 1000 if cls != "far" else 60
        corr_case(ctx, drv, pend, typ, kind, m, x0, flag, order, eps, level, max_iter, cls)
    # loop-logic corner cases: max_iteration 1, 2, 3 (k>=1 guard, max-iteration branch), qutrit gate with few sweeps
    for typ in TYPES:
        for mi in (1, 2, 3):
            x0 = start_point(g, typ, "q", 2, "far")
            corr_case(ctx, drv, pend, typ, "q", 2, x0, False, ORDERS[mi % 2], 1e-14, ("obj", "var")[mi % 2], mi, "far-maxiter")
    # dim > 2 gates at the variable level (flat index arithmetic of the equality projection), few sweeps; low-purity 2-qubit states
    for flag, order in ((False, "eq_ineq"), (True, "ineq_eq")):
        corr_case(ctx, drv, pend, "Gate", "t", 1, start_point(g, "Gate", "t", 1, "near"), flag, order, 1e-8, "var", 2, "near-maxiter")
    for level, order in (("obj", "eq_ineq"), ("var", "ineq_eq")):
        corr_case(ctx, drv, pend, "State", "qq", 1, start_point(g, "State", "qq", 1, "lowpurity"), False, order, 1e-10, level, 1000, "lowpurity")
    if not ctx.quick:
        for order in ORDERS:
            corr_case(ctx, drv, pend, "Gate", "t", 1, start_point(g, "Gate", "t", 1, "near"), False, order, 1e-8, "var", 4, "near")
            corr_case(ctx, drv, pend, "State", "qq", 1, start_point(g, "State", "qq", 1, "far"), True, order, 1e-10, "obj", 50, "far")
    # max_iteration = 0: the real routine fails on the unbound loop variable, the model replies `unbound-k`
    for typ, level in (("State", "obj"), ("Gate", "var")):
        x0 = start_point(g, typ, "q", 1, "near")
        r0 = run_real(typ, "q", 1, x0, False, "eq_ineq", 1e-10, level, 0)
        c0, _ = system("q")
        i0 = drv.ask("run", typ, "eq_ineq", c0.dim, n_of(c0), 1, q(const_of(typ, c0)), q(Settings.get_atol()), basis_txt("q"), q(1e-10), 0, 0,
                     qlist(np.asarray(x0).ravel()), "-", "-")
        zero_iter.append((typ, level, r0, i0))
        ctx.case(("run0", typ, level, tuple(np.asarray(x0).tolist())), nontrivial=False)
    out = drv.run()
    for typ, level, r0, i0 in zero_iter:
        ctx.corr_ops.add(f"run/{typ}/{level}")
        if (r0["err"] in ("UnboundLocalError", "NameError")) != (out[i0] == "err unbound-k"):
            ctx.disagree(f"run/{typ}/{level}", {"typ": typ, "system": "q", "m": 1, "max_iter": 0}, f"impl error: {r0['err']}", out[i0][:100])
    for op, typ, level, inp, r, i, kk in pend:
        name = f"{op}/{typ}/{level}"
        ctx.corr_ops.add(name)
        H = r["hist"]
        toks = out[i].split()
        scale = max(1.0, float(np.max(np.abs(H["x"][0]))))
        if toks[0] != "ok":
            ctx.disagree(name, inp, "ok (history of %d sweeps)" % (len(H["x"]) - 1), out[i][:200]); continue
        if op == "run":
            K = len(H["x"]) - 1
            mk, mwarn, mx = int(toks[1]), toks[2] == "true", _floats(toks[3])
            mp, mq, mxs, mys, mes = vlist(toks[4]), vlist(toks[5]), vlist(toks[6]), vlist(toks[7]), toks[8].split(";")
            bad = None
            if mk != K - 1:
                bad = f"loop index after the loop: impl {K - 1}, model {mk}"
            elif mwarn != r["warned"]:
                bad = f"max-iteration warning: impl {r['warned']}, model {mwarn}"
            elif not near(mx, H["x"][-1], scale):
                bad = "returned point differs"
            elif not (len(mp) == len(mq) == len(mxs) == len(mys) == K + 1 and len(mes) == K):
                bad = "history lengths differ"
            else:
                for nm, ml, il in (("p", mp, H["p"]), ("q", mq, H["q"]), ("x", mxs, H["x"]), ("y", mys, H["y"])):
                    for a, b in zip(ml, il):
                        if (a is None) != (b is None) or (a is not None and not near(a, b, scale)):
                            bad = f"history list {nm} differs"; break
                for a, b in zip(mes, H["e"]):
                    if (a == "none") != (b is None):
                        bad = "error_value None pattern differs"; break
                    if b is not None and abs(float(_frac(a)) - b) > 1e-6 * abs(b) + 1e-24 * scale * scale:
                        bad = f"error_value differs: impl {b}, model {float(_frac(a))}"; break
                e1, e2 = float(_frac(toks[9])) ** 0.5, float(_frac(toks[10])) ** 0.5
                if not bad and (e1 > 1e-8 * scale * K or e2 > 1e-8 * K):
                    bad = f"eigh contract: model's argument of the inequality projection differs from U diag(lam) U^H by {e1:.3e}"
            if bad:
                ctx.disagree(name, inp, bad, out[i][:160])
        else:
            k = kk
            my, mx, mp, mq = (_floats(t) for t in toks[1:5])
            merr = float(_frac(toks[5]))
            bad = None
            for nm, a, b in (("y", my, H["y"][k + 1]), ("x", mx, H["x"][k + 1]), ("p", mp, H["p"][k + 1]), ("q", mq, H["q"][k + 1])):
                if not near(a, b, scale):
                    bad = f"sweep {k}: {nm} re-derived from the recorded state differs by {np.max(np.abs(a - b)):.3g}"; break
            ie = H["e"][k]
            if not bad and ie is not None and abs(merr - ie) > 1e-6 * abs(ie) + 1e-24 * scale * scale:
                bad = f"sweep {k}: error_value impl {ie} model {merr}"
            if not bad and (ie is None) != (k == 0):
                bad = f"sweep {k}: error_value is {'None' if ie is None else 'set'}"
            e1 = float(_frac(toks[6])) ** 0.5
            if not bad and e1 > 1e-8 * scale:
                bad = f"sweep {k}: eigh contract residual {e1:.3e}"
            if bad:
                ctx.disagree(name, dict(inp, sweep=k), bad, out[i][:160])


# ----------------------------------------------------------------------------- oracle
def g_eps(eps, scale):
    return max(3e-7, 60.0 * np.sqrt(eps)) * scale


def check_history(ctx, sg, rep, typ, kind, m, r, eps, max_iter, order):
    """history consistent with the returned point and with the loop as documented"""
    c, _ = system(kind)
    H = r["hist"]
    K = len(H["x"]) - 1
    x0 = H["x"][0]
    scale = max(1.0, float(np.max(np.abs(x0))))
    tol = 1e-9 * scale
    if not (len(H["p"]) == len(H["q"]) == len(H["y"]) == K + 1 and len(H["e"]) == K and K >= 1):
        ctx.violate(sg + "/history-lengths", f"lists p,q,x,y,e have lengths {[len(H[k]) for k in 'pqxye']}", rep); return
    if H["y"][0] is not None or H["e"][0] is not None or np.any(H["p"][0] != 0) or np.any(H["q"][0] != 0):
        ctx.violate(sg + "/history-step0", "step 0 must be (p=0, q=0, x=input, y=None, error None)", rep); return
    last = H["x"][-1]
    dv = float(np.max(np.abs(r["res_var"] - to_var(typ, c, last, rep["flag"])), initial=0.0))
    if r["ret_full"] is not None:
        dv = max(dv, float(np.max(np.abs(r["ret_full"] - last))))
    if dv > tol:
        ctx.violate(sg + "/history-returned", f"returned point differs from the last recorded x by {dv:.3g}", rep); return
    for k in range(K + 1):
        if np.max(np.abs(H["x"][k] + H["p"][k] + H["q"][k] - x0)) > 1e-9 * scale * (k + 1):
            ctx.violate(sg + "/history-invariant", f"x+p+q != x0 at step {k} (defect {np.max(np.abs(H['x'][k] + H['p'][k] + H['q'][k] - x0)):.3g})", rep); return
    for k in range(1, K):
        if H["e"][k] is None:
            ctx.violate(sg + "/history-guard", f"error_value[{k}] is None: the stopping value must be computed from the second sweep on", rep); return
        want = float(np.sum((H["p"][k] - H["p"][k + 1]) ** 2 + (H["q"][k] - H["q"][k + 1]) ** 2))
        if abs(want - H["e"][k]) > 1e-9 * max(abs(want), 1e-30) + 1e-30:
            ctx.violate(sg + "/history-error-value", f"error_value[{k}] = {H['e'][k]} but the recorded p,q give {want}", rep); return
    stops = [e is not None and e < eps for e in H["e"]]
    if any(stops[:-1]):
        ctx.violate(sg + "/history-stop", "the loop continued although the stopping value was below eps", rep); return
    if not stops[-1] and K != max_iter:
        ctx.violate(sg + "/history-stop", f"the loop ended after {K} sweeps without the criterion and before max_iteration={max_iter}", rep); return
    # each y / x lies in the set of the projection that produced it
    for k in range(1, K + 1):
        ya, xa = (H["y"][k], H["x"][k])
        eqp, inp = (ya, xa) if order == "eq_ineq" else (xa, ya)
        C, b = eq_system(typ, c, m)
        if np.max(np.abs(C @ eqp - b)) > 1e-10 * scale or min_eigs(typ, kind, inp) < -1e-9 * scale:
            ctx.violate(sg + "/history-sets", f"step {k}: recorded y/x are not in the sets of the projections that produced them", rep); return


def check_start(ctx, g, typ, kind, m, x0, flag, eps, cls, max_iter, ncomp):
    c, _ = system(kind)
    rep0 = {"typ": typ, "system": kind, "m": m, "x0": np.asarray(x0).tolist(), "flag": flag, "eps": eps, "class": cls, "max_iter": max_iter}
    runs = {}
    for level in ("obj", "var"):
        for order in ORDERS:
            rep = dict(rep0, level=level, order=order)
            sg = f"C05/{typ}/{level}/{order}"
            r = run_real(typ, kind, m, x0 if level == "var" else start_of(typ, kind, x0, flag, "var"), flag, order, eps, level, max_iter)
            ctx.case(("oracle", typ, kind, m, flag, eps, level, order, tuple(np.asarray(x0).tolist())))
            if r["err"]:
                ctx.violate(sg + "/raises", f"{r['err']}: {r.get('msg')}", rep); continue
            if not r["arg_same"]:
                ctx.violate(sg + "/mutates-argument", "the input object / variable vector was modified", rep)
            if level == "obj" and not (r.get("accessor_ok", True) and r.get("accessor_pure", True) and r.get("result_accessor_ok", True)):
                ctx.violate(sg + "/to_var-accessor", "to_var() of the input / of the result is not the variables of that object, or "
                            "reading it changed the object (the last history entry IS the result object)", rep)
            runs[(level, order)] = r
            check_history(ctx, sg, rep, typ, kind, m, r, eps, max_iter, order)
    if not runs:
        return
    start = start_of(typ, kind, x0, flag, "var")
    scale = max(1.0, float(np.linalg.norm(start)))
    ref, conv = dykstra_ref(typ, kind, m, start)
    tol = g_eps(eps, scale)
    for (level, order), r in runs.items():
        rep = dict(rep0, level=level, order=order)
        sg = f"C05/{typ}/{level}/{order}"
        x = r["result"]
        K = len(r["hist"]["x"]) - 1
        hit_max = K == max_iter and not (r["hist"]["e"][-1] is not None and r["hist"]["e"][-1] < eps)
        ctx.count(f"oracle {typ} {level} {order} class={cls} " + ("max-iteration reached" if hit_max else "stopped by criterion"))
        if hit_max:
            continue
        dq, lo = is_phys_ref(typ, kind, m, x)
        f = 2.0 * np.sqrt(eps) + 1e-9 * scale
        if dq > f or lo < -f:
            ctx.violate(sg + "/not-physical", f"equality defect {dq:.3g}, smallest eigenvalue {lo:.3g} exceed f(eps)={f:.3g}", rep); continue
        if conv and np.linalg.norm(x - ref) > tol:
            ctx.violate(sg + "/not-nearest", f"differs from the independent Dykstra reference by {np.linalg.norm(x - ref):.3g} (> {tol:.3g})", rep); continue
        for _ in range(ncomp):
            z = rand_physical(g, typ, kind, m)
            ip = float(np.dot(start - x, z - x))
            if ip > tol * (np.linalg.norm(z - x) + np.linalg.norm(start - x) + 1.0):
                ctx.violate(sg + "/vi", f"<x0-x, z-x> = {ip:.3g} > 0 for a physical z", rep); break
        if cls == "physical":
            if np.max(np.abs(x - start)) > 1e-9 * scale:
                ctx.violate(sg + "/moves-physical-input", f"a physical input is moved by {np.max(np.abs(x - start)):.3g}", rep)
            elif K != 2:
                ctx.violate(sg + "/physical-input-sweeps", f"a physical input needs {K} sweeps instead of 2", rep)
    # order independence and level agreement
    for level in ("obj", "var"):
        a, b = runs.get((level, "eq_ineq")), runs.get((level, "ineq_eq"))
        if a and b and len(a["hist"]["x"]) - 1 < max_iter and len(b["hist"]["x"]) - 1 < max_iter:
            dd = float(np.linalg.norm(a["result"] - b["result"]))
            if dd > 2 * tol:
                ctx.violate(f"C05/{typ}/{level}/order-dependence", f"the two projection orders differ by {dd:.3g} (> {2 * tol:.3g})",
                            dict(rep0, level=level, order="both"))
    for order in ORDERS:
        a, b = runs.get(("obj", order)), runs.get(("var", order))
        if a and b:
            dd = float(np.max(np.abs(a["res_var"] - b["res_var"]), initial=0.0))
            if dd > 1e-9 * scale or len(a["hist"]["x"]) != len(b["hist"]["x"]):
                ctx.violate(f"C05/{typ}/obj-vs-var/{order}",
                            f"object-level and variable-level results differ by {dd:.3g}; sweeps {len(a['hist']['x']) - 1} vs {len(b['hist']['x']) - 1}",
                            dict(rep0, level="both", order=order))
    # closures handed to the optimisers, requested with every (host flag, requested flag in {explicit, None}) combination and
    # from a physical host built with is_physicality_required=True
    var = to_var(typ, c, start, flag)
    variants = [("", flag, {"on_para_eq_constraint": flag}, False, ORDERS),
                ("-opp", not flag, {"on_para_eq_constraint": flag}, False, ORDERS[:1]),
                ("-dflt", flag, {}, False, ORDERS[1:]),
                ("-phys", flag, {"on_para_eq_constraint": flag}, True, ORDERS[:1])]
    for suffix, hflag, kw, phys, orders in variants:
        for order in orders:
            if phys:
                try:
                    holder = make(typ, c, rand_physical(np.random.default_rng(7), typ, kind, m), hflag, is_physicality_required=True,
                                  eps_proj_physical=eps, mode_proj_order=order)
                except Exception as e:  # noqa
                    ctx.violate(f"C05/{typ}/physical-host/raises", f"a physical {typ} (independent reference) is rejected by the "
                                f"constructor: {type(e).__name__}: {str(e)[:120]}", dict(rep0, level="host", order=order)); continue
            else:
                holder = make(typ, c, start, hflag, eps_proj_physical=eps, mode_proj_order=order)
            for nm in ("func_calc_proj_physical", "func_calc_proj_physical_with_var"):
                rep = dict(rep0, level=nm + suffix, order=order)
                try:
                    with contextlib.redirect_stdout(io.StringIO()):
                        fv = np.array(getattr(holder, nm)(mode_proj_order=order, max_iteration=max_iter, **kw)(var.copy()), dtype=float)
                except Exception as e:  # noqa
                    ctx.violate(f"C05/{typ}/{nm}{suffix}/raises", f"{type(e).__name__}: {str(e)[:150]}", rep); continue
                if nm == "func_calc_proj_physical" and suffix == "":
                    # the same closure with is_iteration_history=True: returned variables = variables of the last recorded x
                    try:
                        with contextlib.redirect_stdout(io.StringIO()):
                            fh, hist = holder.func_calc_proj_physical(mode_proj_order=order, max_iteration=max_iter,
                                                                       is_iteration_history=True, **kw)(var.copy())
                        last = stacked(hist["x"][-1])
                        okh = np.array_equal(np.array(fh, dtype=float).ravel(), to_var(typ, c, last, flag)) and \
                            len(hist["x"]) == len(hist["p"]) == len(hist["q"]) == len(hist["y"]) == len(hist["error_value"]) + 1
                    except Exception as e:  # noqa
                        okh = False
                    if not okh:
                        ctx.violate(f"C05/{typ}/func_calc_proj_physical/history", "closure with is_iteration_history=True: the returned "
                                    "variables are not those of the last recorded x / the history is unusable", rep)
                base = runs.get(("var", order))
                if base is None or len(base["hist"]["x"]) - 1 >= max_iter:
                    continue
                want = base["res_var"]
                if fv.shape != want.shape or np.linalg.norm(fv - want) > 2 * tol:
                    ctx.violate(f"C05/{typ}/{nm}{suffix}/{order}",
                                f"closure result differs from calc_proj_physical_with_var by {np.linalg.norm(fv - want) if fv.shape == want.shape else 'shape'}", rep)


def check_maxiter(ctx, g, typ, kind, m, flag, order):
    """`max_iteration` is obeyed by every entry point, the closures included: from a far start the loop runs exactly `mi` sweeps,
    reports the max-iteration branch, and all entry points return the same (unconverged) iterate"""
    c, _ = system(kind)
    x0 = start_point(g, typ, kind, m, "far")
    start = start_of(typ, kind, x0, flag, "var")
    var = to_var(typ, c, start, flag)
    eps = 1e-13
    for mi in (1, 3):
        rep = {"typ": typ, "system": kind, "m": m, "x0": np.asarray(x0).tolist(), "flag": flag, "eps": eps, "class": "far",
               "max_iter": mi, "order": order, "kind": "maxiter"}
        ctx.case(("maxiter", typ, kind, m, flag, order, mi, tuple(np.asarray(x0).tolist())))
        rv = run_real(typ, kind, m, x0, flag, order, eps, "var", mi)
        ro = run_real(typ, kind, m, start, flag, order, eps, "obj", mi)
        if rv["err"] or ro["err"]:
            ctx.violate(f"C05/{typ}/max-iteration/raises", f"{rv.get('msg') or ro.get('msg')}", rep); continue
        if len(rv["hist"]["x"]) - 1 < mi:
            continue                                # converged within mi sweeps: nothing to observe
        for lvl, r in (("var", rv), ("obj", ro)):
            if len(r["hist"]["x"]) - 1 != mi or not r["warned"]:
                ctx.violate(f"C05/{typ}/{lvl}/max-iteration", f"max_iteration={mi}: {len(r['hist']['x']) - 1} sweeps, warning={r['warned']}", rep)
        holder = make(typ, c, start, flag, eps_proj_physical=eps, mode_proj_order=order)
        for nm in ("func_calc_proj_physical", "func_calc_proj_physical_with_var"):
            try:
                with contextlib.redirect_stdout(io.StringIO()):
                    fv = np.array(getattr(holder, nm)(on_para_eq_constraint=flag, mode_proj_order=order, max_iteration=mi)(var.copy()), dtype=float)
            except Exception as e:  # noqa
                ctx.violate(f"C05/{typ}/{nm}/max-iteration/raises", f"{type(e).__name__}: {str(e)[:150]}", rep); continue
            if fv.shape != rv["res_var"].shape or np.max(np.abs(fv - rv["res_var"])) > 1e-9 * max(1.0, float(np.max(np.abs(start)))):
                ctx.violate(f"C05/{typ}/{nm}/max-iteration",
                            f"closure built with max_iteration={mi} does not return the iterate after {mi} sweeps "
                            f"(differs by {np.max(np.abs(fv - rv['res_var'])) if fv.shape == rv['res_var'].shape else 'shape'}): the argument is not forwarded", rep)


def oracle(ctx, volume=1):
    g = ctx.npgen(31)
    reps = (2 if ctx.quick else 24) * volume
    k = 0
    for rep in range(reps):
        for typ in TYPES:
            kinds = ("q", "t", "qq") if typ in ("State", "Povm") else (("q",) if ctx.quick else ("q", "t"))
            for kind in kinds:
                for cls in ("near", "far", "physical"):
                    if kind in ("t", "qq") and typ in ("Gate", "MProcess") and cls == "far":
                        continue
                    m = (2, 3, 4)[k % 3] if typ in ("Povm", "MProcess") else 1
                    eps = EPSS[k % len(EPSS)]
                    flag = bool(k % 2)
                    k += 1
                    x0 = start_point(g, typ, kind, m, cls)
                    check_start(ctx, g, typ, kind, m, x0, flag, eps, cls, 1000 if cls != "far" else 400, 4 if ctx.quick else 8)
    # fixed families that every tier must contain: dim > 2 gates at both levels with both flags; low-purity slightly non-PSD
    # states of dim > 2 (inside the 'Bloch ball' but not PSD)
    g2 = ctx.npgen(33)
    extra = [("Gate", "t", "near", False, 1e-8), ("Gate", "t", "near", True, 1e-8),
             ("State", "qq", "lowpurity", False, 1e-10), ("State", "qq", "lowpurity", True, 1e-12),
             ("State", "t", "lowpurity", False, 1e-8), ("State", "qq", "lowpurity", True, 1e-6)]
    if not ctx.quick:
        extra += [("Gate", "qq", "near", False, 1e-6), ("Povm", "qq", "lowpurity", True, 1e-10),
                  ("State", "qt", "lowpurity", False, 1e-10), ("State", "tq", "lowpurity", True, 1e-10)]
    # systems of equal dimension with different bases used one after the other (Pauli x Pauli -> 4-level generalised
    # Gell-Mann -> rotated 2-qubit basis; qubit Pauli -> rotated qubit): per-system HS <-> Choi tables must not leak
    extra += [("Gate", "qq", "physical", False, 1e-10), ("Gate", "g4", "physical", False, 1e-10), ("Gate", "g4", "near", True, 1e-8),
              ("Gate", "qqr", "near", False, 1e-8), ("Gate", "q", "near", False, 1e-10), ("Gate", "qr", "near", True, 1e-10),
              ("MProcess", "qr", "near", False, 1e-8), ("MProcess", "qr", "physical", True, 1e-12),
              ("Povm", "q", "almost", False, 1e-14), ("State", "q", "almost", False, 1e-14), ("Povm", "t", "almost", True, 1e-13),
              ("MProcess", "q", "almost", False, 1e-14)]
    for i, typ in enumerate(TYPES):
        check_maxiter(ctx, g2, typ, "q", 2 if typ in ("Povm", "MProcess") else 1, bool(i % 2), ORDERS[i % 2])
    for rep in range(volume):
        for typ, kind, cls, flag, eps in extra:
            m = 2 if typ in ("Povm", "MProcess") else 1
            ctx.count(f"oracle fixed family {typ} {kind} class={cls} flag={flag}")
            check_start(ctx, g2, typ, kind, m, start_point(g2, typ, kind, m, cls), flag, eps, cls, 1000, 3)


def search(ctx):
    oracle(ctx, volume=2)
    g = ctx.npgen(32)
    for dgr in ctx.disagreements[:20]:
        inp = dgr.get("input") or {}
        if "x0" not in inp:
            continue
        check_start(ctx, g, inp["typ"], inp["system"], inp["m"], np.array(inp["x0"]), inp["flag"], inp["eps"], inp.get("class", "near"),
                    inp.get("max_iter", 1000), 6)


def replay(ctx, data):
    r = data["replay"]
    print("replaying", {k: v for k, v in r.items() if k != "x0"})
    before = len(ctx.violations)
    c04.warm_siblings(r["system"])
    if r.get("kind") == "maxiter":
        g = ctx.npgen(33)
        for i, typ in enumerate(TYPES):
            check_maxiter(ctx, g, typ, "q", 2 if typ in ("Povm", "MProcess") else 1, bool(i % 2), ORDERS[i % 2])
        for v in ctx.violations[before:]:
            print(" ", v["signature"], "--", v["what"])
        return 1 if any(v["signature"] == data.get("signature") for v in ctx.violations[before:]) else 0
    check_start(ctx, ctx.npgen(1), r["typ"], r["system"], r["m"], np.array(r["x0"], dtype=float), r["flag"], r["eps"],
                r.get("class", "near"), r.get("max_iter", 1000), 8)
    for v in ctx.violations[before:]:
        print(" ", v["signature"], "--", v["what"])
    return 1 if any(v["signature"] == data.get("signature") for v in ctx.violations[before:]) else 0
