"""C10 — constrained estimators return physical, consistent estimates.

correspondence: QModel.C10 (selection table, projected-linear plan, Dykstra sweep/stop, one iteration of the three
projected-gradient algorithms, stopping rule) against the real classes, step by step along recorded histories.
oracle: physicality defects of the returned estimates (computed independently of quara's verdict functions), exact-data
recovery, projected-linear = physical projection of the linear estimate, feasibility of recorded iterates."""
import hashlib, math, os, time
from concurrent.futures import ProcessPoolExecutor
import numpy as np
import shim  # noqa: F401
from common import Driver, q, qlist, unqlist, allclose, close
import c10lib as L
from quara.math import func_proj as qfunc_proj

PROP = "C10"
import c10_translate


def translate(ctx):
    """regenerate lean/QGen/C10.lean from the projected-gradient sources (the table theorems of QProps/C10 are about it)"""
    try:
        c10_translate.translate()
    except c10_translate.Untranslatable as e:
        return [f"translator (QGen/C10.lean): {e}"]
    return []

WORKERS = max(1, min(8, (os.cpu_count() or 2) // 2))


def gen(seed, salt):
    h = int(hashlib.sha256(f"{PROP}-{seed}-{salt}".encode()).hexdigest()[:16], 16)
    return np.random.Generator(np.random.PCG64(h))


# ============================================================================= oracle
DATA = ("few", "exact_b", "exact_i", "far_det", "far_dir")
LME_GRID = [(lo, al, od) for od in ("eq_ineq", "ineq_eq") for al in ("pgdb", "pgdm", "fista") for lo in ("se", "re", "fse", "fre")]


def make_specs(seed, quick, volume=1):
    """the cells explored: (tomography type, system, parametrisation flag, data class) x estimators; deterministic in
    (seed, tier, volume)"""
    rnd = np.random.Generator(np.random.PCG64(seed * 7919 + (0 if quick else 1) + 97 * volume))
    specs, rot = [], int(rnd.integers(0, len(LME_GRID)))
    reps = {"1qubit": 4, "1qutrit": 1} if quick else {"1qubit": 16, "1qutrit": 4, "2qubit": 1}
    salt = 0
    for sysname, nrep in reps.items():
        for rep in range(nrep * volume):
            for kind in L.KINDS:
                for para in (True, False):
                    for data in DATA:
                        salt += 1
                        big = {"1qubit": kind == "qmpt", "1qutrit": kind in ("qpt", "qmpt"),
                               "2qubit": kind in ("qpt", "qmpt")}[sysname]
                        if sysname == "2qubit" and kind == "qmpt":
                            continue            # 512 variables, hours per run: outside both tiers
                        if quick and sysname == "1qutrit" and kind == "qmpt":
                            continue
                        if quick and sysname == "1qutrit" and data in ("far_dir", "exact_i") and kind != "qst":
                            continue
                        shots = int(rnd.choice([1, 2, 5, 10, 100]))
                        m = int(rnd.choice([2, 3, 4])) if kind == "povmt" else (int(rnd.choice([2, 3])) if kind == "qmpt" else None)
                        if kind == "qmpt" and sysname != "1qubit":
                            m = 2
                        eps_proj = [None, None, 1e-10, 1e-7][int(rnd.integers(0, 4))]
                        ests = [("ple", "eq_ineq"), ("ple", "ineq_eq")]
                        n_lme = (2 if quick else 4) if not big else (1 if quick else 2)
                        for _ in range(n_lme):
                            lo, al, od = LME_GRID[rot % len(LME_GRID)]
                            rot += 1
                            if big and (quick or sysname == "2qubit"):
                                # generic losses / backtracking on >= 72 variables take minutes: fast losses, cheap algorithms
                                lo = {"se": "fse", "re": "fre"}.get(lo, lo)
                                if al == "pgdb" and data != "exact_b":
                                    al = "fista"
                            elif big:
                                lo = {"se": "fse", "re": "fre"}.get(lo, lo)
                            ests.append(("lme", lo, al, od))
                        if data.startswith("exact") and not any(e[0] == "lme" and e[2] == "pgdb" for e in ests) \
                                and not (big and quick and sysname != "1qubit"):
                            ests.append(("lme", "fse" if salt % 2 else "fre", "pgdb", "eq_ineq"))
                        specs.append({"seed": seed, "salt": salt, "sys": sysname, "kind": kind, "para": para, "data": data,
                                      "shots": shots, "m": m, "eps_proj": eps_proj, "ests": ests})
    # --- cells every run contains
    # (a) small optimiser budgets: the estimate and every recorded iterate must be physical whatever max_iteration_optimization is
    nb = 1 if quick else 3
    for rep in range(nb * volume):
        for kind in ("qst", "qpt", "povmt"):
            for para in (True, False):
                salt += 1
                ests = [("lme", ["fse", "fre"][(salt + j) % 2], al, "eq_ineq", bud)
                        for j, al in enumerate(("pgdb", "pgdm", "fista")) for bud in (2, 5, 10)]
                specs.append({"seed": seed, "salt": salt, "sys": "1qubit", "kind": kind, "para": para, "data": "few",
                              "shots": int(rnd.choice([1, 3, 5])), "m": 3 if kind == "povmt" else None, "eps_proj": None,
                              "ests": ests, "noseq": True})
    # (b) exact data of 3- and 4-outcome instruments / POVMs with the dependent-element parametrisation, interior truth
    for rep in range(nb * volume):
        for kind, m in (("qmpt", 3), ("qmpt", 2), ("povmt", 3), ("povmt", 4)):
            for para in (True, False):
                salt += 1
                specs.append({"seed": seed, "salt": salt, "sys": "1qubit", "kind": kind, "para": para, "data": "exact_i",
                              "shots": 1000, "m": m, "eps_proj": None,
                              "ests": [("lme", "fse", "pgdb", "eq_ineq"), ("lme", "fre", "pgdb", "eq_ineq")], "noseq": True})
    # (d) imperfect over-complete testers + noisy data of a deep-interior object: a positive linear estimate that is off the
    #     equality constraint (on_para_eq_constraint=False) must still be projected
    for rep in range((2 if quick else 6) * volume):
        for sysname, kind, shots in ([("1qubit", "qst", 50), ("1qubit", "qst", 300), ("1qubit", "qpt", 3000), ("1qubit", "qmpt", 3000)]
                                     + ([] if quick else [("1qutrit", "qst", 200)])):
            for para in (False, True):
                salt += 1
                specs.append({"seed": seed, "salt": salt, "sys": sysname, "kind": kind, "para": para, "data": "noisy_int",
                              "shots": shots, "m": 2 if kind == "qmpt" else None, "eps_proj": None, "testers": "ineff",
                              "ests": [("ple", "eq_ineq"), ("ple", "ineq_eq"), ("lme", "fse", "fista", "eq_ineq")], "noseq": True})
    # (e) a tight user threshold eps_proj_physical = 1e-22 must reach the template object and the estimates (bound ~ 4e-11)
    for rep in range((1 if quick else 3) * volume):
        for kind in L.KINDS:
            for para in (True, False):
                salt += 1
                specs.append({"seed": seed, "salt": salt, "sys": "1qubit", "kind": kind, "para": para, "data": "few",
                              "shots": int(rnd.choice([2, 5, 20])), "m": 3 if kind == "povmt" else (2 if kind == "qmpt" else None),
                              "eps_proj": 1e-22, "noseq": True,
                              "ests": [("ple", "eq_ineq"), ("ple", "ineq_eq"), ("lme", "fse", "pgdb", "eq_ineq")]})
    # (f) the option sets of the loss families: inverse-covariance weights of the squared-error losses (shot counts for which the
    #     weights stay moderate) and identity-weight relative entropy, exact data of boundary and interior objects; the loss and
    #     algorithm objects are afterwards re-used for a second tomography of the same size ("reuse")
    for rep in range((1 if quick else 3) * volume):
        for kind, m in (("qst", None), ("qpt", None), ("povmt", 2)):
            for para in (True, False):
                for data in ("exact_b", "exact_i"):
                    salt += 1
                    modes = ["inverse_sample_covariance", "inverse_unbiased_covariance"]
                    if salt % 2:
                        modes.reverse()
                    specs.append({"seed": seed, "salt": salt, "sys": "1qubit", "kind": kind, "para": para, "data": data,
                                  "shots": 1000, "exact_shots": [10, 100][salt % 2], "m": m, "eps_proj": None, "noseq": True,
                                  "reuse": True,
                                  # (generic loss only where a 1000-iteration run stays cheap)
                                  "ests": [("lme", "se" if kind != "qpt" else "fse", "pgdb", "eq_ineq", None, modes[0]),
                                           ("lme", "fse", "pgdb", "eq_ineq", None, modes[1]),
                                           ("lme", ["re", "fre"][salt % 2] if kind != "qpt" else "fre", "pgdb", "eq_ineq"),
                                           ("lme", ["fre", "re"][salt % 2] if kind != "qpt" else "fre", "pgdb", "eq_ineq")]})
    # (g) standard (unrotated) testers and boundary objects aligned with them: the exact distributions contain exact zeros and ones
    for rep in range((1 if quick else 4) * volume):
        for kind in L.KINDS:
            for para in (True, False):
                salt += 1
                fams = ["fre", "re", "fse"] if kind in ("qst", "povmt") else ["fre", "fse"]
                specs.append({"seed": seed, "salt": salt, "sys": "1qubit", "kind": kind, "para": para, "data": "exact_b", "aligned": True,
                              "shots": 1000, "m": 2 if kind in ("povmt", "qmpt") else None, "eps_proj": None, "noseq": True,
                              "ests": [("ple", "eq_ineq"), ("ple", "ineq_eq")] + [("lme", fm, "pgdb", "eq_ineq") for fm in fams]})
    # (c) the installed projections leave physical points where they are
    for rep in range((2 if quick else 6) * volume):
        for sysname in (["1qubit"] if quick else ["1qubit", "1qutrit"]):
            for kind in L.KINDS:
                if sysname == "1qutrit" and kind in ("qpt", "qmpt") and rep > 0:
                    continue
                for para in (True, False):
                    salt += 1
                    m = None if kind in ("qst", "qpt") else 2 + (salt + rep) % 3
                    if sysname == "1qutrit" and kind == "qmpt":
                        m = 2 + rep % 2
                    specs.append({"type": "fixpoint", "seed": seed, "salt": salt, "sys": sysname, "kind": kind, "para": para,
                                  "m": m, "eps_proj": [None, 1e-10][salt % 2], "data": "fixpoint", "shots": 0, "ests": []})
    return specs


def eval_fixpoint(spec):
    """the projection installed by set_constraint_from_standard_qt_and_option is the identity on the physical set"""
    out = {"viol": [], "cases": [], "counts": {}, "t": time.time()}
    g = gen(spec["seed"], spec["salt"])
    kind = spec["kind"]
    qt, c, m = L.make_qt(g, kind, spec["sys"], spec["para"], m=spec["m"], eps_proj_physical=spec["eps_proj"])
    delta = math.sqrt(spec["eps_proj"] or 1e-14)
    tol = 20 * math.sqrt(m or 1) * delta + 1e-9
    out["counts"][f"fixpoint {spec['sys']} {kind} para={spec['para']} m={m}"] = 1
    for flags in ((True, True), (True, False), (False, True)):
        for aname in ("pgdb", "pgdm", "fista"):
            A, AO = L.ALGOS[aname]
            algo = A()
            algo.set_constraint_from_standard_qt_and_option(qt, AO(on_algo_eq_constraint=flags[0], on_algo_ineq_constraint=flags[1]))
            for cls in ("interior", "boundary", "interior"):
                obj = L.true_object(g, kind, c, m, cls)
                v = obj.convert_stacked_vector_to_var(c, obj.to_stacked_vector(), on_para_eq_constraint=spec["para"])
                try:
                    w, _ = L.quiet(algo.func_proj, np.array(v, dtype=float).copy())
                except Exception as e:  # noqa
                    out["viol"].append({"signature": f"C10/func-proj/{kind}/raises", "what": f"{type(e).__name__}: {str(e)[:200]}",
                                        "replay": {"kind": "cell", "spec": spec}})
                    continue
                moved = float(np.linalg.norm(np.asarray(w) - v))
                out["cases"].append(((spec["salt"], flags, aname, cls), True,
                                     {"op": "func_proj fixed point", "kind": kind, "m": m, "para": spec["para"], "flags": list(flags),
                                      "moved": moved}))
                if moved > tol:
                    out["viol"].append({"signature": f"C10/func-proj/{kind}/moves-physical-point",
                                        "what": f"{aname} flags={flags} {spec['sys']} {kind} m={m} para={spec['para']} ({cls} object): "
                                                f"|func_proj(var) - var| = {moved:.3e} > {tol:.1e}",
                                        "replay": {"kind": "cell", "spec": spec}})
            if flags != (True, True):
                break          # the single-constraint projections do not depend on the algorithm class
    out["t"] = time.time() - out["t"]
    return out


def setup(spec):
    g = gen(spec["seed"], spec["salt"])
    qt, c, m = L.make_qt(g, spec["kind"], spec["sys"], spec["para"], m=spec["m"], eps_proj_physical=spec["eps_proj"],
                         testers=spec.get("testers", "mub"), rotate=not spec.get("aligned"))
    if spec.get("aligned"):
        true = L.aligned_object(g, spec["kind"], spec["sys"], c, m)
    else:
        true = L.true_object(g, spec["kind"], c, m, "boundary" if spec["data"] == "exact_b" else "interior")
    if spec["data"] == "noisy_int":
        # noisy data of an object deep inside the physical set (equal mixture of a random full-rank object and the origin
        # object; the forward model is affine): the linear estimate is typically positive, but not on the equality constraint
        origin = qt.generate_empty_estimation_obj_with_setting_info().generate_origin_obj()
        empi = []
        for pa, pb in zip(qt.calc_prob_dists(true), qt.calc_prob_dists(origin)):
            pmix = np.clip(0.5 * np.array(pa, dtype=float) + 0.5 * np.array(pb, dtype=float), 0, None)
            pmix = pmix / pmix.sum()
            empi.append((spec["shots"], g.multinomial(spec["shots"], pmix) / spec["shots"]))
    elif spec["data"] == "few":
        empi = L.fewshot_data(g, qt, true, spec["shots"])
    elif spec["data"].startswith("exact"):
        empi = L.exact_data(qt, true, shots=spec.get("exact_shots", 1000))
    else:
        empi = L.farout_data(g, qt, true, spec["data"][4:])
    return g, qt, c, m, true, empi


def tolerances(spec, m):
    eps = spec["eps_proj"] or 1e-14
    delta = math.sqrt(eps)
    n_el = m if spec["kind"] in ("povmt", "qmpt") else 1
    return 4 * math.sqrt(n_el) * delta + 1e-11, 4 * delta + 1e-11


def est_name(est):
    if est[0] == "ple":
        return "ple-" + est[1]
    return f"{est[1]}-{est[2]}-{est[3]}" + (f"-budget{est[4]}" if len(est) > 4 and est[4] else "") \
        + (f"-{est[5]}" if len(est) > 5 and est[5] else "")


def _reuse_default(spec):
    """two of the cell's backtracking estimators (rotating with the salt) take part in the object re-use check"""
    cand = [e for e in spec["ests"] if e[0] == "lme" and e[2] == "pgdb"]
    if len(cand) <= 2:
        return cand[:1] if not spec.get("reuse") else cand
    k = spec["salt"] % 2
    return [cand[k], cand[2 + k]] if len(cand) >= 4 else cand[:2]


def est_kwargs(est):
    kw = {"max_iteration_optimization": int(est[4])} if len(est) > 4 and est[4] else {}
    if len(est) > 5 and est[5]:
        kw["mode_weight"] = est[5]
    return kw


def run_est(qt, empi, est):
    """returns (estimated object, estimated var, result, printed text)"""
    if est[0] == "ple":
        r, msg = L.run_ple(qt, empi, est[1])
    else:
        r, msg, _, _, _ = L.run_lme(qt, empi, est[1], est[2], mode_proj_order=est[3], **est_kwargs(est))
    return r.estimated_qoperation, np.array(r.estimated_var), r, msg


def eval_spec(spec):
    """evaluate the property on one cell; pure function of the spec (replayable)"""
    if spec.get("type") == "fixpoint":
        return eval_fixpoint(spec)
    out = {"viol": [], "cases": [], "counts": {}, "t": time.time()}

    def cnt(k):
        out["counts"][k] = out["counts"].get(k, 0) + 1

    def viol(sig, what, est, seq=False):
        rs = dict(spec, ests=[], seq_ests=[list(est)]) if seq else dict(spec, ests=[list(est)], seq_ests=[])
        out["viol"].append({"signature": sig, "what": what, "replay": {"kind": "cell", "spec": rs}})

    g, qt, c, m, true, empi = setup(spec)
    tol_eq, tol_ineq = tolerances(spec, m)
    # the threshold handed to the tomography class is the one its template / setting-info objects carry
    want_eps = spec["eps_proj"] or 1e-14
    for label, o in (("template", qt._template_qoperation), ("setting-info", qt.generate_empty_estimation_obj_with_setting_info())):
        if not (abs(o.eps_proj_physical - want_eps) <= 1e-12 * want_eps):
            out["viol"].append({"signature": f"C10/template/{spec['kind']}/eps-proj-physical-not-forwarded",
                                "what": f"{type(qt).__name__}(eps_proj_physical={spec['eps_proj']}): {label} object carries "
                                        f"{o.eps_proj_physical!r}", "replay": {"kind": "cell", "spec": dict(spec, ests=[], seq_ests=[])}})
            break
    tv = true.to_stacked_vector()
    kind, data = spec["kind"], spec["data"]
    cnt(f"cell {spec['sys']} {kind} para={spec['para']} data={data}")
    zeros = sum(int((p == 0).sum()) for _, p in empi)
    cnt("data with empty outcomes" if zeros else "data without empty outcomes")
    if spec.get("aligned"):
        cnt("aligned boundary data with exact zeros" if sum(int((np.asarray(p) < 1e-10).sum()) for _, p in empi) else "aligned data without zeros")
    iters = {}
    refcache = {}
    for est in [tuple(e) for e in spec["ests"]]:
        name = est_name(est)
        fam = "ple" if est[0] == "ple" else est[2]
        try:
            obj, var, r, msg = run_est(qt, empi, est)
        except Exception as e:  # noqa
            key = "-".join("".join(ch if ch.isalnum() else " " for ch in str(e)).split()[:4]).lower()
            lk = "ple" if est[0] == "ple" else ("relative-entropy" if est[1] in ("re", "fre") else "squared-error")
            viol(f"C10/{fam}/raises/{type(e).__name__}:{key}/{lk}",
                 f"{name} on {spec['sys']} {kind} para={spec['para']} {data}: {type(e).__name__}: {str(e)[:300]}", est)
            cnt(f"raises {type(e).__name__}:{key}")
            continue
        cnt(f"estimator {fam}")
        iters[name] = 0 if est[0] == "ple" else int(r.detailed_results[0].k)
        if "iterations exceeds" in msg:
            cnt(f"iteration limit reached ({'projection' if 'projection' in msg else fam})")
        eqd, mine = L.defects(obj)
        out["cases"].append(((spec["salt"], name), bool(zeros) or data != "few",
                             {"cell": [spec["sys"], kind, spec["para"], data], "estimator": name,
                              "eq_defect": eqd, "min_eig": mine}))
        if not np.all(np.isfinite(var)):
            viol(f"C10/{fam}/{kind}/non-finite", f"{name}: estimate contains nan/inf", est); continue
        if eqd > tol_eq:
            viol(f"C10/{fam}/{kind}/eq-defect", f"{name} on {spec['sys']} {data}: equality defect {eqd:.3e} > {tol_eq:.1e}", est)
        if mine < -tol_ineq:
            viol(f"C10/{fam}/{kind}/negative-eig", f"{name} on {spec['sys']} {data}: min eigenvalue {mine:.3e} < -{tol_ineq:.1e}", est)
        dist = float(np.linalg.norm(obj.to_stacked_vector() - tv))
        if data.startswith("exact"):
            if est[0] == "ple":
                tol = 1e-7 + 10 * (tol_eq + tol_ineq)
            elif est[2] == "pgdb":
                # squared error: strongly convex, observed <= 2e-6; relative entropy: observed <= 4e-4 (slow tail of the
                # loss-difference stopping rule near the boundary)
                # an inexact physical projection (coarse eps_proj_physical) limits the attainable accuracy: the relative
                # entropy is sensitive to the normalisation defect it leaves (observed amplification <= 90)
                delta = math.sqrt(spec["eps_proj"] or 1e-14)
                # (the relative entropy gains ~delta per schedule from the normalisation slack an inexact projection leaves and pays
                #  ~d^2 for a displacement d: d ~ sqrt(#schedules * delta); 2-qubit QPT, 144 schedules, eps 1e-10: 1.4e-2 observed)
                n_sched = len(empi)
                tol = (1e-4 + 10 * delta) if est[1] in ("se", "fse") else (5e-3 + max(300 * delta, 2 * math.sqrt(n_sched * delta)))
            else:
                tol = None
            # POVM / measurement-process tomography with on_para_eq_constraint=True: the last element is a dependent
            # variable, the installed projection is a nearest-point map for a different metric than the gradient's (D13)
            # (established for the relative-entropy losses only -- interior and rank-deficient truths; the squared-error
            # losses recover the truth to 2e-6 in this parametrisation as well and keep the plain signature)
            dep = spec["para"] and fam == "pgdb" and (kind == "qmpt" or (kind == "povmt" and (m or 0) > 2)) \
                and est[1] in ("re", "fre")
            cls = kind + ("-dependent-element-parametrisation" if dep else "")
            if tol is not None and dist > tol:
                viol(f"C10/{fam}/{cls}/exact-data-not-recovered",
                     f"{name} on {spec['sys']} {data}: |estimate - true| = {dist:.3e} > {tol:.1e}", est)
        if est[0] == "ple":
            lin = L.LinearEstimator().calc_estimate(qt, empi).estimated_qoperation
            lin.set_mode_proj_order(est[1])
            ref, _ = L.quiet(lin.calc_proj_physical)
            if not np.allclose(var, ref.to_var(), rtol=0, atol=1e-12):
                viol(f"C10/ple/{kind}/not-projection-of-linear",
                     f"{name}: estimate differs from calc_proj_physical(linear estimate) by {np.abs(var - ref.to_var()).max():.3e}", est)
            # independent reference: nearest physical point of the linear estimate by a numpy Dykstra iteration (elementary
            # projections written in c10lib.RefProjector) -- the estimate must be that point, and no farther from the linear
            # estimate than it, to the accuracy of the stopping threshold
            zlin = lin.to_stacked_vector()
            key = ("ref", zlin.tobytes())
            if key not in refcache:
                refcache[key] = L.RefProjector(lin).project(zlin)
            xref, nit, conv = refcache[key]
            if conv:
                cnt("reference projections")
                delta = math.sqrt(spec["eps_proj"] or 1e-14)
                xs_ = obj.to_stacked_vector()
                gap = float(np.linalg.norm(xs_ - xref))
                excess = float(np.linalg.norm(xs_ - zlin) - np.linalg.norm(xref - zlin))
                if gap > 20 * delta + 1e-8 or excess > 10 * delta + 1e-8:
                    viol(f"C10/ple/{kind}/not-nearest-physical-point",
                         f"{name} on {spec['sys']} {data}: |estimate - reference projection| = {gap:.3e}, "
                         f"|estimate - linear| - |reference - linear| = {excess:.3e} (allowed {20 * delta + 1e-8:.1e})", est)
            else:
                cnt("reference projection not converged")
            # the projection must not move a physical linear estimate, and must move an unphysical one to the boundary
            le, li = L.defects(lin)
            if li >= 0 and le > 1e-6:
                cnt("linear estimate positive but off the equality constraint")
            if le <= 1e-12 and li >= 1e-9 and np.linalg.norm(lin.to_stacked_vector() - obj.to_stacked_vector()) > 1e-6:
                viol(f"C10/ple/{kind}/moves-physical-linear-estimate", f"{name}: physical linear estimate was changed", est)
        elif r.detailed_results:
            xs = r.detailed_results[0].x
            idx = sorted(set(np.linspace(0, len(xs) - 1, min(len(xs), 12)).astype(int).tolist()))
            tmpl = qt._template_qoperation
            for i in idx:
                e2, m2 = L.defects(tmpl.generate_from_var(xs[i]))
                if e2 > tol_eq or m2 < -tol_ineq:
                    viol(f"C10/{fam}/{kind}/iterate-infeasible",
                         f"{name}: iterate {i}/{len(xs) - 1} eq defect {e2:.2e} min eig {m2:.2e}", est)
                    break
    # --- the same loss / algorithm objects for a second tomography of the same type and size (other tester rotation): the estimate
    #     must be the one fresh objects give, i.e. exact data of the second experiment's object are recovered as well
    if spec.get("reuse") or (data.startswith("exact") and spec["sys"] == "1qubit" and kind != "qmpt"
                             and "seq_ests" not in spec and spec["salt"] % 3 == 0):
        qt2, c2, m2 = L.make_qt(g, kind, spec["sys"], spec["para"], m=spec["m"], eps_proj_physical=spec["eps_proj"])
        true2 = L.true_object(g, kind, c2, m2, "boundary" if data == "exact_b" else "interior")
        empi_2 = L.exact_data(qt2, true2, shots=spec.get("exact_shots", 1000))
        for est in [tuple(e) for e in spec.get("reuse_ests", _reuse_default(spec))]:
            name = est_name(est)
            if "reuse_ests" not in spec and iters.get(name, 10 ** 9) > 150:
                continue
            kw = est_kwargs(est)
            mw = kw.pop("mode_weight", "identity")
            try:
                Lc, LOc = L.LOSSES[est[1]]
                Ac, AOc = L.ALGOS[est[2]]
                lobj, aobj, aopt, e_ = Lc(qt.num_variables), Ac(), AOc(mode_proj_order=est[3], **kw), L.LossMinimizationEstimator()
                L.quiet(e_.calc_estimate, qt, empi, lobj, LOc(mw), aobj, aopt)
                r2, _ = L.quiet(e_.calc_estimate, qt2, empi_2, lobj, LOc(mw), aobj, aopt)
                got = np.array(r2.estimated_var, dtype=float)
                fresh = np.array(L.run_lme(qt2, empi_2, est[1], est[2], history=False, mode_proj_order=est[3], mode_weight=mw, **kw)[0]
                                 .estimated_var, dtype=float)
                cnt("loss object re-used for a second tomography")
                dd = float(np.linalg.norm(got - fresh))
                if dd > 1e-7:
                    rs = dict(spec, ests=[], seq_ests=[], reuse=True, reuse_ests=[list(est)])
                    out["viol"].append({"signature": f"C10/pgdb/{kind}/stale-model-in-reused-loss-object",
                                        "what": f"{name}: loss/algorithm objects re-used for a second tomography: estimate differs from "
                                                f"the fresh-object estimate by {dd:.3e} (exact data of the second object not recovered)",
                                        "replay": {"kind": "cell", "spec": rs}})
            except Exception as ex:  # noqa
                viol(f"C10/pgdb/raises/{type(ex).__name__}:reuse/{kind}", f"{name}: re-use run: {type(ex).__name__}: {str(ex)[:200]}", est)
    # --- a sequence of data sets is estimated element by element (same estimator objects reused across the sequence)
    if data == "few" and spec["sys"] == "1qubit" and kind != "qmpt" and not spec.get("noseq"):
        empi2 = L.fewshot_data(g, qt, true, max(1, spec["shots"] // 2 + 1))
        for est in [tuple(e) for e in spec.get("seq_ests", spec["ests"][1:3])]:
            name = est_name(est)
            fam = "ple" if est[0] == "ple" else est[2]
            if "seq_ests" not in spec and iters.get(name, 10 ** 9) > 60:
                continue            # five more runs of a long optimisation: outside the time budget (rule depends on the run only)
            try:
                if est[0] == "ple":
                    e = L.ProjectedLinearEstimator(mode_proj_order=est[1])
                    rs, _ = L.quiet(e.calc_estimate_sequence, qt, [empi, empi2, empi])
                    singles = [np.array(L.run_ple(qt, d, est[1])[0].estimated_var) for d in (empi, empi2)]
                else:
                    Lc, LOc = L.LOSSES[est[1]]
                    Ac, AOc = L.ALGOS[est[2]]
                    e = L.LossMinimizationEstimator()
                    rs, _ = L.quiet(e.calc_estimate_sequence, qt, [empi, empi2, empi], Lc(qt.num_variables), LOc("identity"),
                                    Ac(), AOc(mode_proj_order=est[3]))
                    singles = [np.array(L.run_lme(qt, d, est[1], est[2], history=False, mode_proj_order=est[3])[0].estimated_var)
                               for d in (empi, empi2)]
                seq = [np.array(v) for v in rs.estimated_var_sequence]
                cnt("sequence runs")
                if len(seq) != 3 or not (np.allclose(seq[0], singles[0], rtol=0, atol=1e-9) and
                                         np.allclose(seq[1], singles[1], rtol=0, atol=1e-9) and
                                         np.allclose(seq[2], singles[0], rtol=0, atol=1e-9)):
                    viol(f"C10/{fam}/{kind}/sequence-differs-from-single",
                         f"{name}: calc_estimate_sequence([a, b, a]) differs from the separate estimates of a and b", est, seq=True)
            except Exception as ex:  # noqa
                viol(f"C10/{fam}/raises/{type(ex).__name__}:sequence/{kind}", f"{name}: sequence run: {type(ex).__name__}: {str(ex)[:200]}", est, seq=True)
    out["t"] = time.time() - out["t"]
    return out


def run_specs(ctx, specs):
    t0 = time.time()
    if WORKERS > 1 and len(specs) > 4:
        order = sorted(range(len(specs)), key=lambda i: -_cost(specs[i]))
        with ProcessPoolExecutor(max_workers=WORKERS) as ex:
            res = list(ex.map(eval_spec, [specs[i] for i in order], chunksize=1))
        res = [r for _, r in sorted(zip(order, res))]
    else:
        res = [eval_spec(s) for s in specs]
    for r in res:
        for k, v in r["counts"].items():
            ctx.count(k, v)
        for canon, nt, sample in r["cases"]:
            ctx.case(("oracle",) + tuple(canon), nontrivial=nt, sample=sample)
        for v in r["viol"]:
            ctx.violate(v["signature"], v["what"], v["replay"])
    ctx.notes.append(f"oracle: {len(specs)} cells in {time.time() - t0:.1f}s on {WORKERS} workers; slowest cell {max(r['t'] for r in res):.1f}s")


def _cost(s):
    w = {"1qubit": 1, "1qutrit": 20, "2qubit": 60}[s["sys"]] * {"qst": 1, "povmt": 3, "qpt": 8, "qmpt": 20}[s["kind"]]
    return w * (1 + sum(3 for e in s["ests"] if e[0] == "lme" and e[2] == "pgdb"))


PARTIAL = [
    "pgdb_truth_is_fixed_partial / pgdb_run_from_stationary_point: the true object is a fixed point of the backtracking run under exact "
    "data; that the iteration reaches it from the origin object is not proved (false on the tree for dependent-element "
    "parametrisations: D13)",
    "termination of the Dykstra / projected-gradient loops before their iteration limits is not proved here (C11 proves it for the "
    "projected-gradient rule on L-smooth losses); dyk_stop_accuracy / proj_physical_lands_in_threshold_set say what a stop on the "
    "criterion gives: in the last set, delta-close to the first — nothing about the distance to the intersection; at a stationary "
    "state the result is the nearest physical point (dyk_stationary_is_nearest), but convergence to one (Boyle-Dykstra) is not proved",
    "that the implementation's elementary projections map into their sets is C04/C05's statement; here it is a hypothesis (hproj, hE, hI)",
    "the pgdb_* theorems assume the exact-arithmetic line search returns a positive step; float runs that end the search by underflow "
    "(alpha = 0, x_next = x_prev) are counted by the harness, not modelled",
    "selection_table, selection_keeps_installed, ple_eq_proj_of_lin are decision tables of the model (true by unfolding): their tie to "
    "the code is the correspondence and the generated-table theorems; whole runs of pgdbOptimize, pgdmOptimize, fistaOptimize and projPhysical (all sweeps, "
    "elementary projections replayed as recorded tables) are executed against the real classes, incl. the max_iteration = 0 error branch",
]


def oracle(ctx, volume=1):
    ctx.partial = PARTIAL
    run_specs(ctx, make_specs(ctx.seed, ctx.quick, volume))


def search(ctx):
    run_specs(ctx, make_specs(ctx.seed + 1000, ctx.quick, 2))


def replay(ctx, data):
    r = data["replay"]
    print("replaying", r)
    if r.get("kind") != "cell":
        print("nothing to re-execute for this replay kind"); return 1
    out = eval_spec(r["spec"])
    spec = r["spec"]
    if spec.get("type") == "fixpoint":
        for v in out["viol"]:
            print("  still failing:", v["signature"], "-", v["what"])
        return 1 if out["viol"] else 0
    g, qt, c, m, true, empi = setup(spec)
    for est in spec["ests"]:
        try:
            obj, var, _, _ = run_est(qt, empi, tuple(est))
            print(est_name(tuple(est)), "defects (eq, min eig)", L.defects(obj), "tolerances", tolerances(spec, m),
                  "| distance to the true object", float(np.linalg.norm(obj.to_stacked_vector() - true.to_stacked_vector())))
        except Exception as e:  # noqa
            print(est_name(tuple(est)), "raises", type(e).__name__, e)
    for v in out["viol"]:
        print("  still failing:", v["signature"], "-", v["what"])
    return 1 if out["viol"] else 0


# ============================================================================= correspondence
def bl(b):
    return "true" if b else "false"


def vec(s):
    return np.array([float(x) for x in unqlist(s)])


def corr_select(ctx, drv, pend):
    """the projection installed by set_constraint_from_standard_qt_and_option, identified by evaluating it"""
    g = ctx.npgen(11)
    combos = [(k, s) for k in L.KINDS for s in (["1qubit"] if ctx.quick else ["1qubit", "1qutrit"])]
    for kind, sysname in combos:
        for para in (True, False):
            qt, c, m = L.make_qt(g, kind, sysname, para)
            for si_order in ("eq_ineq", "ineq_eq"):
                for eqf in (True, False):
                    for ineqf in (True, False):
                        for opt_order in ("eq_ineq", "ineq_eq"):
                            max_it = [100000, 2][int(g.integers(0, 2))]
                            # the estimation template of the tomography carries the order
                            tmpl = _template(qt)
                            tmpl.set_mode_proj_order(si_order)
                            AO = L.ALGOS["pgdb"][1]
                            algo = L.ALGOS[["pgdb", "pgdm", "fista"][int(g.integers(0, 3))]][0]()
                            opt = AO(on_algo_eq_constraint=eqf, on_algo_ineq_constraint=ineqf, mode_proj_order=opt_order,
                                     max_iteration_proj_physical=max_it)
                            algo.set_constraint_from_standard_qt_and_option(qt, opt)
                            si = qt.generate_empty_estimation_obj_with_setting_info()
                            v = 0.7 * g.standard_normal(qt.num_variables)
                            got, _ = L.quiet(algo.func_proj, v.copy())
                            cands = {}
                            for o in ("eq_ineq", "ineq_eq"):
                                for mi in (100000, 2):
                                    s2 = qt.generate_empty_estimation_obj_with_setting_info()
                                    s2.set_mode_proj_order(o)
                                    cands[f"physical {bl(para)} {o} {mi}"] = L.quiet(
                                        s2.calc_proj_physical_with_var, v.copy(), on_para_eq_constraint=para, max_iteration=mi)[0]
                            cands[f"eq {bl(para)}"] = si.calc_proj_eq_constraint_with_var(c, v.copy(), on_para_eq_constraint=para)
                            cands[f"ineq {bl(para)}"] = si.calc_proj_ineq_constraint_with_var(
                                c, v.copy(), on_para_eq_constraint=para, eps_truncate_imaginary_part=si.eps_truncate_imaginary_part)
                            cands["self"] = v.copy()
                            match = sorted(k for k, w in cands.items() if np.array_equal(np.asarray(w), np.asarray(got)))
                            i = drv.ask("select", "none", bl(si.on_para_eq_constraint), si.mode_proj_order, bl(eqf), bl(ineqf),
                                        opt_order, max_it)
                            pend.append(("select", (kind, sysname, para, si_order, eqf, ineqf, opt_order, max_it), match, i))
                            ctx.case(("select", kind, sysname, para, si_order, eqf, ineqf, opt_order, max_it),
                                     nontrivial=len(match) == 1, sample={"op": "select", "flags": [eqf, ineqf], "installed": match})
                            ctx.count(f"select eq={eqf} ineq={ineqf}")
                            tmpl.set_mode_proj_order("eq_ineq")
            # a projection that is already installed is kept (constructor argument, and second call)
            custom = qfunc_proj.proj_to_self()
            algo = L.ALGOS["pgdb"][0](custom)
            algo.set_constraint_from_standard_qt_and_option(qt, L.ALGOS["pgdb"][1]())
            first = algo.func_proj is custom
            algo2 = L.ALGOS["pgdb"][0]()
            algo2.set_constraint_from_standard_qt_and_option(qt, L.ALGOS["pgdb"][1]())
            f1 = algo2.func_proj
            algo2.set_constraint_from_standard_qt_and_option(qt, L.ALGOS["pgdb"][1](on_algo_ineq_constraint=False))
            second = algo2.func_proj is f1
            i = drv.ask("select", "kept", bl(para), "eq_ineq", "true", "false", "eq_ineq", 100000)
            pend.append(("select-kept", (kind, sysname, para), ["kept" if (first and second) else "replaced"], i))
            ctx.case(("select-kept", kind, sysname, para))


def _template(qt):
    """the object that generate_empty_estimation_obj_with_setting_info copies (it carries mode_proj_order)"""
    so = qt._set_qoperations
    ref = qt.generate_empty_estimation_obj_with_setting_info()
    for name in ("states", "povms", "gates", "mprocesses"):
        lst = getattr(so, name)
        if lst and type(lst[0]) is type(ref):
            return lst[0]
    raise RuntimeError("estimation template not found")


def corr_ple(ctx, drv, pend):
    g = ctx.npgen(12)
    for kind in L.KINDS:
        for para in (True, False):
            for order in ("eq_ineq", "ineq_eq"):
                qt, c, m = L.make_qt(g, kind, "1qubit", para)
                n = int(g.integers(1, 4))
                seq = []
                for j in range(n):
                    true = L.true_object(g, kind, c, m, "interior")
                    seq.append(L.fewshot_data(g, qt, true, int(g.choice([1, 3, 20]))))
                est = L.ProjectedLinearEstimator(mode_proj_order=order)
                r, _ = L.quiet(est.calc_estimate_sequence, qt, seq)
                impl = [np.array(v) for v in r.estimated_var_sequence]
                i = drv.ask("ple", order, n)
                pend.append(("ple", (kind, para, order, n), (qt, seq, impl), i))
                ctx.case(("ple", kind, para, order, n), sample={"op": "ple", "kind": kind, "order": order, "n": n})
                ctx.count("ple plans")


def eval_plan(plan, qt, seq):
    """evaluate the model's expression `lin:i|order:o|proj|var` with the real kernels"""
    outs = []
    for expr in plan.split():
        val = None
        for tok in expr.split("|"):
            if tok.startswith("lin:"):
                val = L.LinearEstimator().calc_estimate(qt, seq[int(tok[4:])]).estimated_qoperation
            elif tok.startswith("order:"):
                val.set_mode_proj_order(tok[6:])
            elif tok == "proj":
                val = L.quiet(val.calc_proj_physical)[0]
            elif tok == "var":
                val = val.to_var()
            else:
                raise ValueError(tok)
        outs.append(np.array(val))
    return outs


def corr_dyk(ctx, drv, pend):
    g = ctx.npgen(13)
    reps = 1 if ctx.quick else 3
    for kind in L.KINDS:
        for para in (True, False):
            for order in ("eq_ineq", "ineq_eq"):
                for rep in range(reps):
                    eps = [1e-14, 1e-10, 1e-6][int(g.integers(0, 3))]
                    qt, c, m = L.make_qt(g, kind, "1qubit", para, eps_proj_physical=eps)
                    si = qt.generate_empty_estimation_obj_with_setting_info()
                    si.set_mode_proj_order(order)
                    scale = [0.05, 1.0, 30.0][int(g.integers(0, 3))]
                    true = L.true_object(g, kind, c, m, "interior")
                    v = true.to_var() if False else None
                    base = si.convert_stacked_vector_to_var(c, true.to_stacked_vector(), on_para_eq_constraint=para)
                    v = base + scale * g.standard_normal(len(base))
                    max_it = [200, 3][int(g.integers(0, 2))]
                    (res, h), _ = L.quiet(si.calc_proj_physical_with_var, v, on_para_eq_constraint=para,
                                           max_iteration=max_it, is_iteration_history=True)
                    nst = len(h["x"]) - 1
                    steps = sorted(set(list(range(min(nst, 3))) + list(range(max(0, nst - 3), nst))))
                    for k in steps:
                        i = drv.ask("dyk", len(h["x"][k]), qlist(h["x"][k]), qlist(h["p"][k]), qlist(h["q"][k]),
                                    qlist(h["y"][k + 1]), qlist(h["x"][k + 1]), q(eps), k)
                        stopped = (k == nst - 1) and nst < max_it
                        ev = h["error_value"][k]
                        pend.append(("dyk", (kind, para, order, scale, k), (h["p"][k + 1], h["q"][k + 1], ev, stopped, eps, k == nst - 1 and nst == max_it), i))
                        ctx.case(("dyk", kind, para, order, rep, k), nontrivial=k >= 1,
                                 sample={"op": "dyk", "kind": kind, "order": order, "k": k, "error_value": ev})
                    ctx.count(f"dykstra runs stopped={'criterion' if nst < max_it else 'limit'}")


STOP_MODES = ["single_difference_loss", "sum_absolute_difference_loss", "sum_absolute_difference_variable",
              "sum_absolute_difference_projected_gradient"]


def corr_algos(ctx, drv, pend):
    """recorded histories of the three algorithms on the fast squared-error loss, re-derived step by step by the model"""
    g = ctx.npgen(14)
    cells = [(k, para) for k in ("qst", "povmt", "qpt") for para in (True, False)]
    if not ctx.quick:
        cells += [("qmpt", True), ("qmpt", False)]
    reps = 1 if ctx.quick else 3
    for kind, para in cells:
        for algo in ("pgdb", "pgdm", "fista"):
            for rep in range(reps):
                qt, c, m = L.make_qt(g, kind, "1qubit", para)
                true = L.true_object(g, kind, c, m, "interior")
                empi = L.fewshot_data(g, qt, true, int(g.choice([2, 10, 1000])))
                mode = STOP_MODES[int(g.integers(0, 4))]
                nh = int(g.integers(1, 4))
                eps = [1e-6, 1e-9, 1e-12][int(g.integers(0, 3))]
                opt = dict(mode_stopping_criterion_gradient_descent=mode, num_history_stopping_criterion_gradient_descent=nh,
                           eps=eps, max_iteration_optimization=int(g.choice([4, 60])))
                if algo == "pgdb":
                    opt["gamma"] = float(g.choice([0.3, 0.05, 0.6]))
                    if g.random() < 0.5:
                        opt["mu"] = float(g.choice([0.5, 1.0, 2.0]))
                elif algo == "pgdm":
                    opt["r"] = float(g.choice([2.0, 1.0, 4.0]))
                else:
                    if g.random() < 0.5:
                        opt["delta"] = float(g.choice([0.05, 0.2]))
                r, msg, loss, aobj, aopt = L.run_lme(qt, empi, "fse", algo, **opt)
                res = r.detailed_results[0]
                A = np.array(loss._matA, dtype=float)
                cvec = np.array(loss._vecB, dtype=float) - np.array(loss._prob_dists_q_flat, dtype=float)
                mm, n = A.shape
                xs, errs, K = res.x, [float(e) for e in res.error_values], res.k
                ctx.count(f"algo run {algo} mode={mode.split('_', 1)[1] if False else mode}")
                steps = sorted(set(list(range(min(K, 3))) + list(range(max(0, K - 2), K))))
                for k in steps:      # 0-based index of the iteration; iteration number k+1
                    cont = (k + 1 < K)
                    last_by_limit = (k + 1 == K and K == aopt.max_iteration_optimization)
                    if algo == "pgdb":
                        mu = aopt.mu if aopt.mu else 3 / (2 * np.sqrt(qt.num_variables))
                        proj_pt = np.array(res.y[k]) + np.array(xs[k])
                        i = drv.ask("pgdb", n, mm, qlist(A.flatten()), qlist(cvec), qlist(xs[k]), q(mu), q(aopt.gamma),
                                    qlist(proj_pt), mode, nh, q(eps), qlist(errs[:k]))
                        pend.append(("pgdb", (kind, para, mode, nh, eps, k),
                                     dict(y=res.y[k], alpha=res.alpha[k], xn=xs[k + 1], err=errs[k], cont=cont, lim=last_by_limit,
                                          fx=res.fx[k], x=xs[k], fp=aobj.func_proj, eps=eps, window=sum(errs[max(0, k + 1 - nh):k + 1])), i))
                    elif algo == "pgdm":
                        gam = 1 / (2 * aopt.r * np.sqrt(qt.num_variables))
                        with np.errstate(all="ignore"):
                            mags = [int(np.ceil(np.log10(loss.value(np.array(xx))))) for xx in xs[:k + 1]]
                        mag_prev = min(mags[:k]) if k > 0 else mags[0]
                        i = drv.ask("pgdm", n, mm, qlist(A.flatten()), qlist(cvec), qlist(xs[k]), qlist(res.moment[k]),
                                    q(res.zeta[k]), mag_prev, mags[k], q(gam), q(0.95))
                        pend.append(("pgdm", (kind, para, k),
                                     dict(moment=res.moment[k + 1], zeta=res.zeta[k + 1], magp=min(mags), xn=xs[k + 1], fp=aobj.func_proj), i))
                    else:
                        delta = aopt.delta if aopt.delta else 1 / (10 * np.sqrt(qt.num_variables))
                        xpp = xs[k - 1] if k >= 1 else xs[0]
                        i = drv.ask("fista", n, mm, qlist(A.flatten()), qlist(cvec), qlist(xs[k]), qlist(xpp), q(delta), k + 1)
                        pend.append(("fista", (kind, para, k), dict(xn=xs[k + 1], fp=aobj.func_proj), i))
                    if algo != "pgdb":
                        j = drv.ask("stop", mode, nh, q(eps), qlist(errs[:k + 1]))
                        pend.append(("stop", (algo, kind, para, mode, nh, eps, k),
                                     dict(cont=cont, lim=last_by_limit, window=sum(errs[max(0, k + 1 - nh):k + 1]), eps=eps), j))
                    ctx.case((algo, kind, para, rep, k), nontrivial=True,
                             sample={"op": algo, "kind": kind, "mode": mode, "iteration": k + 1, "of": K})


def corr_lme(ctx, drv, pend):
    """the glue of LossMinimizationEstimator.calc_estimate_sequence, observed through spy subclasses of the real loss / algorithm
    classes: validation order and exception, one optimize call per data set with on_iteration_history = is_computation_time_required,
    the projection object handed to every run, presence of computation times / detailed results, estimated_var"""
    from quara.minimization_algorithm.projected_gradient_descent_backtracking import (
        ProjectedGradientDescentBacktrackingResult as PRes)
    g = ctx.npgen(15)
    qt, c, m = L.make_qt(g, "qst", "1qubit", True)
    true = L.true_object(g, "qst", c, m, "interior")
    KIND = {"loss.is_option_sufficient": "lossOption", "algo.is_loss_sufficient": "algoLoss",
            "algo.is_option_sufficient": "algoOption", "algo.is_loss_and_option_sufficient": "algoLossOption"}
    for n in (0, 1, 3):
        for time_req in (True, False):
            for det_req in (True, False):
                for cur in ("none", "installed"):
                    fails = [(-1, 0)] + ([(int(g.integers(0, n)), k) for k in range(4)] if n else [])
                    for fail_at, fail_kind in fails:
                        calls, state = [], {"i": -1}

                        def bad(k):
                            return not (state["i"] == fail_at and k == fail_kind)

                        class SpyLoss(L.SE):
                            def set_from_standard_qtomography_option_data(self, *a, **k):
                                state["i"] += 1
                                return super().set_from_standard_qtomography_option_data(*a, **k)

                            def is_option_sufficient(self):
                                return bad(0)

                        class SpyAlgo(L.PGDB):
                            def is_loss_sufficient(self):
                                return bad(1)

                            def is_option_sufficient(self):
                                return bad(2)

                            def is_loss_and_option_sufficient(self):
                                return bad(3)

                            def optimize(self, loss, loss_option, algo_option, on_iteration_history=False):
                                calls.append((state["i"], bool(on_iteration_history), self.func_proj))
                                return PRes(np.array([float(state["i"])] * 3), computation_time=0.25)

                        installed = qfunc_proj.proj_to_self() if cur == "installed" else None
                        algo = SpyAlgo(installed) if installed is not None else SpyAlgo()
                        seq = [L.fewshot_data(g, qt, true, 10) for _ in range(n)]
                        try:
                            r = L.LossMinimizationEstimator().calc_estimate_sequence(
                                qt, seq, SpyLoss(qt.num_variables), L.SEO("identity"), algo, L.PGDBO(),
                                is_computation_time_required=time_req, is_detailed_results_required=det_req)
                            same_proj = all(cl[2] is calls[0][2] for cl in calls) if calls else True
                            kept = (calls[0][2] is installed) if (calls and installed is not None) else True
                            try:
                                ev = f"opt:{int(r.estimated_var[0])}"
                            except IndexError:
                                ev = "indexerror"
                            impl = ("ok", [f"opt:{int(v[0])}" for v in r.estimated_var_sequence], [cl[:2] for cl in calls],
                                    r.computation_times is not None, r.detailed_results is not None, ev, same_proj and kept)
                        except ValueError as e:
                            k = [v for kk, v in KIND.items() if kk + "()" in str(e)]
                            impl = ("err", k[0] if k else str(e))
                        i = drv.ask("lme", n, bl(time_req), bl(det_req), cur, fail_at, fail_kind)
                        pend.append(("lme", (n, time_req, det_req, cur, fail_at, fail_kind), impl, i))
                        ctx.case(("lme", n, time_req, det_req, cur, fail_at, fail_kind), nontrivial=n > 0,
                                 sample={"op": "lme", "n": n, "time": time_req, "detailed": det_req, "result": impl[0]})
                        ctx.count(f"lme glue {impl[0]}")


def corr_runs(ctx, drv, pend):
    """whole runs of the real backtracking / FISTA classes with a projection and a loss that the model computes exactly (clamp to
    a box, `SimpleQuadraticLossFunction`): the loop control (continue / break on the stopping rule, iteration limit, which point
    is returned, the recorded history) of `pgdbOptimize` / `fistaLoop` is executed and compared, not only single steps"""
    from quara.loss_function.simple_quadratic_loss_function import SimpleQuadraticLossFunction
    g = ctx.npgen(16)
    for rep in range(24 if ctx.quick else 96):
        n = int(g.integers(1, 5))
        ref = np.round(g.normal(0, 1.5, n) * 16) / 16
        x0 = np.clip(np.round(g.normal(0, 1.0, n) * 16) / 16, 0.0, 2.0)
        lo, hi = 0.0, 2.0
        mode = STOP_MODES[int(g.integers(0, 4))]
        nh = int(g.integers(1, 4))
        eps = float(g.choice([2.0 ** -6, 2.0 ** -12, 2.0 ** -30]))
        max_it = int(g.choice([0, 1, 2, 5, 200, 200]))
        proj = lambda v: np.clip(v, lo, hi)  # noqa
        loss = SimpleQuadraticLossFunction(ref.copy())
        if rep % 2 == 0:
            mu, gamma = float(g.choice([0.5, 1.0, 2.0, 4.0])), float(g.choice([0.25, 0.5]))
            opt = L.PGDBO(var_start=x0.copy(), mu=mu, gamma=gamma, eps=eps, mode_stopping_criterion_gradient_descent=mode,
                          num_history_stopping_criterion_gradient_descent=nh, max_iteration_optimization=max_it)
            try:
                res, _ = L.quiet(L.PGDB(proj).optimize, loss, None, opt, on_iteration_history=True)
            except Exception as e:  # noqa
                if max_it == 0 and isinstance(e, UnboundLocalError):
                    # the loop body never ran: `k` is unbound after the loop -- the model's `none`
                    pend.append(("pgdbrun", (n, "max_iteration=0"), "raises", drv.ask("pgdbrun", n, qlist(ref), qlist(x0), q(lo), q(hi), q(mu), q(gamma), q(eps), mode, nh, max_it)))
                    ctx.case(("run0", rep)); ctx.count("whole runs with max_iteration = 0")
                    continue
                ctx.disagree("pgdbrun", (n, ref.tolist(), x0.tolist(), mu, gamma, eps, mode, nh, max_it), f"{type(e).__name__}: {e}", "a run")
                continue
            i = drv.ask("pgdbrun", n, qlist(ref), qlist(x0), q(lo), q(hi), q(mu), q(gamma), q(eps), mode, nh, max_it)
            pend.append(("pgdbrun", (n, ref.tolist(), x0.tolist(), mu, gamma, eps, mode, nh, max_it),
                         dict(k=res.k, x=np.array(res.value), errs=[float(e) for e in res.error_values], hist=[np.array(v) for v in res.x],
                              eps=eps, nh=nh, max_it=max_it), i))
        else:
            delta = float(g.choice([0.125, 0.25, 0.5]))
            opt = L.FISTAO(var_start=x0.copy(), delta=delta, eps=eps, mode_stopping_criterion_gradient_descent=mode,
                           num_history_stopping_criterion_gradient_descent=nh, max_iteration_optimization=max_it)
            try:
                res, _ = L.quiet(L.FISTA(proj).optimize, loss, None, opt, on_iteration_history=True)
            except Exception as e:  # noqa
                if max_it == 0 and isinstance(e, UnboundLocalError):
                    # the loop body never ran: `k` is unbound after the loop -- the model's `none`
                    pend.append(("fistarun", (n, "max_iteration=0"), "raises", drv.ask("fistarun", n, qlist(ref), qlist(x0), q(lo), q(hi), q(delta), q(eps), mode, nh, max_it)))
                    ctx.case(("run0", rep)); ctx.count("whole runs with max_iteration = 0")
                    continue
                ctx.disagree("fistarun", (n, ref.tolist(), x0.tolist(), delta, eps, mode, nh, max_it), f"{type(e).__name__}: {e}", "a run")
                continue
            i = drv.ask("fistarun", n, qlist(ref), qlist(x0), q(lo), q(hi), q(delta), q(eps), mode, nh, max_it)
            pend.append(("fistarun", (n, ref.tolist(), x0.tolist(), delta, eps, mode, nh, max_it),
                         dict(k=res.k, x=np.array(res.value), errs=[float(e) for e in res.error_values], eps=eps, nh=nh, max_it=max_it), i))
        ctx.case(("run", rep), nontrivial=res.k > 1, sample={"op": "whole run", "algo": "pgdb" if rep % 2 == 0 else "fista",
                                                              "mode": mode, "k": int(res.k), "limit": max_it})
        ctx.count(f"whole runs ended by {'limit' if res.k == max_it else 'rule'}")


def corr_runs2(ctx, drv, pend):
    """whole runs of the momentum class (clamp projection, quadratic loss bounded away from 0) through `pgdmLoop`, and whole runs of
    the real `calc_proj_physical_with_var` through `projPhysical` with the two elementary projections replayed as recorded tables"""
    from quara.loss_function.simple_quadratic_loss_function import SimpleQuadraticLossFunction
    g = ctx.npgen(17)
    for rep in range(12 if ctx.quick else 48):
        n = [1, 4][rep % 2]                       # sqrt(n) exact: gamma = 1 / (2 r sqrt(n))
        lo, hi = 0.0, 2.0
        ref = hi + 0.25 + np.round(np.abs(g.normal(0, 1.5, n)) * 16) / 16      # outside the box: the loss never vanishes
        x0 = np.clip(np.round(g.normal(1.0, 1.0, n) * 16) / 16, lo, hi)
        mode = STOP_MODES[int(g.integers(0, 4))]
        nh = int(g.integers(1, 4))
        eps = float(g.choice([2.0 ** -6, 2.0 ** -12, 2.0 ** -30]))
        max_it = int(g.choice([0, 1, 3, 40, 40]))
        r_ = float(g.choice([1.0, 2.0, 4.0]))
        proj = lambda v: np.clip(v, lo, hi)  # noqa
        opt = L.PGDMO(var_start=x0.copy(), r=r_, eps=eps, mode_stopping_criterion_gradient_descent=mode,
                      num_history_stopping_criterion_gradient_descent=nh, max_iteration_optimization=max_it)
        try:
            with np.errstate(all="ignore"):
                res, _ = L.quiet(L.PGDM(proj).optimize, SimpleQuadraticLossFunction(ref.copy()), None, opt, on_iteration_history=True)
        except Exception as e:  # noqa
            if max_it == 0 and isinstance(e, UnboundLocalError):
                pend.append(("pgdmrun", (n, "max_iteration=0"), "raises",
                             drv.ask("pgdmrun", n, qlist(ref), qlist(x0), q(lo), q(hi), q(1 / (2 * r_ * np.sqrt(n))), q(0.95), q(eps), mode, nh, max_it)))
                ctx.case(("run0m", rep)); ctx.count("whole runs with max_iteration = 0")
                continue
            ctx.disagree("pgdmrun", (n, ref.tolist(), x0.tolist(), r_, eps, mode, nh, max_it), f"{type(e).__name__}: {e}", "a run")
            continue
        gam = 1 / (2 * r_ * np.sqrt(n))
        i = drv.ask("pgdmrun", n, qlist(ref), qlist(x0), q(lo), q(hi), q(gam), q(0.95), q(eps), mode, nh, max_it)
        pend.append(("pgdmrun", (n, ref.tolist(), x0.tolist(), r_, eps, mode, nh, max_it),
                     dict(k=res.k, x=np.array(res.value), errs=[float(e) for e in res.error_values], eps=eps, nh=nh, max_it=max_it,
                          zeta=float(res.zeta[-1])), i))
        ctx.case(("pgdmrun", rep), nontrivial=res.k > 1, sample={"op": "whole run", "algo": "pgdm", "mode": mode, "k": int(res.k)})
        ctx.count(f"whole runs ended by {'limit' if res.k == max_it else 'rule'}")
    # physical projection: all sweeps
    for rep in range(8 if ctx.quick else 32):
        kind = L.KINDS[rep % 4]
        order = ["eq_ineq", "ineq_eq"][(rep // 4) % 2]
        eps = [1e-10, 1e-6, 1e-4][int(g.integers(0, 3))]
        qt, c, m = L.make_qt(g, kind, "1qubit", False, eps_proj_physical=eps)
        si = qt.generate_empty_estimation_obj_with_setting_info()
        si.set_mode_proj_order(order)
        true = L.true_object(g, kind, c, m, "interior")
        v = true.to_stacked_vector() + [0.05, 0.5][int(g.integers(0, 2))] * g.standard_normal(len(true.to_stacked_vector()))
        max_it = int(g.choice([0, 1, 3, 60, 60]))
        try:
            (resx, h), _ = L.quiet(si.calc_proj_physical_with_var, v.copy(), on_para_eq_constraint=False, max_iteration=max_it,
                                   is_iteration_history=True)
        except UnboundLocalError:
            if max_it != 0:
                raise
            pend.append(("dykrun", (kind, order, "max_iteration=0"), "raises",
                         drv.ask("dykrun", len(v), order, q(eps), 0, qlist(v), "-", "-", "-", "-")))
            ctx.case(("dyk0", rep)); ctx.count("whole projections with max_iteration = 0")
            continue
        nst = len(h["x"]) - 1
        first_k = [np.array(h["x"][k]) + np.array(h["p"][k]) for k in range(nst)]
        first_v = [np.array(h["y"][k + 1]) for k in range(nst)]
        second_k = [np.array(h["y"][k + 1]) + np.array(h["q"][k]) for k in range(nst)]
        second_v = [np.array(h["x"][k + 1]) for k in range(nst)]
        eqk, eqv, ink, inv = (first_k, first_v, second_k, second_v) if order == "eq_ineq" else (second_k, second_v, first_k, first_v)
        vs_ = lambda lst: ";".join(qlist(a_) for a_ in lst)  # noqa
        i = drv.ask("dykrun", len(v), order, q(eps), max_it, qlist(v), vs_(eqk), vs_(eqv), vs_(ink), vs_(inv))
        evs = [e for e in h["error_value"] if e is not None]
        pend.append(("dykrun", (kind, order, eps, max_it, nst),
                     dict(x=np.array(resx), stopped=nst < max_it, tight=any(near(e, eps, 0.5, 2.0) for e in evs), atlimit=nst == max_it,
                          last=evs[-1] if evs else None, eps=eps), i))
        ctx.case(("dykrun", rep), nontrivial=nst > 1, sample={"op": "whole projection", "kind": kind, "order": order, "sweeps": nst})
        ctx.count(f"whole projections stopped={'criterion' if nst < max_it else 'limit'}")


def near(a, b, lo=0.1, hi=10.0):
    """is a within a factor [lo,hi] of the threshold b (then rounding may decide the branch: not compared)"""
    return b * lo <= a <= b * hi


def correspondence(ctx):
    drv = Driver(PROP)
    pend = []
    corr_select(ctx, drv, pend)
    corr_ple(ctx, drv, pend)
    corr_dyk(ctx, drv, pend)
    corr_algos(ctx, drv, pend)
    corr_lme(ctx, drv, pend)
    corr_runs(ctx, drv, pend)
    corr_runs2(ctx, drv, pend)
    out = drv.run()
    skipped = 0
    for op, inp, impl, i in pend:
        ctx.corr_ops.add(op)
        rep = out[i]
        if rep == "bad-op":
            ctx.disagree(op, inp, "request", rep); continue
        if op in ("select", "select-kept"):
            if rep not in impl:
                ctx.disagree(op, inp, impl, rep)
        elif op in ("dykrun", "pgdbrun", "fistarun", "pgdmrun") and impl == "raises":
            if rep != "none":
                ctx.disagree(op, inp, "UnboundLocalError (max_iteration = 0)", rep[:200])
        elif op == "dykrun":
            d = impl
            if rep == "none":
                ctx.disagree(op, inp, "a result", rep); continue
            t = rep.split()
            ok = allclose(vec(t[0]), d["x"])
            if not d["tight"]:
                # at the limit the last sweep may or may not also satisfy the criterion: the model reports the criterion then
                if d["atlimit"]:
                    ok = ok and ((t[1] == "true") == (d["last"] is not None and d["last"] < d["eps"] and inp[4] >= 2))
                else:
                    ok = ok and (t[1] == "true") == d["stopped"]
            else:
                skipped += 1
            if not ok:
                ctx.disagree(op, inp, {"x": d["x"].tolist(), "stopped": d["stopped"]}, rep[:300])
        elif op in ("pgdbrun", "fistarun", "pgdmrun"):
            d = impl
            if rep == "none":
                ctx.disagree(op, inp, "a result", rep); continue
            t = rep.split()
            mk, mx, merrs = int(t[0]), vec(t[1]), [float(x_) for x_ in unqlist(t[2])]
            # a window sum within rounding distance of the threshold may decide a stop differently: compare the common prefix only
            wins = [sum(d["errs"][max(0, j + 1 - d["nh"]):j + 1]) for j in range(len(d["errs"]))]
            tight = any(abs(w - d["eps"]) <= 1e-9 * max(1.0, abs(w)) for w in wins)
            m_ = min(mk, d["k"])
            ok = allclose(merrs[:m_], d["errs"][:m_])
            if not tight:
                ok = ok and mk == d["k"] and allclose(mx, d["x"])
                if op == "pgdbrun":
                    mh = [vec(h_) for h_ in t[3].split(";")]
                    ok = ok and len(mh) == len(d["hist"]) and all(allclose(a_, b_) for a_, b_ in zip(mh, d["hist"]))
            else:
                skipped += 1
            if not ok:
                ctx.disagree(op, inp, {"k": d["k"], "x": d["x"].tolist(), "errs": d["errs"]}, rep[:400])
        elif op == "lme":
            t = rep.split()
            if impl[0] == "err":
                ok = t[0] == "err" and t[1] == impl[1]
            else:
                n, time_req = inp[0], inp[1]
                factory = "proj_to_self" if inp[3] == "installed" else "func_calc_proj_physical_with_var"
                mvars = [] if t[1] == "-" else t[1].split(",")
                # model entries are opt:<data set>:<history flag>:<factory of the projection handed to optimize>
                ok = t[0] == "ok" and [":".join(v.split(":")[:2]) for v in mvars] == impl[1] \
                    and [(int(v.split(":")[1]), v.split(":")[2] == "true") for v in mvars] == [tuple(cl) for cl in impl[2]] \
                    and all(v.split(":")[3] == factory for v in mvars) and impl[6] \
                    and (t[2] == "true") == impl[3] and (t[3] == "true") == impl[4] \
                    and (":".join(t[4].split(":")[:2]) if t[4] != "indexerror" else t[4]) == impl[5]
            if not ok:
                ctx.disagree(op, inp, [str(x) for x in impl], rep)
        elif op == "ple":
            qt, seq, ref = impl
            got = eval_plan(rep, qt, seq)
            if len(got) != len(ref) or any(not np.allclose(a, b, rtol=0, atol=1e-12) for a, b in zip(got, ref)):
                ctx.disagree(op, inp, [r.tolist() for r in ref], rep)
        elif op == "dyk":
            p1, q1, ev, stopped, eps, atlimit = impl
            t = rep.split()
            ok = allclose(vec(t[0]), p1) and allclose(vec(t[1]), q1)
            if ev is not None:
                ok = ok and abs(float(unqlist(t[2])[0]) - ev) <= 1e-9 * max(1.0, abs(ev)) + 1e-18
                if not near(ev, eps) and not atlimit:
                    ok = ok and (t[3] == "true") == stopped
                elif near(ev, eps):
                    skipped += 1
            else:
                ok = ok and t[3] == "false"      # k = 0: never stops
            if not ok:
                ctx.disagree(op, inp, [np.asarray(p1).tolist(), np.asarray(q1).tolist(), ev, stopped], rep)
        elif op == "pgdb":
            d = impl
            if rep == "noalpha":
                # exact arithmetic: the direction is not a descent direction (inexact projection near convergence), the
                # sufficient-decrease test fails for every step size; the float loop ends when alpha*y is rounded away
                if float(d["alpha"]) < 1e-6 or np.linalg.norm(d["y"]) < 1e-6:
                    skipped += 1
                else:
                    ctx.disagree(op, inp, f"alpha {d['alpha']}", rep)
                continue
            t = rep.split()
            y, alpha, xn, err, win, doing, margin, fx, arg = vec(t[0]), float(unqlist(t[1])[0]), vec(t[2]), float(unqlist(t[3])[0]), \
                float(unqlist(t[4])[0]), t[5] == "true", float(unqlist(t[6])[0]), float(unqlist(t[7])[0]), vec(t[8])
            ok = allclose(y, d["y"]) and close(fx, d["fx"])
            decided = margin > 1e-9 * max(1.0, abs(fx))
            if decided:
                ok = ok and alpha == float(d["alpha"]) and allclose(xn, d["xn"]) and abs(err - d["err"]) <= 1e-9 * max(1.0, abs(fx))
                if not near(d["window"], d["eps"]) and not d["lim"]:
                    ok = ok and doing == d["cont"]
            else:
                skipped += 1
            # the argument handed to the projection, as the model computes it, projected by the installed projection
            pr, _ = L.quiet(d["fp"], arg.copy())
            ok = ok and np.allclose(pr - np.array(d["x"]), d["y"], rtol=0, atol=2e-6)
            if not ok:
                ctx.disagree(op, inp, {k: (np.asarray(v).tolist() if k in ("y", "xn", "x") else v) for k, v in d.items() if k != "fp"}, rep)
        elif op == "pgdm":
            d = impl
            t = rep.split()
            mom, zeta, magp, arg = vec(t[0]), float(unqlist(t[1])[0]), int(t[2]), vec(t[3])
            pr, _ = L.quiet(d["fp"], arg.copy())
            ok = allclose(mom, d["moment"]) and close(zeta, d["zeta"]) and magp == d["magp"] and \
                np.allclose(pr, d["xn"], rtol=0, atol=2e-6)
            if not ok:
                ctx.disagree(op, inp, {k: (np.asarray(v).tolist() if k in ("moment", "xn") else v) for k, v in d.items() if k != "fp"}, rep)
        elif op == "fista":
            d = impl
            pr, _ = L.quiet(d["fp"], vec(rep).copy())
            if not np.allclose(pr, d["xn"], rtol=0, atol=2e-6):
                ctx.disagree(op, inp, np.asarray(d["xn"]).tolist(), rep)
        elif op == "stop":
            d = impl
            t = rep.split()
            win, doing = float(unqlist(t[0])[0]), t[1] == "true"
            ok = abs(win - d["window"]) <= 1e-9 * max(1.0, abs(d["window"]))
            if not near(abs(d["window"]), d["eps"]) and not d["lim"]:
                ok = ok and doing == d["cont"]
            if not ok:
                ctx.disagree(op, inp, d, rep)
    ctx.notes.append(f"correspondence: {len(pend)} requests, {skipped} comparisons skipped because a threshold was within rounding distance")
