"""Import shim: /repo's object modules do `from scipy.linalg import kron`, which the pinned scipy no
longer provides.  The harness (never /repo) installs numpy.kron under that name before quara is imported."""
import os, sys, warnings
REPO = os.environ.get("QUARA_REPO", "/repo")
if REPO not in sys.path:
    sys.path.insert(0, REPO)
warnings.filterwarnings("ignore")
import numpy as _np
import scipy.linalg as _sl
if not hasattr(_sl, "kron"):
    _sl.kron = _np.kron
os.environ.setdefault("QUARA_VERIF", "1")
