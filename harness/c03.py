"""C03 — optimisation variables <-> objects: translator (index maps -> lean/QGen/C03.lean), correspondence with
QModel.C03, property oracle on the real code."""
import itertools, os
import numpy as np
import shim  # noqa: F401
import common
from common import Driver, q, qlist, ilist, unqlist, allclose
import pytolean

OBJ = "quara/objects/"
TOMO = "quara/protocol/qtomography/standard/"
INDEX_FUNCS = [
    ("state.py", "convert_var_index_to_state_index"), ("state.py", "convert_state_index_to_var_index"),
    ("povm.py", "convert_var_index_to_povm_index"), ("povm.py", "convert_povm_index_to_var_index"),
    ("gate.py", "convert_var_index_to_gate_index"), ("gate.py", "convert_gate_index_to_var_index"),
    ("mprocess.py", "convert_var_index_to_mprocess_index"), ("mprocess.py", "convert_mprocess_index_to_var_index"),
]
NUMVARS = [
    ("standard_qst.py", "StandardQst", {"state.dim": "dim"}, "num_variables_qst", ["dim"]),
    ("standard_povmt.py", "StandardPovmt", {"povm.dim": "dim", "len(vecs)": "m"}, "num_variables_povmt", ["dim", "m"]),
    ("standard_qpt.py", "StandardQpt", {"gate.dim": "dim"}, "num_variables_qpt", ["dim"]),
    ("standard_qmpt.py", "StandardQmpt", {"mprocess.dim": "dim", "num_outcomes": "m"}, "num_variables_qmpt", ["dim", "m"]),
]


FLAG_FALLBACK = ("def {ln} (self_flag : Bool) (on_para_eq_constraint : Option Bool) : Bool :=\n"
                 "  match on_para_eq_constraint with\n  | none => self_flag\n  | some requested => requested\n")


def flag_fragment(f, cls, ln):
    import ast as _ast
    tree = _ast.parse(open(os.path.join(common.REPO, f)).read())
    fn = pytolean.find_def(tree, "generate_from_var", cls)
    asg = [a for a in _ast.walk(fn) if isinstance(a, _ast.Assign) and len(a.targets) == 1 and _ast.unparse(a.targets[0]) == "on_para_eq_constraint"]
    if len(asg) != 1:
        raise pytolean.Untranslatable(f"{f}:{cls}.generate_from_var: expected exactly one assignment of on_para_eq_constraint, found {len(asg)}")
    v = asg[0].value
    ok = (isinstance(v, _ast.IfExp) and _ast.unparse(v.test) == "on_para_eq_constraint is None"
          and _ast.unparse(v.body) == "self.on_para_eq_constraint" and _ast.unparse(v.orelse) == "on_para_eq_constraint")
    if not ok:
        raise pytolean.Untranslatable(f"{f}:{cls}.generate_from_var:{asg[0].lineno}: flag resolution is not "
                                      f"`self.on_para_eq_constraint if on_para_eq_constraint is None else on_para_eq_constraint`: `{_ast.unparse(v)}`")
    uses = [c_ for c_ in _ast.walk(fn) if isinstance(c_, _ast.keyword) and c_.arg == "on_para_eq_constraint"]
    if not uses or any(_ast.unparse(u.value) != "on_para_eq_constraint" for u in uses):
        raise pytolean.Untranslatable(f"{f}:{cls}.generate_from_var: the resolved flag is not what is handed on")
    return (f"/-- {f}:{asg[0].lineno} `{cls}.generate_from_var`: `{_ast.unparse(asg[0])}` -/\n" + FLAG_FALLBACK.format(ln=ln))


def translate(ctx):
    """regenerate lean/QGen/C03.lean from the working tree of common.REPO. A fragment that cannot be translated is reported as a
    broken obligation (returned) and keeps its previous / expected text, so that the file stays complete and the driver still builds."""
    path = os.path.join(common.LEAN, "QGen", "C03.lean")
    problems = []
    parts = ["/-! GENERATED on every run by harness/c03.py:translate (harness/pytolean.py) from the Python sources of quara — do not edit.",
             "Python `int` is `Int`; `//`, `%`, `divmod` are `Int.fdiv` / `Int.fmod` (floor semantics). -/",
             "set_option linter.unusedVariables false", "namespace QGen.C03", ""]

    def frag(name, fn, fallback=None):
        try:
            parts.append(fn())
        except pytolean.Untranslatable as e:
            problems.append(f"translator failed: Untranslatable: {e}")
            old = pytolean.existing_def(path, name) or fallback
            if old is None:
                raise
            parts.append("-- NOT regenerated on the last run (source not translatable): previous / expected definition kept\n" + old)

    for f, n in INDEX_FUNCS:
        frag(n, lambda f=f, n=n: pytolean.translate_function(os.path.join(common.REPO, OBJ, f), n, rel=OBJ + f))
    for f, cls, atoms, ln, ps in NUMVARS:
        frag(ln, lambda f=f, cls=cls, atoms=atoms, ln=ln, ps=ps: pytolean.translate_flag_attr(
            os.path.join(common.REPO, TOMO, f), cls, "__init__", "_num_variables", "on_para_eq_constraint", atoms, ln, ps, rel=TOMO + f))
    for f, cls, ln in ((OBJ + "qoperation.py", "QOperation", "generate_from_var_flag"), (OBJ + "mprocess.py", "MProcess", "generate_from_var_flag_mprocess")):
        frag(ln, lambda f=f, cls=cls, ln=ln: flag_fragment(f, cls, ln), FLAG_FALLBACK.format(ln=ln))
    parts.append("end QGen.C03")
    pytolean.write_if_changed(path, "\n".join(parts) + "\n")
    return problems


# ----------------------------------------------------------------------------- real-code adaptors
import qobj
from quara.objects import state as S, povm as P, gate as G, mprocess as M
from quara.objects.state import State
from quara.objects.povm import Povm
from quara.objects.gate import Gate
from quara.objects.mprocess import MProcess
from quara.objects.qoperations import SetQOperations

TYPES = ("state", "povm", "gate", "mprocess")
SHAPES = {"1qubit": ("qubit", (0,)), "qutrit": ("qutrit", (0,)), "2qubit": ("qubit", (0, 1)),
          "qubit_qutrit": (["qubit", "qutrit"], (0, 1))}      # subsystems of different dimension (d = 6)
BIG = {"qubit_qutrit"}     # large instance: conversions for every configuration, index maps on a sample of the variable indices
_CS = {}


def csys(shape):
    if shape not in _CS:
        _CS[shape] = qobj.csys(*SHAPES[shape])
    return _CS[shape]


def nvars(ty, d, m, flag):
    """closed-form reference (independent of the code and of the model)"""
    return {"state": d * d - (1 if flag else 0), "povm": (m - (1 if flag else 0)) * d * d,
            "gate": d ** 4 - (d * d if flag else 0), "mprocess": m * d ** 4 - (d * d if flag else 0)}[ty]


def nstacked(ty, d, m):
    return {"state": d * d, "povm": m * d * d, "gate": d ** 4, "mprocess": m * d ** 4}[ty]


def make_obj(ty, c, flat, m, flag):
    """object of type ty from its stacked (flat) array; never requires physicality"""
    d = c.dim
    flat = np.asarray(flat, dtype=np.float64)
    kw = dict(is_physicality_required=False, on_para_eq_constraint=flag)
    if ty == "state":
        return State(c, flat.copy(), **kw)
    if ty == "povm":
        return Povm(c, [r.copy() for r in flat.reshape(m, d * d)], **kw)
    if ty == "gate":
        return Gate(c, flat.reshape(d * d, d * d).copy(), **kw)
    return MProcess(c, [h.copy() for h in flat.reshape(m, d * d, d * d)], **kw)


def flat_of(ty, obj_arrays):
    """flatten what convert_var_to_{vec,vecs,hs,hss} returns"""
    if ty in ("state", "gate"):
        return np.asarray(obj_arrays, dtype=np.float64).flatten()
    return np.hstack([np.asarray(a, dtype=np.float64).flatten() for a in obj_arrays])


def var_to_obj(ty, c, var, flag):
    f = {"state": S.convert_var_to_vec, "povm": P.convert_var_to_vecs, "gate": G.convert_var_to_hs,
         "mprocess": M.convert_var_to_hss}[ty]
    return f(c, np.array(var, dtype=np.float64), flag)


def obj_to_var(ty, c, flat, m, flag):
    d = c.dim
    flat = np.asarray(flat, dtype=np.float64)
    if ty == "state":
        return S.convert_vec_to_var(c, flat.copy(), flag)
    if ty == "povm":
        return P.convert_vecs_to_var(c, [r.copy() for r in flat.reshape(m, d * d)], flag)
    if ty == "gate":
        return G.convert_hs_to_var(c, flat.reshape(d * d, d * d).copy(), flag)
    return M.convert_hss_to_var(c, [h.copy() for h in flat.reshape(m, d * d, d * d)], flag)


CLS = {"state": State, "povm": Povm, "gate": Gate, "mprocess": MProcess}


def layouts(ty, flat, d, m):
    """the same object values in other memory layouts: Fortran order, transposed view, strided view"""
    flat = np.asarray(flat, dtype=np.float64)
    n = d * d

    def mat_variants(a2):
        big = np.zeros((2 * a2.shape[0], 2 * a2.shape[1])); big[::2, ::2] = a2
        return [("fortran", np.asfortranarray(a2)), ("transposed-view", np.ascontiguousarray(a2.T).T), ("strided", big[::2, ::2])]

    if ty == "state":
        big = np.zeros(2 * len(flat)); big[::2] = flat
        col = np.asfortranarray(np.tile(flat, (3, 1)))      # row 1 of an F-ordered array: strided
        return [("strided", big[::2]), ("row-of-fortran", col[1])]
    if ty == "povm":
        a2 = flat.reshape(m, n)
        return [(k, [v[i] for i in range(m)]) for k, v in mat_variants(a2)]
    if ty == "gate":
        return mat_variants(flat.reshape(n, n))
    hs = flat.reshape(m, n, n)
    per = [mat_variants(h) for h in hs]
    out = [(per[0][j][0], [per[i][j][1] for i in range(m)]) for j in range(3)]
    a3 = np.asfortranarray(hs)                               # one F-ordered (m, n, n) block, slices along axis 0
    out.append(("slices-of-fortran-3d", [a3[i] for i in range(m)]))
    return out


def obj_to_var_arrays(ty, c, arrs, flag):
    f = {"state": S.convert_vec_to_var, "povm": P.convert_vecs_to_var, "gate": G.convert_hs_to_var, "mprocess": M.convert_hss_to_var}[ty]
    return f(c, arrs, flag)


def make_obj_arrays(ty, c, arrs, flag):
    kw = dict(is_physicality_required=False, on_para_eq_constraint=flag)
    return CLS[ty](c, arrs, **kw)


def var_to_stacked(ty, c, var, flag):
    return CLS[ty].convert_var_to_stacked_vector(c, np.array(var, dtype=np.float64), flag)


def stacked_to_var(ty, c, st, flag):
    return CLS[ty].convert_stacked_vector_to_var(c, np.array(st, dtype=np.float64), flag)


def idx_v2o(ty, c, obj, i, flag):
    """(object index tuple, flat position in the stacked vector)"""
    d = c.dim
    if ty == "state":
        a = S.convert_var_index_to_state_index(i, flag)
        return (a,), a
    if ty == "povm":
        a = P.convert_var_index_to_povm_index(c, list(obj.vecs), i, flag)
        return tuple(a), a[0] * d * d + a[1]
    if ty == "gate":
        a = G.convert_var_index_to_gate_index(c, i, flag)
        return tuple(a), a[0] * d * d + a[1]
    a = M.convert_var_index_to_mprocess_index(c, obj.hss, i, flag)
    return tuple(a), a[0] * d ** 4 + a[1] * d * d + a[2]


def idx_o2v(ty, c, obj, a, flag):
    if ty == "state":
        return S.convert_state_index_to_var_index(a[0], flag)
    if ty == "povm":
        return P.convert_povm_index_to_var_index(c, list(obj.vecs), tuple(a), flag)
    if ty == "gate":
        return G.convert_gate_index_to_var_index(c, tuple(a), flag)
    return M.convert_mprocess_index_to_var_index(c, tuple(a), obj.hss, flag)


def tomo_numvars(ty, shape, m, flag, g):
    from quara.protocol.qtomography.standard.standard_qst import StandardQst
    from quara.protocol.qtomography.standard.standard_povmt import StandardPovmt
    from quara.protocol.qtomography.standard.standard_qpt import StandardQpt
    from quara.protocol.qtomography.standard.standard_qmpt import StandardQmpt
    c = csys(shape)
    key = ("testers", shape)
    if key not in _CS:
        _CS[key] = ([qobj.rand_state(g, c) for _ in range(2)], [qobj.rand_povm(g, c, 2) for _ in range(2)])
    st, pv = _CS[key]
    if ty == "state":
        return StandardQst(pv, on_para_eq_constraint=flag).num_variables
    if ty == "povm":
        return StandardPovmt(st, m, on_para_eq_constraint=flag).num_variables
    if ty == "gate":
        return StandardQpt(st, pv, on_para_eq_constraint=flag).num_variables
    return StandardQmpt(st, pv, m, on_para_eq_constraint=flag).num_variables


def configs(ctx, ms=(2, 3, 4, 5)):
    for shape in SHAPES:
        for ty in TYPES:
            for flag in (True, False):
                for m in (ms if ty in ("povm", "mprocess") else (1,)):
                    yield shape, ty, flag, m


def fl(b):
    return "1" if b else "0"


def attempt(fn):
    try:
        return ("ok", fn())
    except Exception as e:  # noqa
        return ("err", type(e).__name__)


# ----------------------------------------------------------------------------- correspondence
PFX = {"state": "s", "povm": "p", "gate": "g", "mprocess": "m"}


def ask_v2o(drv, ty, c, var, flag):
    d = c.dim
    if ty == "state":
        return drv.ask("s_v2o", fl(flag), q(1 / np.sqrt(d)), qlist(var))
    if ty == "povm":
        return drv.ask("p_v2o", fl(flag), d, q(np.sqrt(d)), qlist(var))
    return drv.ask(PFX[ty] + "_v2o", fl(flag), d, qlist(var))


def ask_o2v(drv, ty, c, flat, m, flag):
    d = c.dim
    if ty == "state":
        return drv.ask("s_o2v", fl(flag), qlist(flat))
    if ty == "povm":
        return drv.ask("p_o2v", fl(flag), m, d * d, qlist(flat))
    if ty == "gate":
        return drv.ask("g_o2v", fl(flag), d * d, d * d, qlist(flat))
    return drv.ask("m_o2v", fl(flag), d, m, d ** 4, qlist(flat))


def ask_v2s(drv, ty, c, var, flag):
    d = c.dim
    if ty == "state":
        return drv.ask("s_v2o", fl(flag), q(1 / np.sqrt(d)), qlist(var))
    if ty == "povm":
        return drv.ask("p_v2s", fl(flag), d, q(np.sqrt(d)), qlist(var))
    return drv.ask(PFX[ty] + "_v2s", fl(flag), d, qlist(var))


def ask_s2v(drv, ty, c, st, flag):
    d = c.dim
    if ty == "state":
        return drv.ask("s_o2v", fl(flag), qlist(st))
    if ty == "povm":
        return drv.ask("p_s2v", fl(flag), d, q(np.sqrt(d)), qlist(st))
    return drv.ask(PFX[ty] + "_s2v", fl(flag), d, qlist(st))


def parse_list(line):
    """'ok a,b,c' / 'ok k flat' / 'err' -> ('ok', floats) | ('err',)"""
    t = line.split()
    if t[0] != "ok":
        return ("err",)
    return ("ok", [float(x) for x in unqlist(t[-1])])


def same_list(impl, model):
    if impl[0] == "err" or model[0] == "err":
        return impl[0] == model[0]
    return allclose(np.asarray(impl[1], dtype=np.float64).flatten(), model[1])


def rand_vals(g, n):
    return qobj.dyadic(g, n, bits=8, scale=1.0)


PARTIAL = [
    "calc_gradient is proved to be the indicator of the entry the generated index points at (all four types) and the exact derivative of "
    "var -> stacked vector is proved for all four types and both flags; with the constraint built in the derivative of POVM / mprocess has an extra "
    "-t term on the implied block (povm_stacked_derivative, mprocess_stacked_derivative) that the library's one-hot gradient does not contain "
    "- an observation, not a C03 clause",
    "generate_from_var_flag_resolution is about a fixed template emitted after the translator matched the source expression: a source edit "
    "breaks the translator (reported as a broken obligation), not the proof",
    "dimension 0 is outside the modelled domain; the value conversions are a hand model tied to the code by the correspondence only "
    "(incl. numpy's clipped negative slice for stacked vectors shorter than one HS)",
]


def correspondence(ctx):
    ctx.partial = list(PARTIAL)
    ctx.notes.append("index maps and num_variables are QGen.C03 definitions regenerated from the Python source on every run; "
                     "dimension-0 systems are outside the modelled domain")
    drv = Driver("C03")
    pend = []   # (op, input description, impl result, request index, comparison kind)
    g = ctx.npgen(1)

    def add(op, inp, impl, i, kind="list"):
        pend.append((op, inp, impl, i, kind))
        ctx.corr_ops.add(op)

    for shape, ty, flag, m in configs(ctx):
        c = csys(shape)
        d = c.dim
        if ctx.quick and d == 4 and ty == "mprocess" and m > 3:
            continue
        if shape in BIG and (m > 3 or (ctx.quick and (m > 2 or ty == "mprocess"))):
            continue
        n, ns = nvars(ty, d, m, flag), nstacked(ty, d, m)
        ctx.count(f"config {ty} flag={flag}")
        ctx.count(f"shape {shape}")
        cfg = (shape, ty, flag, m)
        var = rand_vals(g, n)
        flat = rand_vals(g, ns)      # arbitrary (non-physical, constraint-violating) object
        obj = make_obj(ty, c, flat, m, flag)
        # list-level conversions
        r = attempt(lambda: flat_of(ty, var_to_obj(ty, c, var, flag)))
        add("var->obj", (cfg, var.tolist()), r, ask_v2o(drv, ty, c, var, flag))
        r = attempt(lambda: obj_to_var(ty, c, flat, m, flag))
        add("obj->var", (cfg, flat.tolist()), r, ask_o2v(drv, ty, c, flat, m, flag))
        for lname, arrs in layouts(ty, flat, d, m):
            r = attempt(lambda: obj_to_var_arrays(ty, c, arrs, flag))
            add(f"obj->var/{lname}", (cfg, flat.tolist()), r, ask_o2v(drv, ty, c, flat, m, flag))
        r = attempt(lambda: var_to_stacked(ty, c, var, flag))
        add("var->stacked", (cfg, var.tolist()), r, ask_v2s(drv, ty, c, var, flag))
        r = attempt(lambda: stacked_to_var(ty, c, flat, flag))
        add("stacked->var", (cfg, flat.tolist()), r, ask_s2v(drv, ty, c, flat, flag))
        ctx.case(("conv", cfg, tuple(var)), nontrivial=flag,
                 sample={"op": "var<->obj<->stacked", "type": ty, "shape": shape, "m": m, "flag": flag, "num_var": n})
        # generate_from_var(var, on_para_eq_constraint=requested) on this template: resolved flag and resulting object
        for rf in (None, True, False):
            eff = flag if rf is None else rf
            var_e = var if eff == flag else rand_vals(g, nvars(ty, d, m, eff))
            def gen(rf=rf, var_e=var_e):
                ge = obj.generate_from_var(var_e, is_physicality_required=False, on_para_eq_constraint=rf)
                return ge
            r = attempt(lambda: fl(gen().on_para_eq_constraint))
            add("generate_from_var/flag", (cfg, rf), r[1] if r[0] == "ok" else "err",
                drv.ask("gen_flag", ty, fl(flag), "n" if rf is None else fl(rf)), "text")
            r = attempt(lambda: gen().to_stacked_vector())
            add("generate_from_var/object", (cfg, rf, var_e.tolist()), r, ask_v2o(drv, ty, c, var_e, eff))
            ctx.case(("genfromvar", cfg, rf), nontrivial=rf is not None and rf != flag)
        # stacked vectors shorter than one HS matrix (negative slice bounds in numpy): same result on both sides
        if ty == "mprocess" and flag:
            for L in sorted({0, 1, d * d - 1, d ** 4 - d * d, d ** 4 - d * d + 1, d ** 4 - 1}):
                if 0 <= L < d ** 4:
                    short = rand_vals(g, L)
                    r = attempt(lambda: stacked_to_var(ty, c, short, flag))
                    add("stacked->var/short", (cfg, L), r, ask_s2v(drv, ty, c, short, flag))
                    ctx.case(("short", cfg, L), nontrivial=True)
        # wrong lengths: both sides must reject (or both accept)
        if ty != "state":
            for delta in (1, -1, d * d):
                bad = rand_vals(g, max(0, n + delta))
                r = attempt(lambda: flat_of(ty, var_to_obj(ty, c, bad, flag)))
                add("var->obj/badlen", (cfg, delta), r, ask_v2o(drv, ty, c, bad, flag))
                ctx.count("bad length cases")
                ctx.case(("badlen", cfg, delta), nontrivial=True)
        # num_variables of the tomography class vs generated definition
        nv = tomo_numvars(ty, shape, m, flag, g)
        add("num_variables", cfg, str(nv), drv.ask("numvars", ty, fl(flag), d, m), "text")
        # every variable index: generated index maps and gradient
        size = d * d
        idx_iter = range(n) if shape not in BIG else sorted({0, 1, n - 1, n // 2, *[int(x) for x in g.integers(0, n, size=12)]})
        for i in idx_iter:
            a, pos = idx_v2o(ty, c, obj, i, flag)
            back = idx_o2v(ty, c, obj, a, flag)
            if ty == "state":
                i1 = drv.ask("idx_s_v2o", fl(flag), i)
                i2 = drv.ask("idx_s_o2v", fl(flag), *a)
            elif ty == "gate":
                i1 = drv.ask("idx_g_v2o", fl(flag), d, i)
                i2 = drv.ask("idx_g_o2v", fl(flag), d, *a)
            else:
                i1 = drv.ask(f"idx_{PFX[ty]}_v2o", fl(flag), d, m, size, i)
                i2 = drv.ask(f"idx_{PFX[ty]}_o2v", fl(flag), d, m, size, *a)
            add("index var->obj", (cfg, i), ",".join(str(int(x)) for x in a), i1, "text")
            add("index obj->var", (cfg, list(a)), str(int(back)), i2, "text")
            gr = attempt(lambda: obj.calc_gradient(i).to_stacked_vector())
            add("gradient", (cfg, i), gr, drv.ask("grad", ty, fl(flag), d, m, i))
            ctx.case(("idx", cfg, i), nontrivial=True)
        # one index beyond the range: gradient raises or not, identically
        gr = attempt(lambda: obj.calc_gradient(ns).to_stacked_vector())
        add("gradient/out-of-range", (cfg, ns), gr, drv.ask("grad", ty, fl(flag), d, m, ns))
    # SetQOperations mixes
    nmix = 12 if ctx.quick else 60
    for t in range(nmix):
        sq, objs = rand_set(ctx, g, t)
        sizes = [[len(o.to_var()) for o in objs[ty]] for ty in ("state", "gate", "povm", "mprocess")]
        stxt = [ilist(s) for s in sizes]
        ctx.count(f"mix counts {[len(s) for s in sizes]}")
        tot = sq.size_var_total()
        for mi, ty in enumerate(("state", "gate", "povm", "mprocess")):
            for k in range(len(objs[ty])):
                for j in sorted({0, sizes[mi][k] - 1, int(g.integers(0, max(1, sizes[mi][k])))}):
                    if j < 0:
                        continue
                    r = attempt(lambda: sq.index_var_total_from_local_info(ty, k, j))
                    add("total<-local", (sizes, ty, k, j), r, drv.ask("tot_l2t", *stxt, mi, k, j), "int")
            # index_operations == count is accepted by the code (sums all), count+1 raises
            for k in (len(objs[ty]), len(objs[ty]) + 1):
                r = attempt(lambda: sq.index_var_total_from_local_info(ty, k, 0))
                add("total<-local/edge", (sizes, ty, k, 0), r, drv.ask("tot_l2t", *stxt, mi, k, 0), "int")
        for tt in list(range(tot)) + [tot, tot + 3]:
            r = attempt(lambda: sq.local_info_from_index_var_total(tt))
            if r[0] == "ok":
                li = r[1]
                r = ("ok", f"{('state', 'gate', 'povm', 'mprocess').index(li['mode'])},{li['index_operations']},{li['index_var_local']}")
            add("local<-total", (sizes, tt), r, drv.ask("tot_t2l", *stxt, tt), "txt2")
            ctx.case(("tot", t, tt), nontrivial=True)
        v = rand_vals(g, tot)
        r = attempt(lambda: [o.to_var() for o in all_ops(sq.set_qoperations_from_var_total(v))])
        add("set_from_var_total", (sizes,), r, drv.ask("tot_split", *stxt, qlist(v)), "blocks")
        r = attempt(lambda: [o.to_var() for o in all_ops(sq.set_qoperations_from_var_total(np.append(v, 0.5)))])
        add("set_from_var_total/badlen", (sizes,), r, drv.ask("tot_split", *stxt, qlist(np.append(v, 0.5))), "blocks")
    out = drv.run()
    for op, inp, impl, i, kind in pend:
        line = out[i]
        ok = True
        if line == "bad-op":
            ok = False
        elif kind == "text":
            ok = line == impl
        elif kind == "list":
            ok = same_list(impl, parse_list(line))
        elif kind == "int":
            ok = (impl[0] == "err" and line == "err") or (impl[0] == "ok" and line == f"ok {int(impl[1])}")
        elif kind == "txt2":
            ok = (impl[0] == "err" and line == "err") or (impl[0] == "ok" and line == f"ok {impl[1]}")
        elif kind == "blocks":
            if impl[0] == "err" or line == "err":
                ok = impl[0] == "err" and line == "err"
            else:
                bl = [[float(x) for x in unqlist(b)] for b in line.split()[1].split("|")] if len(line.split()) > 1 else []
                ok = len(bl) == len(impl[1]) and all(allclose(a, b) for a, b in zip(impl[1], bl))
        if not ok:
            ctx.disagree(op, common.jsonable(inp), common.jsonable(impl[1] if isinstance(impl, tuple) and len(impl) > 1 else impl), line)


def all_ops(sq):
    return list(sq.states) + list(sq.gates) + list(sq.povms) + list(sq.mprocesses)


def rand_set(ctx, g, t):
    """a SetQOperations with an arbitrary mix (0..3 of each type, mixed shapes, outcome counts and flags)"""
    objs = {ty: [] for ty in TYPES}
    shapes = [x for x in SHAPES if x not in BIG] if not ctx.quick else ["1qubit", "qutrit", "1qubit", "2qubit"]
    total = 0
    for ty in TYPES:
        cnt = int(g.integers(0, 4)) if t % 4 else int(g.integers(1, 3))
        if t == 1 and ty in ("state", "povm"):
            cnt = 0          # empty groups in the middle of the layout
        for _ in range(cnt):
            shape = shapes[int(g.integers(0, len(shapes)))]
            if ty in ("gate", "mprocess") and shape == "2qubit" and (ctx.quick or total > 1500):
                shape = "1qubit"
            c = csys(shape)
            m = int(g.integers(2, 6)) if ty in ("povm", "mprocess") else 1
            flag = bool(g.integers(0, 2))
            o = make_obj(ty, c, rand_vals(g, nstacked(ty, c.dim, m)), m, flag)
            objs[ty].append(o)
            total += nvars(ty, c.dim, m, flag)
    sq = SetQOperations(states=objs["state"], gates=objs["gate"], povms=objs["povm"], mprocesses=objs["mprocess"])
    return sq, objs


# ----------------------------------------------------------------------------- oracle (property on the real code)
def implied_reference(ty, d, m, flat):
    """the stacked vector with the implied block overwritten by its mathematical definition (numpy, independent)"""
    out = np.array(flat, dtype=np.float64).copy()
    n = d * d
    if ty == "state":
        out[0] = 1 / np.sqrt(d)
    elif ty == "povm":
        v = out.reshape(m, n)
        tot = np.zeros(n); tot[0] = np.sqrt(d)
        v[m - 1] = tot - v[: m - 1].sum(axis=0)
    elif ty == "gate":
        out[:n] = 0.0; out[0] = 1.0
    else:
        h = out.reshape(m, n, n)
        e = np.zeros(n); e[0] = 1.0
        h[m - 1, 0, :] = e - h[: m - 1, 0, :].sum(axis=0)
    return out


def implied_positions(ty, d, m):
    n = d * d
    if ty == "state":
        return [0]
    if ty == "povm":
        return list(range((m - 1) * n, m * n))
    if ty == "gate":
        return list(range(n))
    return list(range((m - 1) * n * n, (m - 1) * n * n + n))


def eq(a, b, tol=1e-12):
    a = np.asarray(a, dtype=np.float64).flatten(); b = np.asarray(b, dtype=np.float64).flatten()
    return a.shape == b.shape and bool(np.all(np.abs(a - b) <= tol * np.maximum(1.0, np.abs(b))))


def check_config(ctx, shape, ty, flag, m, salt, exhaustive=True):
    """all clauses of C03 for one configuration, on the real code; returns nothing, reports via ctx.violate"""
    c = csys(shape)
    d = c.dim
    n, ns = nvars(ty, d, m, flag), nstacked(ty, d, m)
    g = ctx.npgen(("oracle", shape, ty, flag, m, salt))
    sig = f"C03/{ty}/flag={'on' if flag else 'off'}"
    rep = {"kind": "config", "shape": shape, "type": ty, "flag": flag, "m": m, "salt": salt}
    ctx.case(("oracle", shape, ty, flag, m, salt), nontrivial=flag,
             sample={"op": "oracle", "type": ty, "shape": shape, "m": m, "flag": flag})
    try:
        # distinct, non-physical values so that "points at" is unambiguous
        var = (np.arange(n, dtype=np.float64) + 2.0) / 4.0 * np.where(g.random(n) < 0.5, -1.0, 1.0) + rand_vals(g, n) / 1024.0
        flat = rand_vals(g, ns) + 3.0 * (np.arange(ns) % 7 == 0)
        # --- var -> obj -> var
        o_flat = flat_of(ty, var_to_obj(ty, c, var, flag))
        if len(o_flat) != ns:
            ctx.violate(sig + "/var->obj/size", f"{shape} m={m}: object from {n} variables has {len(o_flat)} entries, expected {ns}", rep); return
        back = obj_to_var(ty, c, o_flat, m, flag)
        if not eq(back, var):
            ctx.violate(sig + "/var->obj->var", f"{shape} m={m}: var -> object -> var is not the identity", rep); return
        # the object built from var: free entries are the variables, implied block is its definition
        if flag and not eq(o_flat, implied_reference(ty, d, m, o_flat), 1e-10):
            ctx.violate(sig + "/var->obj/implied", f"{shape} m={m}: implied block of the object built from var is not its definition", rep); return
        # --- obj -> var -> obj
        v2 = obj_to_var(ty, c, flat, m, flag)
        if len(v2) != n:
            ctx.violate(sig + "/num_variables/len(to_var)", f"{shape} m={m}: len(var)={len(v2)}, expected {n}", rep); return
        o2 = flat_of(ty, var_to_obj(ty, c, v2, flag))
        want = implied_reference(ty, d, m, flat) if flag else flat
        if not eq(o2, want, 1e-10):
            ctx.violate(sig + "/obj->var->obj", f"{shape} m={m}: object -> var -> object does not reproduce the object"
                        + (" (free entries + implied block)" if flag else ""), rep); return
        if flag:
            sat = implied_reference(ty, d, m, flat)       # satisfies the built-in constraint
            if not eq(flat_of(ty, var_to_obj(ty, c, obj_to_var(ty, c, sat, m, flag), flag)), sat, 1e-10):
                ctx.violate(sig + "/obj->var->obj/constrained", f"{shape} m={m}: constrained object not reproduced", rep); return
        # --- the same object in other memory layouts (Fortran order, transposed / strided views)
        for lname, arrs in layouts(ty, flat, d, m):
            r4 = dict(rep, layout=lname)
            try:
                va = obj_to_var_arrays(ty, c, arrs, flag)
                ob = make_obj_arrays(ty, c, arrs, flag)
                okl = eq(va, v2) and eq(ob.to_var(), v2) and eq(ob.to_stacked_vector(), flat) and \
                    eq(flat_of(ty, var_to_obj(ty, c, ob.to_var(), flag)), want, 1e-10) and \
                    eq(stacked_to_var(ty, c, ob.to_stacked_vector(), flag), v2)
            except Exception as e:  # noqa
                ctx.violate(sig + f"/layout={lname}/raises", f"{shape} m={m}: {type(e).__name__}: {e}", r4); return
            if not okl:
                ctx.violate(sig + f"/obj->var/layout={lname}", f"{shape} m={m}: object -> var (or stacked vector) depends on the memory layout "
                            f"of the arrays ({lname})", r4); return
        # --- object API: to_var / generate_from_var / to_stacked_vector / stacked conversions
        obj = make_obj(ty, c, flat, m, flag)
        if not eq(obj.to_var(), v2) or not eq(obj.to_stacked_vector(), flat):
            ctx.violate(sig + "/to_var", f"{shape} m={m}: to_var()/to_stacked_vector() differ from the conversion functions", rep); return
        gen = obj.generate_from_var(var, is_physicality_required=False)
        if not eq(gen.to_stacked_vector(), o_flat) or not eq(gen.to_var(), var) or gen.on_para_eq_constraint != flag:
            ctx.violate(sig + "/generate_from_var", f"{shape} m={m}: generate_from_var(var) is not the object of var", rep); return
        # generate_from_var with the parametrisation requested explicitly: template flag x requested (None / True / False)
        for rf in (None, True, False):
            eff = flag if rf is None else rf
            tagf = f"template={'on' if flag else 'off'},requested={'none' if rf is None else ('on' if rf else 'off')}"
            var_e = var if eff == flag else (np.arange(nvars(ty, d, m, eff), dtype=np.float64) + 3.0) / 8.0
            want_e = flat_of(ty, var_to_obj(ty, c, var_e, eff))
            r3 = dict(rep, requested=rf)
            try:
                ge = obj.generate_from_var(var_e, is_physicality_required=False, on_para_eq_constraint=rf)
                ok = (ge.on_para_eq_constraint == eff and eq(ge.to_stacked_vector(), want_e) and eq(ge.to_var(), var_e)
                      and (ty not in ("povm", "mprocess") or len(ge.vecs if ty == "povm" else ge.hss) == m))
            except Exception as e:  # noqa
                ctx.violate(f"C03/{ty}/generate_from_var/{tagf}/raises", f"{shape} m={m}: {type(e).__name__}: {e}", r3); return
            if not ok:
                ctx.violate(f"C03/{ty}/generate_from_var/{tagf}", f"{shape} m={m}: generate_from_var(var, on_para_eq_constraint={rf}) on a template "
                            f"with flag {flag} is not the object of var in the requested parametrisation "
                            f"(flag {ge.on_para_eq_constraint}, {len(ge.to_var())} variables, expected flag {eff}, {len(var_e)})", r3); return
        st = var_to_stacked(ty, c, var, flag)
        if not eq(st, o_flat):
            ctx.violate(sig + "/var->stacked", f"{shape} m={m}: convert_var_to_stacked_vector != stacked(object of var)", rep); return
        if not eq(stacked_to_var(ty, c, st, flag), var) or not eq(stacked_to_var(ty, c, flat, flag), v2):
            ctx.violate(sig + "/stacked->var", f"{shape} m={m}: convert_stacked_vector_to_var inconsistent with to_var", rep); return
        # --- number of variables
        nv = tomo_numvars(ty, shape, m, flag, g)
        nv_np = tomo_numvars(ty, shape, m, np.bool_(flag), g)      # a flag that comes out of a numpy comparison
        if nv_np != nv:
            ctx.violate(sig + "/num_variables/numpy-bool-flag", f"{shape} m={m}: num_variables={nv_np} with on_para_eq_constraint=np.bool_({flag}), "
                        f"{nv} with the python bool", rep); return
        if nv != n or nv != len(obj.to_var()):
            ctx.violate(sig + "/num_variables", f"{shape} m={m}: num_variables={nv}, len(to_var())={len(obj.to_var())}, formula {n}", rep); return
        # --- every variable index
        seen = {}
        jac = []
        idxs = range(n) if exhaustive else sorted({0, n - 1, *[int(x) for x in g.integers(0, n, size=40)]})
        for i in idxs:
            a, pos = idx_v2o(ty, c, gen, i, flag)
            r2 = dict(rep, var_index=i)
            if not (0 <= pos < ns) or any(x < 0 for x in a):
                ctx.violate(sig + "/index/range", f"{shape} m={m}: var index {i} -> object index {a} out of range", r2); return
            if o_flat[pos] != var[i]:
                ctx.violate(sig + "/index/points-at", f"{shape} m={m}: var index {i} -> object index {a}: entry {o_flat[pos]} != var[{i}] {var[i]}", r2); return
            if idx_o2v(ty, c, gen, a, flag) != i:
                ctx.violate(sig + "/index/inverse", f"{shape} m={m}: obj->var index of {a} is {idx_o2v(ty, c, gen, a, flag)}, expected {i}", r2); return
            if pos in seen:
                ctx.violate(sig + "/index/injective", f"{shape} m={m}: var indices {seen[pos]} and {i} point at the same entry", r2); return
            seen[pos] = i
            gobj = gen.calc_gradient(i)
            jac.append((i, pos, gobj))
            gr = gobj.to_stacked_vector()
            hot = np.zeros(ns); hot[pos] = 1.0
            if not eq(gr, hot):
                ctx.violate(sig + "/gradient/one-hot", f"{shape} m={m}: calc_gradient({i}) is not one-hot at the entry of variable {i}", r2); return
        # index conversions with numpy integers (indices produced by np.arange / np.argmax / np.where) are the same maps
        for i, pos, _ in jac:
            for it in (np.int64, np.int32):
                a_np, pos_np = idx_v2o(ty, c, gen, it(i), flag)
                a_py, _ = idx_v2o(ty, c, gen, i, flag)
                back = idx_o2v(ty, c, gen, tuple(it(x) for x in a_py), flag)
                if tuple(int(x) for x in a_np) != tuple(int(x) for x in a_py) or int(pos_np) != pos or int(back) != i:
                    ctx.violate(sig + f"/index/numpy-integer", f"{shape} m={m}: var index {it.__name__}({i}) -> {tuple(int(x) for x in a_np)}, "
                                f"python int {i} -> {tuple(int(x) for x in a_py)}; back {int(back)}", dict(rep, var_index=i, int_type=it.__name__)); return
        # the gradients as a caller holds them (all alive at once, a Jacobian): each is still the one-hot of its variable
        for i, pos, gobj in jac:
            hot = np.zeros(ns); hot[pos] = 1.0
            if not eq(gobj.to_stacked_vector(), hot):
                ctx.violate(sig + "/gradient/one-hot/held-together", f"{shape} m={m}: calc_gradient({i}) is no longer one-hot at the entry of "
                            f"variable {i} after the gradients of the other variables were computed", dict(rep, var_index=i)); return
        # to_var follows the object: after set_zero() the variables are those of the zero object
        ob2 = make_obj(ty, c, flat, m, flag)
        v_before = np.array(ob2.to_var(), dtype=np.float64).copy()
        ob2.set_zero()
        v_after = np.asarray(ob2.to_var(), dtype=np.float64)
        if not eq(v_before, v2) or v_after.shape != (n,) or np.abs(v_after).max(initial=0.0) != 0 or np.abs(ob2.to_stacked_vector()).max() != 0:
            ctx.violate(sig + "/to_var/after-set_zero", f"{shape} m={m}: to_var() after to_var(); set_zero() is not the variable vector of the zeroed object", rep); return
        if exhaustive and flag and sorted(set(range(ns)) - set(seen)) != implied_positions(ty, d, m):
            ctx.violate(sig + "/index/onto", f"{shape} m={m}: entries not hit by a variable are not exactly the implied block", rep); return
        if exhaustive and not flag and len(seen) != ns:
            ctx.violate(sig + "/index/onto", f"{shape} m={m}: index map is not onto the object entries", rep); return
    except Exception as e:  # noqa
        ctx.violate(sig + "/raises", f"{shape} m={m}: {type(e).__name__}: {e}", rep)


def check_config_loosened(ctx, shape, ty, m):
    """the conversions do not depend on the global tolerance setting: with Settings.set_atol(1e-6) an object whose implied
    block has small (1e-7) but non-zero entries is still reproduced from its variables"""
    from quara.settings import Settings
    c = csys(shape)
    d = c.dim
    n = d * d
    g = ctx.npgen(("loosened", shape, ty, m))
    ns = nstacked(ty, d, m)
    flat = rand_vals(g, ns)
    small = 1e-7 * (1.0 + np.abs(rand_vals(g, n)))
    # make the object satisfy the built-in constraint with the implied block equal to `small`
    if ty == "state":
        return
    if ty == "povm":
        v = flat.reshape(m, n); tot = np.zeros(n); tot[0] = np.sqrt(d)
        v[0] = tot - small - v[1: m - 1].sum(axis=0); v[m - 1] = tot - v[: m - 1].sum(axis=0)
        flat = v.flatten()
    elif ty == "gate":
        return
    else:
        h = flat.reshape(m, n, n); e = np.zeros(n); e[0] = 1.0
        h[0, 0, :] = e - small - h[1: m - 1, 0, :].sum(axis=0); h[m - 1, 0, :] = e - h[: m - 1, 0, :].sum(axis=0)
        flat = h.flatten()
    rep = {"kind": "loosened", "shape": shape, "type": ty, "m": m}
    ctx.case(("loosened", shape, ty, m), nontrivial=True)
    old = Settings.get_atol()
    try:
        Settings.set_atol(1e-6)
        var = obj_to_var(ty, c, flat, m, True)
        back = flat_of(ty, var_to_obj(ty, c, var, True))
        st = var_to_stacked(ty, c, var, True)
        gen = make_obj(ty, c, flat, m, True).generate_from_var(var, is_physicality_required=False).to_stacked_vector()
    except Exception as e:  # noqa
        ctx.violate(f"C03/{ty}/flag=on/settings-atol=1e-6/raises", f"{shape} m={m}: {type(e).__name__}: {e}", rep); return
    finally:
        Settings.set_atol(old)
    ref = implied_reference(ty, d, m, flat)
    if not (eq(back, ref) and eq(st, ref) and eq(gen, ref)):
        bad = float(np.abs(np.asarray(back) - ref).max())
        ctx.violate(f"C03/{ty}/flag=on/settings-atol=1e-6/obj->var->obj", f"{shape} m={m}: with Settings.set_atol(1e-6) the object rebuilt from its "
                    f"variables differs from the object by {bad:.3g} (implied block entries of size 1e-7)", rep)


def _mix_index_checks(ctx, sq, sig, rep):
    """var_total / total<->local bijection / points-at / set_from_var_total of one SetQOperations as it is now"""
    order = ("state", "gate", "povm", "mprocess")
    cur = {"state": sq.states, "gate": sq.gates, "povm": sq.povms, "mprocess": sq.mprocesses}
    blocks = [o.to_var() for ty in order for o in cur[ty]]
    ref = np.hstack(blocks) if blocks else np.array([])
    vt = sq.var_total()
    if not eq(vt, ref) or sq.size_var_total() != len(ref):
        ctx.violate(sig + "/var_total", "var_total is not the concatenation states, gates, povms, mprocesses", rep); return False
    # distinct values through the whole set, so that positions are identifiable
    v = (np.arange(len(ref), dtype=np.float64) + 1.0) / 8.0
    new = sq.set_qoperations_from_var_total(v)
    if not eq(new.var_total(), v):
        ctx.violate(sig + "/set_from_var_total", "var_total(set_qoperations_from_var_total(v)) != v", rep); return False
    newobjs = {"state": new.states, "gate": new.gates, "povm": new.povms, "mprocess": new.mprocesses}
    seen = set()
    for ty in order:
        for k, o in enumerate(newobjs[ty]):
            lv = o.to_var()
            for j in range(len(lv)):
                tt = sq.index_var_total_from_local_info(ty, k, j)
                if not (0 <= tt < len(v)) or v[tt] != lv[j]:
                    ctx.violate(sig + "/total<-local/points-at", f"({ty},{k},{j}) -> {tt} does not hold that variable", dict(rep, local=[ty, k, j])); return False
                li = sq.local_info_from_index_var_total(tt)
                if (li["mode"], li["index_operations"], li["index_var_local"]) != (ty, k, j):
                    ctx.violate(sig + "/local<-total/inverse", f"total {tt} -> {li}, expected ({ty},{k},{j})", dict(rep, local=[ty, k, j])); return False
                seen.add(tt)
    if seen != set(range(len(v))):
        ctx.violate(sig + "/total<-local/onto", "local -> total is not onto range(size_var_total)", rep); return False
    return True


def check_mix(ctx, t, salt):
    g = ctx.npgen(("mix", t, salt))
    rep = {"kind": "mix", "t": t, "salt": salt, "tier": ctx.tier}
    sig = "C03/SetQOperations"
    try:
        sq, objs = rand_set(ctx, g, t)
        ctx.case(("mix", t, salt), nontrivial=True, sample={"op": "SetQOperations", "counts": [len(objs[ty]) for ty in TYPES]})
        if not _mix_index_checks(ctx, sq, sig, rep):
            return
        # the same set object after its lists were edited in place (element replaced by one with the other flag, element appended):
        # the index conversions are those of the set as it is now
        c1 = csys("1qubit")
        if sq.states:
            f0 = sq.states[0].on_para_eq_constraint
            sq.states[0] = make_obj("state", sq.states[0].composite_system,
                                    rand_vals(g, nstacked("state", sq.states[0].dim, 1)), 1, not f0)
        else:
            sq.states.append(make_obj("state", c1, rand_vals(g, 4), 1, True))
        sq.povms.append(make_obj("povm", c1, rand_vals(g, nstacked("povm", 2, 4)), 4, bool(t % 2)))
        sq.gates.append(make_obj("gate", c1, rand_vals(g, 16), 1, bool((t + 1) % 2)))
        _mix_index_checks(ctx, sq, sig + "/after-in-place-edit", dict(rep, sequence="index conversions; in-place list edits; index conversions"))
    except Exception as e:  # noqa
        ctx.violate(sig + "/raises", f"{type(e).__name__}: {e}", rep)


def oracle(ctx, volume=1):
    for salt in range(volume):
        for shape, ty, flag, m in configs(ctx):
            d = csys(shape).dim
            big = d == 4 and ty == "mprocess"
            if ctx.quick and volume == 1 and big and m > 3:
                continue
            if shape in BIG:
                if m > 3 or (ctx.quick and (m > 2 or (ty == "mprocess" and not flag))):
                    continue
                check_config(ctx, shape, ty, flag, m, salt, exhaustive=False)
                ctx.count(f"oracle {ty} flag={flag}")
                continue
            check_config(ctx, shape, ty, flag, m, salt, exhaustive=not (ctx.quick and big and salt > 0))
            ctx.count(f"oracle {ty} flag={flag}")
    for shape in ("1qubit", "qutrit"):
        for ty in ("povm", "mprocess"):
            for m in (2, 3):
                check_config_loosened(ctx, shape, ty, m)
    for t in range((10 if ctx.quick else 50) * volume):
        check_mix(ctx, t, 0)


def search(ctx):
    oracle(ctx, volume=2)
    # the configurations on which model and implementation disagreed
    for dgr in ctx.disagreements[:40]:
        inp = dgr["input"]
        cfg = inp[0] if isinstance(inp, (list, tuple)) and inp and isinstance(inp[0], (list, tuple)) and len(inp[0]) == 4 else None
        if cfg and cfg[0] in SHAPES:
            check_config(ctx, cfg[0], cfg[1], bool(cfg[2]), int(cfg[3]), 99)


def replay(ctx, data):
    r = data["replay"]
    print("replaying", r)
    before = len(ctx.violations)
    if r["kind"] == "config":
        check_config(ctx, r["shape"], r["type"], bool(r["flag"]), int(r["m"]), r["salt"])
    elif r["kind"] == "loosened":
        check_config_loosened(ctx, r["shape"], r["type"], int(r["m"]))
    else:
        ctx.tier = r.get("tier", ctx.tier); ctx.quick = ctx.tier == "quick"
        check_mix(ctx, r["t"], r["salt"])
    for v in ctx.violations[before:]:
        print("  still fails:", v["signature"], "-", v["what"])
    if len(ctx.violations) == before:
        print("  property holds on this input now")
    return 1 if len(ctx.violations) > before else 0
