"""C17 — every catalogued object is physical and self-consistent.

oracle(): complete enumeration of the catalogues of typical states / POVMs / gates / measurement processes /
state ensembles / effective Lindbladians (2-qutrit gate + Lindbladian names sampled in the quick tier), every
object_name form, every qubit-id permutation; each entry is checked on the real code against independent numpy
references written from the textbook definitions in this file (never by calling the same quara function twice).
cert_items(): matrices for the Lean certificate checkers (correspondence is filled in by the property owner)."""
import ctypes
from fractions import Fraction
import itertools
import math
import multiprocessing
import os
import re
import time

import numpy as np
import shim  # noqa: F401
import scipy.linalg as sla
from common import Driver, q, qlist  # noqa: F401

from quara.objects import state_typical as ST
from quara.objects import povm_typical as PT
from quara.objects import gate_typical as GT
from quara.objects import mprocess_typical as MT
from quara.objects import state_ensemble_typical as ET
from quara.objects import effective_lindbladian_typical as LT
from quara.objects import qoperation_typical as QT
from quara.objects import tester_typical as TT
from quara.objects import matrix_basis as MB
from quara.objects import gate as GATE
from quara.objects import state as STATE
from quara.objects import povm as POVM
from quara.objects.composite_system_typical import generate_composite_system
from quara.objects.operators import compose_qoperations

TOL = 1e-9
VERBOSE = False


# ----------------------------------------------------------------------------- BLAS threads
def _blas_single_thread():
    """OpenBLAS with 16 threads makes every 81x81 SVD/eig ~50x slower (and the worker pool oversubscribes);
    same effect as threadpoolctl.threadpool_limits(1), which is not installed."""
    done = []
    libs = set()
    try:
        for line in open("/proc/self/maps"):
            m = re.search(r"(/\S*openblas\S*\.so\S*)", line)
            if m:
                libs.add(m.group(1))
    except OSError:
        return done
    for p in sorted(libs):
        try:
            lib = ctypes.CDLL(p)
        except OSError:
            continue
        for sym in ("scipy_openblas_set_num_threads64_", "openblas_set_num_threads64_",
                    "scipy_openblas_set_num_threads", "openblas_set_num_threads"):
            f = getattr(lib, sym, None)
            if f is not None:
                f(ctypes.c_int(1))
                done.append(sym)
                break
    return done


# ----------------------------------------------------------------------------- textbook references
S2 = 1 / math.sqrt(2)
I2 = np.eye(2, dtype=complex)
PX = np.array([[0, 1], [1, 0]], dtype=complex)
PY = np.array([[0, -1j], [1j, 0]], dtype=complex)
PZ = np.array([[1, 0], [0, -1]], dtype=complex)
PAULI = [I2, PX, PY, PZ]
AXIS = {"x": PX, "y": PY, "z": PZ}


def _unit(d, i):
    v = np.zeros(d, dtype=complex)
    v[i] = 1
    return v


def _two_level(d, a, b, m2):
    """2x2 matrix m2 embedded on levels (a, b) of a d-level system (zero elsewhere)"""
    out = np.zeros((d, d), dtype=complex)
    for r, i in enumerate((a, b)):
        for c, j in enumerate((a, b)):
            out[i, j] = m2[r, c]
    return out


# Gell-Mann matrices (textbook order lambda_1..lambda_8), tr(l_a l_b) = 2 delta_ab
GELL_MANN = [
    _two_level(3, 0, 1, PX), _two_level(3, 0, 1, PY), _two_level(3, 0, 1, PZ),
    _two_level(3, 0, 2, PX), _two_level(3, 0, 2, PY),
    _two_level(3, 1, 2, PX), _two_level(3, 1, 2, PY),
    np.diag([1, 1, -2]).astype(complex) / math.sqrt(3),
]
GM9 = [math.sqrt(2 / 3) * np.eye(3, dtype=complex)] + GELL_MANN

SYSTEMS = {
    "1qubit": ("qubit", 1, [2]),
    "2qubit": ("qubit", 2, [2, 2]),
    "3qubit": ("qubit", 3, [2, 2, 2]),
    "1qutrit": ("qutrit", 1, [3]),
    "2qutrit": ("qutrit", 2, [3, 3]),
}
HEAVY = {"3qubit", "2qutrit"}


def kron_all(ms):
    out = ms[0]
    for m in ms[1:]:
        out = np.kron(out, m)
    return out


_REF_BASIS = {}
_CSYS = {}


def ref_basis(system):
    """orthonormal Hermitian basis (normalised Pauli / Gell-Mann, tensor products with the first system slowest),
    as an array B[alpha, i, j]; written here independently of quara.objects.matrix_basis"""
    if system not in _REF_BASIS:
        mode, n, _ = SYSTEMS[system]
        b1 = [m * S2 for m in (PAULI if mode == "qubit" else GM9)]
        _REF_BASIS[system] = np.array([kron_all(list(t)) for t in itertools.product(b1, repeat=n)])
    return _REF_BASIS[system]


def csys(system):
    if system not in _CSYS:
        mode, n, _ = SYSTEMS[system]
        _CSYS[system] = generate_composite_system(mode, n)
    return _CSYS[system]


def dense(x):
    if hasattr(x, "toarray"):
        x = x.toarray()
    return np.asarray(x)


def vec_of(B, M):
    """coefficients tr(B_a^dagger M)"""
    return np.einsum("aij,ij->a", B.conj(), np.asarray(M))


def mat_of(B, v):
    return np.einsum("a,aij->ij", np.asarray(v), B)


def proj(v):
    v = np.asarray(v, dtype=complex)
    return np.outer(v, v.conj())


def hs_of_kraus(B, ks):
    """hs_ab = sum_k tr(B_a^dagger K B_b K^dagger)"""
    n = B.shape[0]
    hs = np.zeros((n, n), dtype=complex)
    for k in ks:
        k = np.asarray(k, dtype=complex)
        x = np.einsum("ij,bjk,lk->bil", k, B, k.conj())
        hs += np.einsum("aij,bij->ab", B.conj(), x)
    return hs


def hs_of_unitary(B, u):
    return hs_of_kraus(B, [u])


def lind_of_h(B, h):
    """L_ab = tr(B_a^dagger (-i)[H, B_b])"""
    x = -1j * (np.einsum("ij,bjk->bik", h, B) - np.einsum("bij,jk->bik", B, h))
    return np.einsum("aij,bij->ab", B.conj(), x)


def choi_of_hs(B, hs):
    """Choi matrix sum_ab hs_ab B_a (x) conj(B_b)  (= sum_ij E(|i><j|) (x) |i><j|)"""
    n, d, _ = B.shape
    bm = B.reshape(n, d * d)
    m = bm.T @ np.asarray(hs, dtype=complex) @ bm.conj()          # [(i j), (k l)]
    return m.reshape(d, d, d, d).transpose(0, 2, 1, 3).reshape(d * d, d * d)


def min_eig(M):
    M = np.asarray(M, dtype=complex)
    return float(np.linalg.eigvalsh((M + M.conj().T) / 2).min())


def herm_dev(M):
    M = np.asarray(M, dtype=complex)
    return float(np.abs(M - M.conj().T).max()) if M.size else 0.0


def phase_dev(u, ref):
    """max |u - e^{i phi} ref| over the best global phase"""
    u = np.asarray(u, dtype=complex)
    ref = np.asarray(ref, dtype=complex)
    if u.shape != ref.shape:
        return float("inf")
    ov = np.vdot(ref, u)
    if abs(ov) < 1e-12:
        return float(np.abs(u).max() + np.abs(ref).max())
    return float(np.abs(u - ov / abs(ov) * ref).max())


# --- named states
Q1 = {
    "x0": S2 * np.array([1, 1], dtype=complex), "x1": S2 * np.array([1, -1], dtype=complex),
    "y0": S2 * np.array([1, 1j], dtype=complex), "y1": S2 * np.array([1, -1j], dtype=complex),
    "z0": np.array([1, 0], dtype=complex), "z1": np.array([0, 1], dtype=complex),
    "a": S2 * np.array([1, np.exp(1j * math.pi / 4)], dtype=complex),
}


def _basis_state(dims, idx):
    return kron_all([_unit(d, i) for d, i in zip(dims, idx)])


SPECIAL_STATES = {
    "bell_phi_plus": S2 * (_basis_state([2, 2], [0, 0]) + _basis_state([2, 2], [1, 1])),
    "bell_phi_minus": S2 * (_basis_state([2, 2], [0, 0]) - _basis_state([2, 2], [1, 1])),
    "bell_psi_plus": S2 * (_basis_state([2, 2], [0, 1]) + _basis_state([2, 2], [1, 0])),
    "bell_psi_minus": S2 * (_basis_state([2, 2], [0, 1]) - _basis_state([2, 2], [1, 0])),
    "ghz": S2 * (_basis_state([2] * 3, [0, 0, 0]) + _basis_state([2] * 3, [1, 1, 1])),
    # the catalogue calls the W state "werner"
    "werner": (_basis_state([2] * 3, [0, 0, 1]) + _basis_state([2] * 3, [0, 1, 0]) + _basis_state([2] * 3, [1, 0, 0]))
    / math.sqrt(3),
    "0_1_2_superposition": np.ones(3, dtype=complex) / math.sqrt(3),
    "00_11_22_superposition": sum(_basis_state([3, 3], [i, i]) for i in range(3)) / math.sqrt(3),
}
SPECIAL_SYSTEM = {"bell_phi_plus": "2qubit", "bell_phi_minus": "2qubit", "bell_psi_plus": "2qubit",
                  "bell_psi_minus": "2qubit", "ghz": "3qubit", "werner": "3qubit",
                  "0_1_2_superposition": "1qutrit", "00_11_22_superposition": "2qutrit"}


def ref_state_1(name):
    """single-system named pure state -> (vector, 'qubit'|'qutrit')"""
    if name in Q1:
        return Q1[name], "qubit"
    m = re.fullmatch(r"(01|12|02)([xyz])([01])", name)
    if not m:
        raise KeyError(name)
    a, b = int(m.group(1)[0]), int(m.group(1)[1])
    q = Q1[m.group(2) + m.group(3)]
    v = np.zeros(3, dtype=complex)
    v[a], v[b] = q[0], q[1]
    return v, "qutrit"


def ref_state(name, system):
    """textbook pure-state vector of a catalogue name on `system`; KeyError if the name has no textbook meaning there"""
    mode, n, _ = SYSTEMS[system]
    if name in SPECIAL_STATES:
        if SPECIAL_SYSTEM[name] != system:
            raise KeyError(name)
        return SPECIAL_STATES[name]
    parts = name.split("_")
    if len(parts) != n:
        raise KeyError(name)
    vs = []
    for p in parts:
        v, md = ref_state_1(p)
        if md != mode:
            raise KeyError(name)
        vs.append(v)
    return kron_all(vs)


# --- named POVMs
def _ref_povm_single(name):
    """-> (list of matrices, list of pure-state vectors or None, mode)"""
    if name in ("x", "y", "z"):
        vs = [Q1[name + "0"], Q1[name + "1"]]
        return [proj(v) for v in vs], vs, "qubit", 1
    if name == "bell":
        vs = [SPECIAL_STATES[k] for k in ("bell_phi_plus", "bell_phi_minus", "bell_psi_plus", "bell_psi_minus")]
        return [proj(v) for v in vs], vs, "qubit", 2
    if name == "z3":
        vs = [_unit(3, i) for i in range(3)]
        return [proj(v) for v in vs], vs, "qutrit", 1
    if name == "z2":
        return [proj(_unit(3, 0)), proj(_unit(3, 1)) + proj(_unit(3, 2))], None, "qutrit", 1
    m = re.fullmatch(r"(01|12|02)([xy])3", name)
    if not m:
        raise KeyError(name)
    lv = m.group(1)
    rest = ({0, 1, 2} - {int(lv[0]), int(lv[1])}).pop()
    vs = [ref_state_1(lv + m.group(2) + "0")[0], ref_state_1(lv + m.group(2) + "1")[0], _unit(3, rest)]
    return [proj(v) for v in vs], vs, "qutrit", 1


def ref_povm(name, system):
    mode, n, _ = SYSTEMS[system]
    mats, vecs, cnt = [np.eye(1, dtype=complex)], [np.ones(1, dtype=complex)], 0
    for p in name.split("_"):
        ms, vs, md, k = _ref_povm_single(p)
        if md != mode:
            raise KeyError(name)
        cnt += k
        mats = [np.kron(a, b) for a, b in itertools.product(mats, ms)]
        vecs = None if (vecs is None or vs is None) else [np.kron(a, b) for a, b in itertools.product(vecs, vs)]
    if cnt != n:
        raise KeyError(name)
    return mats, vecs


# --- named measurement processes: outcome -> list of Kraus operators
def ref_mprocess(name):
    """-> (system, [[K...] per outcome], set of pure-state vectors or None)"""
    m = re.fullmatch(r"([a-z0-9]+)-type([12])", name)
    if not m:
        raise KeyError(name)
    base, typ = m.group(1), int(m.group(2))
    if base in ("xxparity", "zzparity") and typ == 1:
        p = np.kron(AXIS[base[0]], AXIS[base[0]])
        return "2qubit", [[(np.eye(4) + p) / 2], [(np.eye(4) - p) / 2]], None
    groups = None
    if base in ("x", "y", "z"):
        system, groups = "1qubit", [[Q1[base + "0"]], [Q1[base + "1"]]]
    elif base == "bell" and typ == 1:
        system = "2qubit"
        groups = [[SPECIAL_STATES[k]] for k in ("bell_phi_plus", "bell_phi_minus", "bell_psi_plus", "bell_psi_minus")]
    elif base == "z3":
        system, groups = "1qutrit", [[_unit(3, 0)], [_unit(3, 1)], [_unit(3, 2)]]
    elif base == "z2":
        system, groups = "1qutrit", [[_unit(3, 0)], [_unit(3, 1), _unit(3, 2)]]
    if groups is None:
        raise KeyError(name)
    if typ == 1:      # projective (Lueders) measurement: K = |v><v|
        return system, [[proj(v) for v in g] for g in groups], groups
    v0 = groups[0][0]  # type 2: the post-measurement state is always the first vector: K = |v0><v|
    return system, [[np.outer(v0, v.conj()) for v in g] for g in groups], None


# --- named gates
def _perm_unitary(n, f):
    d = 2 ** n
    u = np.zeros((d, d), dtype=complex)
    for b in range(d):
        bits = [(b >> (n - 1 - k)) & 1 for k in range(n)]
        out = f(list(bits))
        u[sum(bit << (n - 1 - k) for k, bit in enumerate(out)), b] = 1
    return u


def _op_on(n, ops):
    return kron_all([ops.get(k, I2) for k in range(n)])


def _rot(sigma, theta):
    """exp(-i theta/2 sigma) for sigma^3 = sigma (sigma^2 = projector P): (1-P) + cos P - i sin sigma"""
    p = sigma @ sigma
    return np.eye(sigma.shape[0], dtype=complex) - p + math.cos(theta / 2) * p - 1j * math.sin(theta / 2) * sigma


ANGLE = {"90": math.pi / 2, "180": math.pi}
_QT1 = r"(i|01[xyz]|12[xyz]|02[xyz])"


def _qutrit_base(tok):
    if tok == "i":
        return np.eye(3, dtype=complex)
    return _two_level(3, int(tok[0]), int(tok[1]), AXIS[tok[2]])


def ref_hamiltonian_2qutrit(name):
    h = np.zeros((9, 9), dtype=complex)
    terms = []
    for part in name.split("_"):
        m = re.fullmatch(_QT1 + _QT1 + r"(90|180)", part)
        if not m or (m.group(1) == "i" and m.group(2) == "i"):
            raise KeyError(name)
        s = np.kron(_qutrit_base(m.group(1)), _qutrit_base(m.group(2)))
        terms.append((s, ANGLE[m.group(3)]))
        h = h + ANGLE[m.group(3)] / 2 * s
    if len(terms) > 2 or (len(terms) == 2 and name.split("_")[0] == name.split("_")[1]):
        raise KeyError(name)
    return h, terms


def ref_unitary(name, system, ids):
    """textbook unitary of a catalogue gate name (rotations are exp(-i theta/2 sigma)); ids = [control.., target..]
    are positions of the elemental systems (the composite systems used here are named 0..n-1 in order)"""
    mode, n, dims = SYSTEMS[system]
    d = int(np.prod(dims))
    if name == "identity":
        return np.eye(d, dtype=complex)
    if system == "1qubit":
        m = re.fullmatch(r"([xyz])(90|180)", name)
        if m:
            return _rot(AXIS[m.group(1)], ANGLE[m.group(2)])
        if name in AXIS:
            return AXIS[name]
        table = {
            "zm90": _rot(PZ, -math.pi / 2),
            "phase": np.diag([1, 1j]).astype(complex), "phase_daggered": np.diag([1, -1j]).astype(complex),
            "piover8": np.diag([1, np.exp(1j * math.pi / 4)]), "piover8_daggered": np.diag([1, np.exp(-1j * math.pi / 4)]),
            "hadamard": S2 * np.array([[1, 1], [1, -1]], dtype=complex),
        }
        return table[name]
    if system == "2qubit":
        c, t = ids
        if name == "cx":
            def f(b):
                b[t] ^= b[c]
                return b
            return _perm_unitary(2, f)
        if name == "cz":
            return np.diag([1, 1, 1, -1]).astype(complex)
        if name == "swap":
            return _perm_unitary(2, lambda b: [b[1], b[0]])
        if name == "zx90":
            return _rot(_op_on(2, {c: PZ, t: PX}), math.pi / 2)
        if name == "zz90":
            return _rot(np.kron(PZ, PZ), math.pi / 2)
        raise KeyError(name)
    if system == "3qubit":
        if name == "toffoli":       # ids[0], ids[1] control, ids[2] target
            def f(b):
                b[ids[2]] ^= b[ids[0]] & b[ids[1]]
                return b
            return _perm_unitary(3, f)
        if name == "fredkin":       # ids[0] control, ids[1] <-> ids[2] swapped
            def f(b):
                if b[ids[0]]:
                    b[ids[1]], b[ids[2]] = b[ids[2]], b[ids[1]]
                return b
            return _perm_unitary(3, f)
        raise KeyError(name)
    if system == "1qutrit":
        m = re.fullmatch(r"(01|12|02)([xyz])(90|180)", name)
        if not m:
            raise KeyError(name)
        return _rot(_two_level(3, int(m.group(1)[0]), int(m.group(1)[1]), AXIS[m.group(2)]), ANGLE[m.group(3)])
    if system == "2qutrit":
        h, terms = ref_hamiltonian_2qutrit(name)
        if len(terms) == 1:
            return _rot(terms[0][0], terms[0][1])
        return sla.expm(-1j * h)
    raise KeyError(name)


def ids_class(system, ids):
    if ids is None or system not in ("2qubit", "3qubit"):
        return ""
    ids = list(ids)
    if ids == sorted(ids):
        return "/ids-ascending"
    if system == "2qubit":
        return "/ids-swapped"
    inv = [ids.index(k) for k in range(3)]
    return "/ids-transposition" if inv == ids else "/ids-cyclic"


# ----------------------------------------------------------------------------- recording
def _short(a, k=6):
    a = np.asarray(a)
    with np.printoptions(precision=6, suppress=True, linewidth=160, threshold=80, edgeitems=k):
        return str(a)


class Rec:
    """collects the failed checks of one catalogue entry: dicts {check, form, msg}"""

    def __init__(self):
        self.fails = []

    def fail(self, check, form, msg):
        self.fails.append({"check": check, "form": form, "msg": msg})
        if VERBOSE:
            print(f"   FAIL [{check}] form={form}: {msg}")

    def call(self, form, fn, *a, **k):
        """real-code call; an exception is a violation (`generator-missing` when the name-to-function eval fails)"""
        try:
            return fn(*a, **k)
        except Exception as e:  # noqa
            kind = "generator-missing" if isinstance(e, NameError) else "raises"
            self.fail(kind, form, f"{type(e).__name__}: {str(e)[:160]}")
            return None

    def same(self, check, form, impl, ref, tol=TOL, what=""):
        if impl is None or ref is None:
            return False
        try:
            a = np.asarray(dense(impl), dtype=complex)
            b = np.asarray(dense(ref), dtype=complex)
        except Exception as e:  # noqa
            self.fail(check, form, f"{what}: not an array ({type(e).__name__})")
            return False
        if a.shape != b.shape:
            self.fail(check, form, f"{what}: shape {a.shape} vs reference {b.shape}")
            return False
        dev = float(np.abs(a - b).max()) if a.size else 0.0
        if VERBOSE:
            print(f"   [{check}] form={form} {what}: max|impl-ref| = {dev:.3e}")
            if not dev <= tol:
                print("   implementation:\n" + _short(a) + "\n   reference:\n" + _short(b))
        if not dev <= tol:
            k = np.unravel_index(int(np.argmax(np.abs(a - b))), a.shape)
            self.fail(check, form, f"{what}: max|impl-ref|={dev:.3e} at {tuple(int(x) for x in k)}: impl {a[k]:.6g} ref {b[k]:.6g}")
            return False
        return True

    def true(self, check, form, cond, msg):
        if VERBOSE:
            print(f"   [{check}] form={form}: {'ok' if cond else 'FAILED'} ({msg})")
        if not cond:
            self.fail(check, form, msg)
        return bool(cond)


D17H_WITNESS = "01z01z180_02x02y180"
ROUND_FLOOR = 1e-11      # 100 x Settings atol (1e-13): the band in which a refusal by the Gate constructor is round-off of expm (finding D17h)


def to_gate_checked(lobj, rec, B):
    """EffectiveLindbladian.to_gate() of a catalogued generator must return the gate: exp(L) is CPTP and (in the caller) equals the
    gate of the same name.

    to_gate() hands expm(L.hs) to the Gate constructor, which rejects Choi eigenvalues below the *absolute* atol 1e-13. For part of the
    2-qutrit catalogue (81x81 generators, Choi spectrum of size 9) the round-off of expm puts a zero eigenvalue just below -1e-13
    (01z01z180_02x02y180: -1.07e-13) and the constructor refuses a physical generator, deterministically: finding D17h, reported under
    its own check id `to_gate-refused-at-rounding`. To tell that class from a genuinely non-physical exponential the exponential is
    rebuilt with the constructor's verdict switched off and judged here: farther from CPTP than ROUND_FLOOR is `to_gate-not-physical`.
    Every other exception propagates to Rec.call (`raises`)."""
    try:
        return lobj.to_gate()
    except ValueError as e:
        if "not physically correct" not in str(e):
            raise
    lo = type(lobj)(lobj.composite_system, lobj.hs, is_physicality_required=False)
    tg = lo.to_gate()
    ths = np.asarray(dense(tg.hs))
    ch = choi_of_hs(B, ths)
    w = np.einsum("aii->a", B)                                    # tr X = sum_a x_a tr(B_a): trace preservation is  w^T hs = w^T
    me, fr = min_eig(ch), float(np.abs(w @ ths - w).max())
    msg = f"to_gate() raises 'the gate is not physically correct': min Choi eigenvalue of expm(L) {me:.3e}, trace-preservation deviation {fr:.3e}"
    if me > -ROUND_FLOOR and fr < ROUND_FLOOR and herm_dev(ch) < ROUND_FLOOR:
        rec.fail("to_gate-refused-at-rounding", "effective_lindbladian", msg + " (round-off against the absolute atol 1e-13)")
    else:
        rec.fail("to_gate-not-physical", "effective_lindbladian", msg)
    return tg


def _listsame(rec, check, form, impl, ref, tol=TOL, what=""):
    if impl is None or ref is None:
        return False
    try:
        n = len(impl)
    except TypeError:
        rec.fail(check, form, f"{what}: not a sequence")
        return False
    if n != len(ref):
        rec.fail(check, form, f"{what}: {n} elements vs reference {len(ref)}")
        return False
    ok = True
    for i, (a, b) in enumerate(zip(impl, ref)):
        ok &= rec.same(check, form, a, b, tol, f"{what}[{i}]")
    return ok


# ----------------------------------------------------------------------------- catalogues
STATE_FORMS = ["pure_state_vector", "density_mat", "density_matrix_vector", "state"]
ENSEMBLE_FORMS = ["state_ensemble"]


def state_catalogue():
    return [("1qubit", ST.get_state_names_1qubit()), ("2qubit", ST.get_state_names_2qubit()),
            ("3qubit", ST.get_state_names_3qubit()), ("1qutrit", ST.get_state_names_1qutrit()),
            ("2qutrit", ST.get_state_names_2qutrit())]


def povm_catalogue():
    return [("1qubit", PT.get_povm_names_1qubit()), ("2qubit", PT.get_povm_names_2qubit()),
            ("3qubit", PT.get_povm_names_3qubit()), ("1qutrit", PT.get_povm_names_1qutrit()),
            ("2qutrit", PT.get_povm_names_2qutrit())]


def gate_catalogue_small():
    """(system, name, ids) of every gate name except the 2-qutrit ones, with every id permutation"""
    out = [(s, "identity", None) for s in SYSTEMS]
    out += [("1qubit", n, None) for n in GT.get_gate_names_1qubit()]
    for n in GT.get_gate_names_2qubit():
        out += [("2qubit", n, list(p)) for p in itertools.permutations(range(2))]
    for n in GT.get_gate_names_3qubit():
        out += [("3qubit", n, list(p)) for p in itertools.permutations(range(3))]
    out += [("1qutrit", n, None) for n in GT.get_gate_names_1qutrit()]
    return out


def check_id_sequence(system, name):
    """state leaking between calls: every form of a multi-system gate is requested for EVERY id permutation, first in
    forward and then in reversed permutation order, inside ONE process, and each answer is compared with an independent
    reference for exactly those ids (textbook unitary; for the cyclic 3-qubit orders, where the unitary itself is the known
    defect D17b, the HS matrix derived from the unitary returned for the same ids).  A result memoised under the gate name
    alone is right for at most one permutation."""
    mode, n, dims = SYSTEMS[system]
    dims = list(dims)
    c_sys, B = csys(system), ref_basis(system)
    perms = [list(p) for p in itertools.permutations(range(n))]
    fails = []

    def bad(check, ids, rnd, msg):
        fails.append({"check": check, "form": f"ids={ids!r} ({type(ids).__name__} of {type(ids[0]).__name__}) pass={rnd}", "msg": msg})
    # the ids are handed over as a list, as a tuple and as a list of numpy integers (equal id orders, other container types)
    as_type = {"forward": list, "reversed": tuple, "forward-again": lambda p: [np.int64(i) for i in p]}
    for rnd, order in (("forward", perms), ("reversed", perms[::-1]), ("forward-again", perms)):
        for ids_plain in order:
            ids = as_type[rnd](ids_plain)
            try:
                u = np.asarray(dense(GT.generate_unitary_mat_from_gate_name(name, dims, ids)), dtype=complex)
                cyc = ids_class(system, ids_plain) == "/ids-cyclic"
                if not cyc:
                    uref = ref_unitary(name, system, ids_plain)
                    if phase_dev(u, uref) > TOL:
                        bad("id-sequence/unitary_mat", ids, rnd, f"unitary differs from the textbook one for these ids by {phase_dev(u, uref):.3e}")
                        uref = uref
                else:
                    uref = u
                href = hs_of_unitary(B, uref)
                forms = {
                    "gate_mat": lambda: GT.generate_gate_mat_from_gate_name(name, dims, ids),
                    "gate_mat@generate_qoperation_object": lambda: QT.generate_qoperation_object(
                        mode="gate", name=name, object_name="gate_mat", dims=dims, ids=ids, c_sys=c_sys),
                    "gate": lambda: GT.generate_gate_from_gate_name(name, c_sys, ids).hs,
                    "effective_lindbladian_mat": lambda: sla.expm(np.asarray(dense(
                        LT.generate_effective_lindbladian_mat_from_gate_name(name, dims, ids)), dtype=float)),
                    "hamiltonian_mat": lambda: hs_of_unitary(B, sla.expm(-1j * np.asarray(dense(
                        LT.generate_hamiltonian_mat_from_gate_name(name, dims, ids)), dtype=complex))),
                }
                for form, fn in forms.items():
                    got = np.asarray(dense(fn()))
                    dev = float(np.abs(got - href).max()) if got.shape == href.shape else float("inf")
                    if dev > TOL:
                        bad(f"id-sequence/{form}", ids, rnd,
                            f"{form} requested for ids={ids} in the {rnd} pass differs from the HS matrix of the unitary for these ids by {dev:.3e}")
            except Exception as e:  # noqa
                bad("id-sequence/raises", ids, rnd, f"{type(e).__name__}: {e}")
    # one report per check is enough
    seen, out = set(), []
    for f in fails:
        if f["check"] not in seen:
            seen.add(f["check"]); out.append(f)
    return out


MIXED_DIMS = [[2, 3], [3, 2], [2, 3, 2], [2, 2, 3], [2], [3], [2, 2]]


def check_identity_mixed(dims):
    """gate `identity` on a composite system with the given (possibly UNEQUAL) elemental dimensions: every matrix form
    has the size of the total dimension prod(dims) and all forms / dispatchers agree with the Gate object built on the
    corresponding CompositeSystem"""
    import qobj
    fails = []
    kinds = ["qubit" if d == 2 else "qutrit" for d in dims]
    ids = list(range(len(dims)))
    D = int(np.prod(dims))

    def bad(check, form, msg):
        fails.append({"check": check, "form": form, "msg": msg})
    try:
        c_sys = qobj.csys(kinds, names=tuple(ids))
        if c_sys.dim != D:
            bad("identity-mixed/csys-dim", "-", f"CompositeSystem of dims {dims} has dim {c_sys.dim}")
        forms = {
            "unitary_mat": (lambda: GT.generate_unitary_mat_from_gate_name("identity", list(dims), ids), np.eye(D)),
            "gate_mat": (lambda: GT.generate_gate_mat_from_gate_name("identity", list(dims), ids), np.eye(D * D)),
            "unitary_mat@dispatcher": (lambda: QT.generate_qoperation_object(mode="gate", name="identity", object_name="unitary_mat", dims=list(dims), ids=ids, c_sys=c_sys), np.eye(D)),
            "gate_mat@dispatcher": (lambda: QT.generate_qoperation_object(mode="gate", name="identity", object_name="gate_mat", dims=list(dims), ids=ids, c_sys=c_sys), np.eye(D * D)),
            "gate": (lambda: GT.generate_gate_from_gate_name("identity", c_sys, ids).hs, np.eye(D * D)),
            "gate@dispatcher": (lambda: QT.generate_qoperation_object(mode="gate", name="identity", object_name="gate", dims=list(dims), ids=ids, c_sys=c_sys).hs, np.eye(D * D)),
            "hamiltonian_vec": (lambda: LT.generate_hamiltonian_vec_from_gate_name("identity", list(dims), ids), np.zeros(D * D)),
            "hamiltonian_mat": (lambda: LT.generate_hamiltonian_mat_from_gate_name("identity", list(dims), ids), np.zeros((D, D))),
            "effective_lindbladian_mat": (lambda: LT.generate_effective_lindbladian_mat_from_gate_name("identity", list(dims), ids), np.zeros((D * D, D * D))),
            "effective_lindbladian": (lambda: LT.generate_effective_lindbladian_from_gate_name("identity", c_sys, ids).hs, np.zeros((D * D, D * D))),
            "effective_lindbladian_mat@dispatcher": (lambda: QT.generate_effective_lindbladian_object("identity", "effective_lindbladian_mat", dims=list(dims), ids=ids, c_sys=c_sys), np.zeros((D * D, D * D))),
            "hamiltonian_mat@dispatcher": (lambda: QT.generate_effective_lindbladian_object("identity", "hamiltonian_mat", dims=list(dims), ids=ids, c_sys=c_sys), np.zeros((D, D))),
        }
        for form, (fn, ref) in forms.items():
            if D > 6 and form.split("@")[0] in ("gate", "effective_lindbladian"):
                continue        # (cost) the object forms only on the small systems; their size comes from c_sys.dim
            try:
                got = np.asarray(dense(fn()))
            except Exception as e:  # noqa
                bad("identity-mixed/raises", form, f"{type(e).__name__}: {e}")
                continue
            if got.shape != ref.shape:
                bad("identity-mixed/shape", form, f"dims {dims}: shape {got.shape}, expected {ref.shape} (total dimension {D})")
            elif np.abs(got - ref).max() > 1e-12:
                bad("identity-mixed/value", form, f"dims {dims}: differs from the identity / zero generator by {np.abs(got - ref).max():.3e}")
    except Exception as e:  # noqa
        bad("identity-mixed/raises", "-", f"{type(e).__name__}: {e}")
    seen, out = set(), []
    for f in fails:
        if f["check"] not in seen:
            seen.add(f["check"]); out.append(f)
    return out


def id_sequence_items():
    return [("2qubit", n) for n in GT.get_gate_names_2qubit()] + [("3qubit", n) for n in GT.get_gate_names_3qubit()]


def mprocess_names():
    return MT.get_mprocess_names_type1() + MT.get_mprocess_names_type2()


_DIM_SYSTEM = {2: "1qubit", 4: "2qubit", 8: "3qubit", 3: "1qutrit", 9: "2qutrit"}


# ----------------------------------------------------------------------------- states
def check_state(system, name):
    r = Rec()
    c_sys, B = csys(system), ref_basis(system)
    d = B.shape[1]
    try:
        psi_ref = ref_state(name, system)
    except KeyError:
        r.fail("no-textbook-reference", "-", f"state name {name!r} has no textbook meaning on {system}")
        psi_ref = None
    r.true("is-valid-name", "-", ST.is_valid_state_name(name) is True and name in ST.get_state_names(),
           "is_valid_state_name / get_state_names do not list the name")
    # every form through every dispatcher
    psi = r.call("pure_state_vector", ST.generate_state_pure_state_vector_from_name, name)
    rho = r.call("density_mat", ST.generate_state_density_mat_from_name, name)
    vec = r.call("density_matrix_vector", ST.generate_state_density_matrix_vector_from_name, c_sys.basis(), name)
    obj = r.call("state", ST.generate_state_from_name, c_sys, name)
    direct = {"pure_state_vector": psi, "density_mat": rho, "density_matrix_vector": vec,
              "state": None if obj is None else obj.vec}
    for form in STATE_FORMS:
        layers = (("state_typical-dispatcher", lambda f=form: ST.generate_state_object_from_state_name_object_name(name, f, c_sys)),
                  ("qoperation_typical.generate_state_object", lambda f=form: QT.generate_state_object(name, f, c_sys)),
                  ("qoperation_typical.generate_qoperation_object",
                   lambda f=form: QT.generate_qoperation_object(mode="state", name=name, object_name=f, c_sys=c_sys)))
        # (cost) on the big systems only the outermost dispatcher, which calls through the inner ones
        for lab, fn in (layers[2:] if system in HEAVY else layers):
            o = r.call(f"{form}@{lab}", fn)
            if o is not None and direct[form] is not None:
                r.same("dispatchers-agree", f"{form}@{lab}", o.vec if form == "state" else o, direct[form], 0.0, "dispatcher vs direct")
    o = r.call("state@qoperation_typical.generate_qoperation", QT.generate_qoperation, "state", name, c_sys)
    if o is not None and obj is not None:
        r.same("dispatchers-agree", "state@generate_qoperation", o.vec, obj.vec, 0.0, "dispatcher vs direct")
    # textbook + agreement of descriptions
    if psi is not None:
        psi = np.asarray(psi)
        r.true("vector-shape", "pure_state_vector", psi.shape == (d,), f"shape {psi.shape}, expected ({d},)")
        if psi.shape == (d,):
            r.true("vector-normalised", "pure_state_vector", abs(np.vdot(psi, psi) - 1) < 1e-12, f"<psi|psi>={np.vdot(psi, psi)}")
            if psi_ref is not None:
                r.same("vector-vs-textbook", "pure_state_vector", psi, psi_ref, 1e-12, "pure-state vector")
    if rho is not None:
        rho = np.asarray(dense(rho))
        if psi is not None and psi.shape == (d,):
            r.same("density-vs-vector", "density_mat", rho, proj(psi), 1e-12, "rho vs |psi><psi|")
        if psi_ref is not None:
            r.same("density-vs-textbook", "density_mat", rho, proj(psi_ref), 1e-12, "rho")
        if rho.shape == (d, d):
            r.true("not-hermitian", "density_mat", herm_dev(rho) < 1e-12, f"|rho-rho^H|={herm_dev(rho):.2e}")
            r.true("trace-not-one", "density_mat", abs(np.trace(rho) - 1) < 1e-12, f"tr rho={np.trace(rho)}")
            r.true("not-psd", "density_mat", min_eig(rho) > -TOL, f"min eig {min_eig(rho):.3e}")
    if vec is not None:
        v = np.asarray(vec)
        r.true("vec-not-real", "density_matrix_vector", v.dtype.kind == "f", f"dtype {v.dtype}")
        if rho is not None and rho.shape == (d, d):
            r.same("vec-vs-density", "density_matrix_vector", v, vec_of(B, rho), 1e-12, "vec_a vs tr(B_a rho)")
    if obj is not None:
        if vec is not None:
            r.same("object-vs-vec", "state", obj.vec, vec, 1e-12, "State.vec")
        dm = r.call("state", obj.to_density_matrix)
        if dm is not None:
            dm = np.asarray(dense(dm))
            r.same("object-density", "state", dm, mat_of(B, obj.vec), 1e-12, "to_density_matrix vs sum vec_a B_a")
            if psi_ref is not None:
                r.same("object-vs-textbook", "state", dm, proj(psi_ref), 1e-12, "State density matrix")
            if dm.shape == (d, d):
                r.true("not-psd", "state", herm_dev(dm) < 1e-12 and abs(np.trace(dm) - 1) < 1e-12 and min_eig(dm) > -TOL,
                       f"herm {herm_dev(dm):.1e} tr {np.trace(dm)} min eig {min_eig(dm):.2e}")
        ph = r.call("state", obj.is_physical)
        if ph is not None:
            r.true("is_physical-false", "state", ph is True or ph == True, f"is_physical() = {ph}")  # noqa: E712
    return r.fails


# ----------------------------------------------------------------------------- POVMs
def check_povm(system, name):
    r = Rec()
    c_sys, B = csys(system), ref_basis(system)
    d = B.shape[1]
    try:
        ref_m, ref_v = ref_povm(name, system)
    except KeyError:
        r.fail("no-textbook-reference", "-", f"POVM name {name!r} has no textbook meaning on {system}")
        ref_m, ref_v = None, None
    r.true("is-valid-name", "-", name in PT.get_povm_names(), "get_povm_names does not list the name")
    rank1 = all(p in PT.get_povm_names_rank1() for p in name.split("_"))
    if ref_m is not None:
        r.true("rank1-list", "-", rank1 == (ref_v is not None), f"get_povm_names_rank1 says rank1={rank1}, textbook {ref_v is not None}")
    if rank1:
        pvs = r.call("pure_state_vectors", PT.generate_povm_pure_state_vectors_from_name, name)
    else:   # documented: not-rank-1 POVMs have no pure-state-vector description; must be rejected, not invented
        pvs = None
        try:
            got = PT.generate_povm_pure_state_vectors_from_name(name)
            r.fail("not-rank1-accepted", "pure_state_vectors", f"returned {type(got).__name__} for a POVM that is not rank 1")
        except ValueError:
            pass
        except Exception as e:  # noqa
            r.fail("raises", "pure_state_vectors", f"{type(e).__name__}: {e}")
    mats = r.call("matrices", PT.generate_povm_matrices_from_name, name)
    vecs = r.call("vectors", PT.generate_povm_vectors_from_name, name, c_sys.basis())
    obj = r.call("povm", PT.generate_povm_from_name, name, c_sys)
    direct = {"pure_state_vectors": pvs, "matrices": mats, "vectors": vecs, "povm": None if obj is None else list(obj.vecs)}
    for form in PT.get_povm_object_names():
        if form not in direct:
            r.fail("no-textbook-reference", form, "object_name unknown to the harness")
            continue
        if form == "pure_state_vectors" and not rank1:
            continue
        o = r.call(f"{form}@povm_typical-dispatcher", PT.generate_povm_object_from_povm_name_object_name, name, form,
                   c_sys=c_sys, basis=c_sys.basis())
        if o is not None and direct[form] is not None:
            _listsame(r, "dispatchers-agree", f"{form}@povm_typical-dispatcher", list(o.vecs) if form == "povm" else o, direct[form], 0.0, "dispatcher vs direct")
        # qoperation_typical dispatchers have no basis argument
        layers = (("qoperation_typical.generate_povm_object", lambda f=form: QT.generate_povm_object(name, f, c_sys)),
                  ("qoperation_typical.generate_qoperation_object",
                   lambda f=form: QT.generate_qoperation_object(mode="povm", name=name, object_name=f, c_sys=c_sys)))
        for lab, fn in (layers[1:] if system in HEAVY else layers):
            try:
                o = fn()
            except Exception as e:  # noqa
                if form == "vectors":
                    r.fail("@qoperation_typical/vectors-raises", f"{form}@{lab}", f"{type(e).__name__}: {str(e)[:120]}")
                else:
                    r.fail("raises", f"{form}@{lab}", f"{type(e).__name__}: {str(e)[:120]}")
                continue
            if direct[form] is not None:
                _listsame(r, "dispatchers-agree", f"{form}@{lab}", list(o.vecs) if form == "povm" else o, direct[form], 0.0, "dispatcher vs direct")
    o = r.call("povm@qoperation_typical.generate_qoperation", QT.generate_qoperation, "povm", name, c_sys)
    if o is not None and obj is not None:
        _listsame(r, "dispatchers-agree", "povm@generate_qoperation", list(o.vecs), list(obj.vecs), 0.0, "dispatcher vs direct")
    if pvs is not None and ref_v is not None:
        _listsame(r, "vectors-vs-textbook", "pure_state_vectors", pvs, ref_v, 1e-12, "pure-state vector")
    if mats is not None:
        mats = [np.asarray(dense(m)) for m in mats]
        if ref_m is not None:
            _listsame(r, "matrices-vs-textbook", "matrices", mats, ref_m, 1e-12, "POVM element")
        if pvs is not None:
            _listsame(r, "matrices-vs-vectors", "matrices", mats, [proj(v) for v in pvs], 1e-12, "element vs |v><v|")
        if all(m.shape == (d, d) for m in mats):
            for i, m in enumerate(mats):
                r.true("element-not-psd", "matrices", herm_dev(m) < 1e-12 and min_eig(m) > -TOL, f"element {i}: herm {herm_dev(m):.1e} min eig {min_eig(m):.2e}")
            r.same("sum-not-identity", "matrices", sum(mats), np.eye(d), 1e-12, "sum of elements")
        if vecs is not None:
            _listsame(r, "vecs-vs-matrices", "vectors", vecs, [vec_of(B, m) for m in mats], 1e-12, "vec_a vs tr(B_a M)")
    if vecs is not None:
        r.true("vec-not-real", "vectors", all(np.asarray(v).dtype.kind == "f" for v in vecs), "dtype not real")
    if obj is not None:
        if vecs is not None:
            _listsame(r, "object-vs-vecs", "povm", list(obj.vecs), vecs, 1e-12, "Povm.vecs")
        om = r.call("povm", obj.matrices)
        if om is not None:
            om = [np.asarray(dense(m)) for m in om]
            _listsame(r, "object-matrices", "povm", om, [mat_of(B, v) for v in obj.vecs], 1e-12, "Povm.matrices vs sum vec_a B_a")
            if ref_m is not None:
                _listsame(r, "object-vs-textbook", "povm", om, ref_m, 1e-12, "Povm element")
            if all(m.shape == (d, d) for m in om):
                r.true("element-not-psd", "povm", all(herm_dev(m) < 1e-12 and min_eig(m) > -TOL for m in om), "an element of the Povm object is not PSD")
                r.same("sum-not-identity", "povm", sum(om), np.eye(d), 1e-12, "sum of Povm elements")
        ph = r.call("povm", obj.is_physical)
        if ph is not None:
            r.true("is_physical-false", "povm", ph == True, f"is_physical() = {ph}")  # noqa: E712
    return r.fails


# ----------------------------------------------------------------------------- measurement processes
def check_mprocess(name):
    """-> (system, fails)"""
    r = Rec()
    try:
        system, ref_k, ref_v = ref_mprocess(name)
    except KeyError:
        system, ref_k, ref_v = None, None, None
        r.fail("no-textbook-reference", "-", f"mprocess name {name!r} has no textbook meaning")
    kraus = r.call("set_kraus_matrices", MT.generate_mprocess_set_kraus_matrices_from_name, name)
    if system is None and kraus is not None:
        try:
            system = _DIM_SYSTEM.get(np.asarray(kraus[0][0]).shape[0])
        except Exception:  # noqa
            system = None
    if system is None:
        return "unknown", r.fails
    c_sys, B = csys(system), ref_basis(system)
    d = B.shape[1]
    pure = name in MT.get_mprocess_names_type1_set_pure_state_vectors()
    if ref_k is not None:
        r.true("pure-list", "-", pure == (ref_v is not None), f"type1_set_pure_state_vectors lists it: {pure}, textbook: {ref_v is not None}")
    if pure:
        spv = r.call("set_pure_state_vectors", MT.generate_mprocess_set_pure_state_vectors_from_name, name)
    else:
        spv = None
        try:
            got = MT.generate_mprocess_set_pure_state_vectors_from_name(name)
            r.fail("not-pure-accepted", "set_pure_state_vectors", f"returned {type(got).__name__} for a process without pure-state-vector description")
        except ValueError:
            pass
        except Exception as e:  # noqa
            r.fail("raises", "set_pure_state_vectors", f"{type(e).__name__}: {e}")
    hss = r.call("hss", MT.generate_mprocess_hss_from_name, name, c_sys)
    obj = r.call("mprocess", MT.generate_mprocess_from_name, c_sys, name)

    def flat(x):
        return None if x is None else [m for g in x for m in g]

    direct = {"set_pure_state_vectors": flat(spv), "set_kraus_matrices": flat(kraus), "hss": hss,
              "mprocess": None if obj is None else list(obj.hss)}
    for form in MT.get_mprocess_object_names():
        if form not in direct:
            r.fail("no-textbook-reference", form, "object_name unknown to the harness")
            continue
        if form == "set_pure_state_vectors" and not pure:
            continue
        for lab, fn in (("mprocess_typical-dispatcher", lambda f=form: MT.generate_mprocess_object_from_mprocess_name_object_name(name, f, c_sys)),
                        ("qoperation_typical.generate_mprocess_object", lambda f=form: QT.generate_mprocess_object(name, f, c_sys)),
                        ("qoperation_typical.generate_qoperation_object",
                         lambda f=form: QT.generate_qoperation_object(mode="mprocess", name=name, object_name=f, c_sys=c_sys))):
            o = r.call(f"{form}@{lab}", fn)
            if o is None or direct[form] is None:
                continue
            got = list(o.hss) if form == "mprocess" else (flat(o) if form.startswith("set_") else o)
            _listsame(r, "dispatchers-agree", f"{form}@{lab}", got, direct[form], 0.0, "dispatcher vs direct")
    o = r.call("mprocess@qoperation_typical.generate_qoperation", QT.generate_qoperation, "mprocess", name, c_sys)
    if o is not None and obj is not None:
        _listsame(r, "dispatchers-agree", "mprocess@generate_qoperation", list(o.hss), list(obj.hss), 0.0, "dispatcher vs direct")
    nk = None
    if kraus is not None:
        try:
            nk = [[np.asarray(dense(k), dtype=complex) for k in g] for g in kraus]
        except Exception as e:  # noqa
            r.fail("kraus-shape", "set_kraus_matrices", f"{type(e).__name__}: {e}")
    if nk is not None:
        ok_shape = all(k.shape == (d, d) for g in nk for k in g)
        r.true("kraus-shape", "set_kraus_matrices", ok_shape, f"Kraus matrices are not {d}x{d}")
        if ref_k is not None:
            r.true("kraus-vs-textbook", "set_kraus_matrices", len(nk) == len(ref_k) and all(len(a) == len(b) for a, b in zip(nk, ref_k)),
                   f"outcome/Kraus counts {[len(g) for g in nk]} vs textbook {[len(g) for g in ref_k]}")
            if len(nk) == len(ref_k):
                for x, (a, b) in enumerate(zip(nk, ref_k)):
                    _listsame(r, "kraus-vs-textbook", "set_kraus_matrices", a, b, 1e-12, f"K[{x}]")
        if spv is not None:
            try:
                _listsame(r, "kraus-vs-vectors", "set_kraus_matrices", flat(nk), [proj(v) for g in spv for v in g], 1e-12, "K vs |v><v|")
                if ref_v is not None:
                    _listsame(r, "vectors-vs-textbook", "set_pure_state_vectors", flat(spv), [v for g in ref_v for v in g], 1e-12, "pure-state vector")
            except Exception as e:  # noqa
                r.fail("vectors-shape", "set_pure_state_vectors", f"{type(e).__name__}: {e}")
        if ok_shape:
            r.same("kraus-not-tp", "set_kraus_matrices", sum(k.conj().T @ k for g in nk for k in g), np.eye(d), 1e-12, "sum K^H K")
            if hss is not None:
                _listsame(r, "hss-vs-kraus", "hss", hss, [hs_of_kraus(B, g) for g in nk], 1e-12, "hs_x vs sum_k K (x) conj K in the basis")
    if hss is not None:
        r.true("hs-not-real", "hss", all(np.asarray(h).dtype.kind == "f" for h in hss), "dtype not real")
        try:
            tot = sum(np.asarray(h) for h in hss)
            e0 = np.zeros(d * d)
            e0[0] = 1
            r.same("sum-not-tp", "hss", tot[0], e0, 1e-12, "first row of sum_x hs_x")
            for x, h in enumerate(hss):
                ch = choi_of_hs(B, h)
                r.true("choi-not-psd", "hss", herm_dev(ch) < 1e-10 and min_eig(ch) > -TOL, f"outcome {x}: herm {herm_dev(ch):.1e} min eig {min_eig(ch):.2e}")
        except Exception as e:  # noqa
            r.fail("hs-shape", "hss", f"{type(e).__name__}: {e}")
    if obj is not None:
        if hss is not None:
            _listsame(r, "object-vs-hss", "mprocess", list(obj.hss), hss, 1e-12, "MProcess.hss")
        ph = r.call("mprocess", obj.is_physical)
        if ph is not None:
            r.true("is_physical-false", "mprocess", ph == True, f"is_physical() = {ph}")  # noqa: E712
        pv = r.call("mprocess", obj.to_povm)
        if pv is not None and nk is not None and all(k.shape == (d, d) for g in nk for k in g):
            pm = r.call("mprocess", pv.matrices)
            if pm is not None:
                _listsame(r, "to_povm-vs-kraus", "mprocess", [np.asarray(dense(m)) for m in pm],
                          [sum(k.conj().T @ k for k in g) for g in nk], 1e-12, "to_povm element vs sum_k K^H K")
    return system, r.fails


# ----------------------------------------------------------------------------- state ensembles
def check_ensemble(name):
    r = Rec()
    system = "1qubit"
    c_sys, B = csys(system), ref_basis(system)
    obj = r.call("state_ensemble", ET.generate_state_ensemble_from_name, c_sys, name)
    el = r.call("elements", ET.generate_state_ensemble_elements_from_name, name, c_sys)
    for lab, fn in (("state_ensemble_typical-dispatcher", lambda: ET.generate_state_ensemble_object_from_state_ensemble_name_object_name(name, "state_ensemble", c_sys)),
                    ("qoperation_typical.generate_state_ensemble_object", lambda: QT.generate_state_ensemble_object(name, "state_ensemble", c_sys)),
                    ("qoperation_typical.generate_qoperation_object",
                     lambda: QT.generate_qoperation_object(mode="state_ensemble", name=name, object_name="state_ensemble", c_sys=c_sys))):
        o = r.call(f"state_ensemble@{lab}", fn)
        if o is not None and obj is not None:
            r.same("dispatchers-agree", f"state_ensemble@{lab}", o.prob_dist.ps, obj.prob_dist.ps, 0.0, "probabilities")
            _listsame(r, "dispatchers-agree", f"state_ensemble@{lab}", [s.vec for s in o.states], [s.vec for s in obj.states], 0.0, "states")
    if obj is not None:
        ps = np.asarray(obj.prob_dist.ps, dtype=float)
        r.true("prob-not-normalised", "state_ensemble", abs(ps.sum() - 1) < 1e-12 and (ps >= 0).all(), f"probabilities {ps}")
        r.true("states-count", "state_ensemble", len(obj.states) == len(ps), f"{len(obj.states)} states, {len(ps)} probabilities")
        for i, s in enumerate(obj.states):
            dm = mat_of(B, s.vec)
            r.true("state-not-physical", "state_ensemble", herm_dev(dm) < 1e-12 and abs(np.trace(dm) - 1) < 1e-12 and min_eig(dm) > -TOL and s.is_physical(),
                   f"state {i}: tr {np.trace(dm)} min eig {min_eig(dm):.2e}")
        # the members are the eigenstates of the named axis, the named state first
        if name in Q1 and name != "a" and len(obj.states) == 2:
            other = name[0] + ("1" if name[1] == "0" else "0")
            mem = [name, other] if name[1] == "0" else [other, name]
            _listsame(r, "members-vs-textbook", "state_ensemble", [mat_of(B, s.vec) for s in obj.states], [proj(Q1[m]) for m in mem], 1e-12, "member state")
        if el is not None:
            r.same("elements-vs-object", "elements", np.asarray(el[1], dtype=float), ps, 1e-12, "prob_dist")
    return r.fails


# ----------------------------------------------------------------------------- gates + effective Lindbladians
GATE_FORMS = ["unitary_mat", "gate_mat", "gate"]
LIND_FORMS = ["hamiltonian_vec", "hamiltonian_mat", "effective_lindbladian_mat", "effective_lindbladian"]
_NAMED_STATES = {}


def named_states(system):
    """(names, V, Psi): quara's State.vec of every catalogued state of the system as columns of V (real code),
    textbook vectors as columns of Psi (reference)"""
    if system not in _NAMED_STATES:
        names = dict(state_catalogue())[system]
        c_sys = csys(system)
        keep, vs, ps = [], [], []
        for n in names:
            try:
                v = ST.generate_state_from_name(c_sys, n).vec
                p = ref_state(n, system)
            except Exception:  # noqa  (reported by check_state)
                continue
            keep.append(n)
            vs.append(np.asarray(v, dtype=float))
            ps.append(p)
        _NAMED_STATES[system] = (keep, np.array(vs).T, np.array(ps).T)
    return _NAMED_STATES[system]


def check_gate(system, name, ids, lind_obj=True, skip_lind=False):
    """one gate name (+ ids) and the effective-Lindbladian entry of the same name -> (gate fails, lindbladian fails)"""
    g, l = Rec(), Rec()
    mode, n, dims = SYSTEMS[system]
    c_sys, B = csys(system), ref_basis(system)
    d = B.shape[1]
    heavy = system in HEAVY
    idl = None if ids is None else list(ids)
    cls = ids_class(system, ids)
    try:
        u_ref = ref_unitary(name, system, idl)
    except KeyError:
        u_ref = None
        g.fail("no-textbook-reference", "-", f"gate name {name!r} has no textbook meaning on {system}")
    if system != "2qutrit":     # (the 2-qutrit names are taken from that list; rebuilding 39k names per entry is the cost)
        g.true("is-valid-name", "-", name in GT.get_gate_names(), "get_gate_names does not list the name")

    # ---- gate forms: outermost dispatcher always; every inner dispatcher too on the small systems
    def outer(form):
        return QT.generate_qoperation_object(mode="gate", name=name, object_name=form, dims=list(dims), ids=idl, c_sys=c_sys)

    got = {}
    for form in QT.get_gate_object_names():
        if form not in GATE_FORMS:
            g.fail("no-textbook-reference", form, "object_name unknown to the harness")
            continue
        if form == "gate_mat" and system == "2qutrit" and not lind_obj:
            continue    # (cost) for the 2-qutrit names outside the object sample the gate_mat form is read off the Gate object
        got[form] = g.call(f"{form}@qoperation_typical.generate_qoperation_object", outer, form)
    u, hs, obj = got.get("unitary_mat"), got.get("gate_mat"), got.get("gate")
    if hs is None and "gate_mat" not in got and obj is not None:
        hs = obj.hs
    if not heavy:
        inner = {
            "unitary_mat": [("gate_typical.generate_unitary_mat_from_gate_name", lambda: GT.generate_unitary_mat_from_gate_name(name, list(dims), idl))],
            "gate_mat": [("gate_typical.generate_gate_mat_from_gate_name", lambda: GT.generate_gate_mat_from_gate_name(name, list(dims), idl))],
            "gate": [("gate_typical.generate_gate_from_gate_name", lambda: GT.generate_gate_from_gate_name(name, c_sys, idl)),
                     ("qoperation_typical.generate_qoperation", lambda: QT.generate_qoperation("gate", name, c_sys, ids=idl))],
        }
        for form in GATE_FORMS:
            inner[form].append(("gate_typical-dispatcher", lambda f=form: GT.generate_gate_object_from_gate_name_object_name(name, f, list(dims), idl, c_sys)))
            inner[form].append(("qoperation_typical.generate_gate_object", lambda f=form: QT.generate_gate_object(name, f, list(dims), idl, c_sys)))
            for lab, fn in inner[form]:
                o = g.call(f"{form}@{lab}", fn)
                if o is not None and got.get(form) is not None:
                    g.same("dispatchers-agree", f"{form}@{lab}", o.hs if form == "gate" else o, got[form].hs if form == "gate" else got[form], 0.0, "dispatcher vs dispatcher")
    u_ok = False
    if u is not None:
        u = np.asarray(dense(u), dtype=complex)
        if g.true("unitary-shape", "unitary_mat", u.shape == (d, d), f"shape {u.shape}, expected {(d, d)}"):
            g.same("not-unitary", "unitary_mat", u.conj().T @ u, np.eye(d), 1e-12, "U^H U")
            if u_ref is not None:
                dev = phase_dev(u, u_ref)
                if VERBOSE:
                    print("   quara unitary:\n" + _short(u) + "\n   textbook unitary:\n" + _short(u_ref))
                u_ok = g.true("unitary-vs-textbook" + cls, "unitary_mat", dev < TOL, f"U differs from the textbook unitary by {dev:.3e} (global phase removed)")
        else:
            u = None
    hs_ok = False
    if hs is not None:
        hs = np.asarray(dense(hs))
        g.true("hs-not-real", "gate_mat", hs.dtype.kind == "f", f"dtype {hs.dtype}")
        if g.true("hs-shape", "gate_mat", hs.shape == (d * d, d * d), f"shape {hs.shape}"):
            hs_ok = True
            if u is not None:
                g.same("hs-vs-unitary", "gate_mat", hs, hs_of_unitary(B, u), TOL, "hs_ab vs tr(B_a U B_b U^H)")
            if u_ok:     # (a mismatch of U itself is reported once, as unitary-vs-textbook)
                g.same("hs-vs-textbook" + cls, "gate_mat", hs, hs_of_unitary(B, u_ref), TOL, "hs vs HS matrix of the textbook unitary")
            e0 = np.zeros(d * d)
            e0[0] = 1
            g.same("not-tp", "gate_mat", hs[0], e0, 1e-12, "first row of hs")
            ch = choi_of_hs(B, hs)
            g.true("choi-not-psd", "gate_mat", herm_dev(ch) < 1e-10 and min_eig(ch) > -TOL, f"Choi: herm {herm_dev(ch):.1e} min eig {min_eig(ch):.3e}")
    if obj is not None:
        ohs = np.asarray(dense(obj.hs))
        if hs_ok:
            g.same("object-vs-mat", "gate", ohs, hs, 1e-12, "Gate.hs vs gate_mat")
        elif ohs.shape == (d * d, d * d):
            ch = choi_of_hs(B, ohs)
            g.true("choi-not-psd", "gate", herm_dev(ch) < 1e-10 and min_eig(ch) > -TOL and abs(ohs[0, 0] - 1) < 1e-12, "Gate object not CPTP")
        ph = g.call("gate", obj.is_physical)
        if ph is not None:
            g.true("is_physical-false", "gate", ph == True, f"is_physical() = {ph}")  # noqa: E712
        # textbook action on every named state of the system: gate.hs @ state.vec  vs  U_ref |psi><psi| U_ref^H
        if u_ok and ohs.shape == (d * d, d * d):
            names, V, Psi = named_states(system)
            out = ohs @ V
            ref_out = u_ref @ Psi
            ref_vecs = np.einsum("aij,is,js->as", B.conj(), ref_out, ref_out.conj())
            dev = np.abs(out - ref_vecs).max(axis=0)
            k = int(np.argmax(dev))
            if VERBOSE:
                print(f"   action on {len(names)} named states: worst {names[k]} dev {dev[k]:.3e}")
            g.true("action-vs-textbook" + cls, "gate", dev[k] < TOL,
                   f"gate.hs @ state.vec differs from the textbook action on state {names[k]!r} by {dev[k]:.3e}")

    # ---- effective Lindbladian of the same name
    def louter(form):
        return QT.generate_effective_lindbladian_object(name, form, dims=list(dims), ids=idl, c_sys=c_sys)

    lg = {}
    for form in ([] if skip_lind else QT.get_effective_lindbladian_object_names()):
        if form not in LIND_FORMS:
            l.fail("no-textbook-reference", form, "object_name unknown to the harness")
            continue
        if form == "effective_lindbladian" and not lind_obj:
            continue
        lg[form] = l.call(f"{form}@qoperation_typical.generate_effective_lindbladian_object", louter, form)
    if not heavy:
        linner = {
            "hamiltonian_vec": lambda: LT.generate_hamiltonian_vec_from_gate_name(name, list(dims), idl),
            "hamiltonian_mat": lambda: LT.generate_hamiltonian_mat_from_gate_name(name, list(dims), idl),
            "effective_lindbladian_mat": lambda: LT.generate_effective_lindbladian_mat_from_gate_name(name, list(dims), idl),
            "effective_lindbladian": lambda: LT.generate_effective_lindbladian_from_gate_name(name, c_sys, idl),
        }
        for form in LIND_FORMS:
            for lab, fn in ((f"effective_lindbladian_typical.{form}", linner[form]),
                            ("effective_lindbladian_typical-dispatcher",
                             lambda f=form: LT.generate_effective_lindbladian_object_from_gate_name_object_name(name, f, list(dims), idl, c_sys))):
                o = l.call(f"{form}@{lab}", fn)
                if o is not None and lg.get(form) is not None:
                    l.same("dispatchers-agree", f"{form}@{lab}", o.hs if form == "effective_lindbladian" else o,
                           lg[form].hs if form == "effective_lindbladian" else lg[form], 0.0, "dispatcher vs dispatcher")
    hvec, hmat, lmat, lobj = lg.get("hamiltonian_vec"), lg.get("hamiltonian_mat"), lg.get("effective_lindbladian_mat"), lg.get("effective_lindbladian")
    h_ok = False
    if hmat is not None:
        hmat = np.asarray(dense(hmat), dtype=complex)
        if l.true("hamiltonian-shape", "hamiltonian_mat", hmat.shape == (d, d), f"shape {hmat.shape}"):
            h_ok = l.true("hamiltonian-not-hermitian", "hamiltonian_mat", herm_dev(hmat) < 1e-12, f"|H-H^H| = {herm_dev(hmat):.2e}")
            if u is not None:
                l.same("hamiltonian-vs-unitary", "hamiltonian_mat", sla.expm(-1j * hmat), u, TOL, "expm(-iH) vs unitary_mat")
            if system == "2qutrit":
                try:
                    l.same("hamiltonian-vs-name", "hamiltonian_mat", hmat, ref_hamiltonian_2qutrit(name)[0], 1e-12, "H vs sum (angle/2) base0 (x) base1")
                except KeyError:
                    pass
            if hvec is not None:
                hv = np.asarray(hvec)
                l.true("vec-not-real", "hamiltonian_vec", hv.dtype.kind == "f", f"dtype {hv.dtype}")
                l.same("hamiltonian-vec-vs-mat", "hamiltonian_vec", hv, vec_of(B, hmat), 1e-12, "h_a vs tr(B_a H)")
    lm_ok = False
    if lmat is not None:
        lmat = np.asarray(dense(lmat))
        l.true("hs-not-real", "effective_lindbladian_mat", lmat.dtype.kind == "f", f"dtype {lmat.dtype}")
        if l.true("lindbladian-shape", "effective_lindbladian_mat", lmat.shape == (d * d, d * d), f"shape {lmat.shape}"):
            lm_ok = True
            if h_ok:
                l.same("lindbladian-vs-hamiltonian", "effective_lindbladian_mat", lmat, lind_of_h(B, hmat), 1e-12, "L_ab vs tr(B_a (-i)[H,B_b])")
            l.same("not-tp", "effective_lindbladian_mat", lmat[0], np.zeros(d * d), 1e-12, "first row of L")
            ex = sla.expm(lmat.astype(float)) if lmat.dtype.kind == "f" else sla.expm(lmat)
            if hs_ok:
                l.same("expm-vs-gate", "effective_lindbladian_mat", ex, hs, TOL, "expm(L) vs gate_mat of the same name")
            else:
                ch = choi_of_hs(B, ex)
                l.true("expm-not-physical", "effective_lindbladian_mat", min_eig(ch) > -TOL and abs(ex[0, 0] - 1) < TOL, "expm(L) is not CPTP")
    if lobj is not None:
        lh = np.asarray(dense(lobj.hs))
        if lm_ok:
            l.same("object-vs-mat", "effective_lindbladian", lh, lmat, 1e-12, "EffectiveLindbladian.hs vs effective_lindbladian_mat")
        ph = l.call("effective_lindbladian", lobj.is_physical)
        if ph is not None:
            l.true("is_physical-false", "effective_lindbladian", ph == True, f"is_physical() = {ph}")  # noqa: E712
        tg = l.call("effective_lindbladian", to_gate_checked, lobj, l, B)
        if tg is not None and hs_ok:
            l.same("to_gate-vs-gate", "effective_lindbladian", tg.hs, hs, TOL, "EffectiveLindbladian.to_gate().hs vs gate_mat")
    return g.fails, l.fails


# ----------------------------------------------------------------------------- names outside the catalogues
BAD_NAMES = {
    "state": ["not_a_name", "", "X0", "Z0_Z0", "z2", " z0", "z0_", "bell", "GHZ", "01x2"],
    "povm": ["not_a_name", "", "X", "Bell", "xx", "z0", "x_", "01z3", "z4"],
    "gate": ["not_a_name", "", "X90", "CX", "Hadamard", "x45", "cnot", "01x45", "ii90", "01xi90_01xi90", "01xi270"],
    "mprocess": ["not_a_name", "", "X-type1", "x-type3", "xtype1", "bell-type2", "x", "xxparity-type2"],
    "ensemble": ["not_a_name", "", "Z0", "z0_z0", "bell_phi_plus", "01z0"],
}
# names that the dispatchers accept although no catalogue lists them (kept apart: signature .../unlisted-name/accepted)
HIDDEN_NAMES = {"povm": [("xxparity", "2qubit"), ("zzparity", "2qubit"), ("xx-parity", "2qubit")]}
# (catalogue, name, system it does NOT belong to)
WRONG_SYSTEM = [
    ("state", "z0_z0", "1qubit"), ("state", "z0", "2qubit"), ("state", "01x0", "1qubit"), ("state", "z0", "1qutrit"),
    ("state", "ghz", "2qubit"), ("state", "01x0_01x0", "1qutrit"),
    ("povm", "x", "2qubit"), ("povm", "x_x", "1qubit"), ("povm", "z3", "1qubit"), ("povm", "x", "1qutrit"), ("povm", "bell", "3qubit"),
    ("gate", "cx", "1qubit"), ("gate", "x", "2qubit"), ("gate", "x", "1qutrit"), ("gate", "01x90", "1qubit"),
    ("gate", "toffoli", "2qubit"), ("gate", "01xi90", "1qutrit"), ("gate", "hadamard", "3qubit"), ("gate", "swap", "3qubit"),
    ("mprocess", "x-type1", "2qubit"), ("mprocess", "bell-type1", "1qubit"), ("mprocess", "z3-type1", "1qubit"), ("mprocess", "z-type2", "1qutrit"),
    ("ensemble", "z0", "2qubit"), ("ensemble", "x0", "1qutrit"),
]
WRONG_IDS = [("cx", "2qubit", None), ("cx", "2qubit", []), ("cx", "2qubit", [0]), ("cx", "2qubit", [0, 0]), ("cx", "2qubit", [0, 1, 2]),
             ("zx90", "2qubit", [1]), ("zx90", "2qubit", [1, 1]), ("toffoli", "3qubit", [0, 1]), ("toffoli", "3qubit", None),
             ("fredkin", "3qubit", [0, 1, 2, 3]), ("fredkin", "3qubit", [0])]


def dispatchers(cat, name, system, ids="default"):
    """every generate_*_from_name / generate_*_object dispatcher of a catalogue as (label, thunk)"""
    c_sys = csys(system)
    _, n, dims = SYSTEMS[system]
    dims = list(dims)
    if ids == "default":
        ids = list(range(n))
    out = []
    if cat == "state":
        out += [("generate_state_pure_state_vector_from_name", lambda: ST.generate_state_pure_state_vector_from_name(name)),
                ("generate_state_density_mat_from_name", lambda: ST.generate_state_density_mat_from_name(name)),
                ("generate_state_density_matrix_vector_from_name", lambda: ST.generate_state_density_matrix_vector_from_name(c_sys.basis(), name)),
                ("generate_state_from_name", lambda: ST.generate_state_from_name(c_sys, name)),
                ("generate_qoperation", lambda: QT.generate_qoperation("state", name, c_sys))]
        for f in STATE_FORMS:
            out += [(f"state_typical-dispatcher:{f}", lambda f=f: ST.generate_state_object_from_state_name_object_name(name, f, c_sys)),
                    (f"generate_state_object:{f}", lambda f=f: QT.generate_state_object(name, f, c_sys)),
                    (f"generate_qoperation_object:{f}", lambda f=f: QT.generate_qoperation_object(mode="state", name=name, object_name=f, c_sys=c_sys))]
    elif cat == "povm":
        out += [("generate_povm_pure_state_vectors_from_name", lambda: PT.generate_povm_pure_state_vectors_from_name(name)),
                ("generate_povm_matrices_from_name", lambda: PT.generate_povm_matrices_from_name(name)),
                ("generate_povm_vectors_from_name", lambda: PT.generate_povm_vectors_from_name(name, c_sys.basis())),
                ("generate_povm_from_name", lambda: PT.generate_povm_from_name(name, c_sys)),
                ("generate_qoperation", lambda: QT.generate_qoperation("povm", name, c_sys))]
        for f in ["pure_state_vectors", "matrices", "vectors", "povm"]:
            out += [(f"povm_typical-dispatcher:{f}", lambda f=f: PT.generate_povm_object_from_povm_name_object_name(name, f, c_sys=c_sys, basis=c_sys.basis())),
                    (f"generate_povm_object:{f}", lambda f=f: QT.generate_povm_object(name, f, c_sys)),
                    (f"generate_qoperation_object:{f}", lambda f=f: QT.generate_qoperation_object(mode="povm", name=name, object_name=f, c_sys=c_sys))]
    elif cat == "gate":
        out += [("generate_unitary_mat_from_gate_name", lambda: GT.generate_unitary_mat_from_gate_name(name, dims, ids)),
                ("generate_gate_mat_from_gate_name", lambda: GT.generate_gate_mat_from_gate_name(name, dims, ids)),
                ("generate_gate_from_gate_name", lambda: GT.generate_gate_from_gate_name(name, c_sys, ids)),
                ("generate_qoperation", lambda: QT.generate_qoperation("gate", name, c_sys, ids=ids)),
                ("generate_hamiltonian_vec_from_gate_name", lambda: LT.generate_hamiltonian_vec_from_gate_name(name, dims, ids)),
                ("generate_hamiltonian_mat_from_gate_name", lambda: LT.generate_hamiltonian_mat_from_gate_name(name, dims, ids)),
                ("generate_effective_lindbladian_mat_from_gate_name", lambda: LT.generate_effective_lindbladian_mat_from_gate_name(name, dims, ids)),
                ("generate_effective_lindbladian_from_gate_name", lambda: LT.generate_effective_lindbladian_from_gate_name(name, c_sys, ids))]
        for f in GATE_FORMS:
            out += [(f"gate_typical-dispatcher:{f}", lambda f=f: GT.generate_gate_object_from_gate_name_object_name(name, f, dims, ids, c_sys)),
                    (f"generate_gate_object:{f}", lambda f=f: QT.generate_gate_object(name, f, dims, ids, c_sys)),
                    (f"generate_qoperation_object:{f}", lambda f=f: QT.generate_qoperation_object(mode="gate", name=name, object_name=f, dims=dims, ids=ids, c_sys=c_sys))]
        for f in LIND_FORMS:
            out += [(f"effective_lindbladian_typical-dispatcher:{f}", lambda f=f: LT.generate_effective_lindbladian_object_from_gate_name_object_name(name, f, dims, ids, c_sys)),
                    (f"generate_effective_lindbladian_object:{f}", lambda f=f: QT.generate_effective_lindbladian_object(name, f, dims, ids, c_sys))]
    elif cat == "mprocess":
        out += [("generate_mprocess_set_pure_state_vectors_from_name", lambda: MT.generate_mprocess_set_pure_state_vectors_from_name(name)),
                ("generate_mprocess_set_kraus_matrices_from_name", lambda: MT.generate_mprocess_set_kraus_matrices_from_name(name)),
                ("generate_mprocess_hss_from_name", lambda: MT.generate_mprocess_hss_from_name(name, c_sys)),
                ("generate_mprocess_from_name", lambda: MT.generate_mprocess_from_name(c_sys, name)),
                ("generate_qoperation", lambda: QT.generate_qoperation("mprocess", name, c_sys))]
        for f in ["set_pure_state_vectors", "set_kraus_matrices", "hss", "mprocess"]:
            out += [(f"mprocess_typical-dispatcher:{f}", lambda f=f: MT.generate_mprocess_object_from_mprocess_name_object_name(name, f, c_sys)),
                    (f"generate_mprocess_object:{f}", lambda f=f: QT.generate_mprocess_object(name, f, c_sys)),
                    (f"generate_qoperation_object:{f}", lambda f=f: QT.generate_qoperation_object(mode="mprocess", name=name, object_name=f, c_sys=c_sys))]
    elif cat == "ensemble":
        out += [("generate_state_ensemble_elements_from_name", lambda: ET.generate_state_ensemble_elements_from_name(name, c_sys)),
                ("generate_state_ensemble_from_name", lambda: ET.generate_state_ensemble_from_name(c_sys, name)),
                ("state_ensemble_typical-dispatcher", lambda: ET.generate_state_ensemble_object_from_state_ensemble_name_object_name(name, "state_ensemble", c_sys)),
                ("generate_state_ensemble_object", lambda: QT.generate_state_ensemble_object(name, "state_ensemble", c_sys)),
                ("generate_qoperation_object", lambda: QT.generate_qoperation_object(mode="state_ensemble", name=name, object_name="state_ensemble", c_sys=c_sys))]
    return out


# dispatcher labels (or object_name after the colon) whose call uses the composite system: only these can notice a wrong system
_USES_CSYS = {
    "generate_state_density_matrix_vector_from_name", "generate_state_from_name", "generate_qoperation", "density_matrix_vector", "state",
    "generate_povm_vectors_from_name", "generate_povm_from_name", "vectors", "povm",
    "generate_gate_from_gate_name", "generate_effective_lindbladian_from_gate_name", "gate", "effective_lindbladian",
    "generate_mprocess_hss_from_name", "generate_mprocess_from_name", "hss", "mprocess",
    "generate_state_ensemble_elements_from_name", "generate_state_ensemble_from_name", "state_ensemble_typical-dispatcher",
    "generate_state_ensemble_object", "generate_qoperation_object",
}


def _uses_csys(label):
    return label.split(":")[-1] in _USES_CSYS


# ----------------------------------------------------------------------------- structured near-miss names
_NEAR_CACHE = {}


def near_miss_names(seed=0):
    """[(catalogue, family, name, system)]: names assembled from the catalogues' OWN building blocks (valid labels of the
    single systems, the multi-system 'typical' names, the 2-qutrit base names) that are NOT in get_*_names():
      mixed      qubit and qutrit labels in one product               (z0_01x0, x_z3, x-type1_z3-type1, x_01x90)
      factors    one factor more than the largest listed system       (z0_z0_z0_z0, 01z0_01z0_01z0, x_x_x_x)
      product    a '_'-product where the catalogue lists no products  (gate x_y, m-process x-type1_z-type1, ensemble z0_x0,
                 2-qutrit gate base_base with equal bases / three bases)
      typical    a multi-system typical name times a single label     (bell_phi_plus_z0, ghz_z0, bell_x)
      separator  a LISTED product with wrong separator / affix / case (z0-z0, z0__z0, z0_z0_, _z0_z0, 'z0 z0', z0z0, Z0_Z0)
    Every dispatcher must raise for each of them.  The selection is deterministic in `seed`; membership is re-checked
    against the catalogue, so a name that a (changed) catalogue does list is never probed as a near-miss."""
    if seed in _NEAR_CACHE:
        return _NEAR_CACHE[seed]
    import random as _random
    rng = _random.Random(f"C17-near-miss-{seed}")
    out, seen = [], set()

    def pick(lst, k):
        lst = sorted(lst)
        return lst if len(lst) <= k else sorted(rng.sample(lst, k))

    def add(cat, fam, name, system, listed):
        if name not in listed and (cat, name) not in seen:
            seen.add((cat, name))
            out.append((cat, fam, name, system))

    def plain(names):      # labels that contain no separator themselves
        return [n for n in names if "_" not in n]

    def typical(multi, singles):   # names of a multi-system list that are not '_'-products of single labels
        ss = set(singles)
        return [n for n in multi if not all(t in ss for t in n.split("_"))]

    def separators(cat, good, system, listed):
        a = good
        for bad in (a.replace("_", "-", 1), a.replace("_", "__", 1), a + "_", "_" + a, a.replace("_", " ", 1),
                    a.replace("_", "", 1), a.upper(), a.replace("_", "_ ", 1)):
            if bad != a:
                add(cat, "separator", bad, system, listed)

    # ---- states
    listed = set(ST.get_state_names())
    q1, t1 = plain(ST.get_state_names_1qubit()), plain(ST.get_state_names_1qutrit())
    ty2 = typical(ST.get_state_names_2qubit(), q1)
    ty3 = typical(ST.get_state_names_3qubit(), q1 + ty2)
    tyt = typical(ST.get_state_names_2qutrit(), t1)
    for a, b in zip(pick(q1, 4), pick(t1, 4)):
        add("state", "mixed", f"{a}_{b}", "2qubit", listed)
        add("state", "mixed", f"{b}_{a}", "2qutrit", listed)
        add("state", "mixed", f"{a}_{b}_{a}", "3qubit", listed)
        add("state", "mixed", f"{b}_{b}_{a}", "2qutrit", listed)
    for a, b in zip(pick(q1, 3), pick(q1, 3)[::-1]):
        add("state", "factors", f"{a}_{b}_{a}_{b}", "3qubit", listed)
    for a, b in zip(pick(t1, 3), pick(t1, 3)[::-1]):
        add("state", "factors", f"{a}_{b}_{a}", "2qutrit", listed)
    for t in pick(ty2, 2) + pick(ty3, 2):
        for a in pick(q1, 2):
            k = "3qubit"
            add("state", "typical", f"{t}_{a}_{a}" if t in ty2 else f"{t}_{a}", k, listed)
            add("state", "typical", f"{a}_{a}_{t}" if t in ty2 else f"{a}_{t}", k, listed)
            add("state", "typical", f"{t}_{t}", k, listed)
    for t in pick(tyt, 2) + pick([n for n in ST.get_state_names_1qutrit() if "_" in n], 1):
        for a in pick(t1, 2):
            add("state", "typical", f"{t}_{a}", "2qutrit", listed)
            add("state", "typical", f"{a}_{t}", "2qutrit", listed)
    for good, sysl in [(f"{a}_{b}", "2qubit") for a, b in zip(pick(q1, 2), pick(q1, 2)[::-1])] + \
                      [(f"{a}_{b}", "2qutrit") for a, b in zip(pick(t1, 1), pick(t1, 1))]:
        if good in listed:
            separators("state", good, sysl, listed)
    # ---- POVMs
    listed = set(PT.get_povm_names())
    q1, t1 = plain(PT.get_povm_names_1qubit()), plain(PT.get_povm_names_1qutrit())
    ty2 = typical(PT.get_povm_names_2qubit(), q1)
    for a, b in zip(pick(q1, 3), pick(t1, 3)):
        add("povm", "mixed", f"{a}_{b}", "2qubit", listed)
        add("povm", "mixed", f"{b}_{a}", "2qutrit", listed)
        add("povm", "mixed", f"{a}_{b}_{a}", "3qubit", listed)
    for a, b in zip(pick(q1, 2), pick(q1, 2)[::-1]):
        add("povm", "factors", f"{a}_{b}_{a}_{b}", "3qubit", listed)
    for a, b in zip(pick(t1, 2), pick(t1, 2)[::-1]):
        add("povm", "factors", f"{a}_{b}_{a}", "2qutrit", listed)
    for t in pick(ty2, 2):
        for a in pick(q1, 2):
            add("povm", "typical", f"{t}_{a}", "3qubit", listed)
            add("povm", "typical", f"{a}_{t}", "3qubit", listed)
    for good, sysl in [(f"{a}_{b}", "2qubit") for a, b in zip(pick(q1, 2), pick(q1, 2)[::-1])] + \
                      [(f"{a}_{b}", "2qutrit") for a, b in zip(pick(t1, 1), pick(t1, 1))]:
        if good in listed:
            separators("povm", good, sysl, listed)
    # ---- measurement processes (the catalogue lists no product at all)
    listed = set(mprocess_names())
    by = {}
    for n in mprocess_names():
        by.setdefault(ref_mprocess(n)[0], []).append(n)
    q1, t1, q2 = by.get("1qubit", []), by.get("1qutrit", []), by.get("2qubit", [])
    for a, b in zip(pick(q1, 3), pick(q1, 3)[::-1]):
        add("mprocess", "product", f"{a}_{b}", "2qubit", listed)
        add("mprocess", "factors", f"{a}_{b}_{a}", "3qubit", listed)
        separators("mprocess", f"{a}_{b}", "2qubit", listed | {f"{a}_{b}"})
    for a, b in zip(pick(t1, 2), pick(t1, 2)[::-1]):
        add("mprocess", "product", f"{a}_{b}", "2qutrit", listed)
    for a, b in zip(pick(q1, 2), pick(t1, 2)):
        add("mprocess", "mixed", f"{a}_{b}", "2qubit", listed)
        add("mprocess", "mixed", f"{b}_{a}", "2qutrit", listed)
    for t in pick(q2, 2):
        for a in pick(q1, 1):
            add("mprocess", "typical", f"{t}_{a}", "3qubit", listed)
            add("mprocess", "typical", f"{a}_{t}", "3qubit", listed)
    # ---- state ensembles (1-qubit names only)
    listed = set(ET.get_state_ensemble_names())
    e1 = plain(ET.get_state_ensemble_names())
    for a, b in zip(pick(e1, 3), pick(e1, 3)[::-1]):
        add("ensemble", "product", f"{a}_{b}", "2qubit", listed)
        separators("ensemble", f"{a}_{b}", "2qubit", listed | {f"{a}_{b}"})
    for a, b in zip(pick(e1, 2), pick(plain(ST.get_state_names_1qutrit()), 2)):
        add("ensemble", "mixed", f"{a}_{b}", "2qubit", listed)
        add("ensemble", "mixed", b, "1qutrit", listed)
    # ---- gates (and, through the same dispatcher list, effective Lindbladians)
    listed = set(GT.get_gate_names())
    g1, g2, g3 = plain(GT.get_gate_names_1qubit()), plain(GT.get_gate_names_2qubit()), plain(GT.get_gate_names_3qubit())
    gt = plain(GT.get_gate_names_1qutrit())
    sb = sorted(GT.get_gate_names_2qutrit_single_base_matrix())
    tb = sorted(GT.get_gate_names_2qutrit_two_base_matrices())
    for a, b in zip(pick(g1, 3), pick(g1, 3)[::-1]):
        add("gate", "product", f"{a}_{b}", "2qubit", listed)
        add("gate", "factors", f"{a}_{b}_{a}", "3qubit", listed)
    for a, b in zip(pick(g2, 2), pick(g1, 2)):
        add("gate", "typical", f"{a}_{b}", "3qubit", listed)
        add("gate", "typical", f"{b}_{a}", "3qubit", listed)
    for a, b in zip(pick(g1, 2), pick(gt, 2)):
        add("gate", "mixed", f"{a}_{b}", "2qubit", listed)
        add("gate", "mixed", f"{b}_{a}", "2qutrit", listed)
    for a, b in zip(pick(gt, 2), pick(gt, 2)[::-1]):
        add("gate", "product", f"{a}_{b}", "2qutrit", listed)
    for a, b in zip(pick(sb, 3), pick(sb, 3)[::-1]):
        add("gate", "product", f"{a}_{a}", "2qutrit", listed)               # equal bases
        add("gate", "factors", f"{a}_{b}_{a}", "2qutrit", listed)           # three bases
        add("gate", "product", f"{b}_{a}", "2qutrit", listed)               # (only if this order is not listed)
        add("gate", "mixed", f"{a}_{pick(g1, 1)[0]}", "2qutrit", listed)
    for good in pick(tb, 1):
        separators("gate", good, "2qutrit", listed)
    for good in pick(sb, 1):
        for bad in (good + "_", "_" + good, good.upper(), good[1:], good + "0"):
            add("gate", "separator", bad, "2qutrit", listed)
    _NEAR_CACHE[seed] = out
    return out


def near_miss_probes(seed=0):
    out = []
    for cat, fam, nm, sysl in near_miss_names(seed):
        for lab, th in dispatchers(cat, nm, sysl):
            out.append({"mode": f"near-miss-{fam}", "catalogue": cat, "name": nm, "system": sysl, "ids": None, "form": lab, "thunk": th})
    return out


def unknown_probes():
    """list of dicts {mode, catalogue, name, system, ids, form, thunk}; every thunk must raise"""
    out = []
    home = {"state": "1qubit", "povm": "1qubit", "gate": "2qubit", "mprocess": "1qubit", "ensemble": "1qubit"}
    good = {"state": "z0", "povm": "z", "gate": "cz", "mprocess": "z-type1"}
    heads = {"state": ["state_typical-dispatcher", "generate_state_object", "generate_qoperation_object"],
             "povm": ["povm_typical-dispatcher", "generate_povm_object", "generate_qoperation_object"],
             "gate": ["gate_typical-dispatcher", "generate_gate_object", "generate_qoperation_object",
                      "effective_lindbladian_typical-dispatcher", "generate_effective_lindbladian_object"],
             "mprocess": ["mprocess_typical-dispatcher", "generate_mprocess_object", "generate_qoperation_object"]}
    for cat, names in BAD_NAMES.items():
        for nm in names:
            for lab, th in dispatchers(cat, nm, home[cat]):
                out.append({"mode": "unknown-name", "catalogue": cat, "name": nm, "system": home[cat], "ids": None, "form": lab, "thunk": th})
        for head in heads.get(cat, []):       # valid name, object_name outside the listed forms
            for form in ("not_a_form", "", "State"):
                for lab, th in dispatchers_with_form(cat, good[cat], home[cat], head, form):
                    out.append({"mode": "unknown-form", "catalogue": cat, "name": good[cat], "system": home[cat], "ids": None, "form": lab, "thunk": th})
    for cat, lst in HIDDEN_NAMES.items():
        for nm, sysl in lst:
            for lab, th in dispatchers(cat, nm, sysl):
                out.append({"mode": "unlisted-name", "catalogue": cat, "name": nm, "system": sysl, "ids": None, "form": lab, "thunk": th})
    for cat, nm, sysl in WRONG_SYSTEM:
        for lab, th in dispatchers(cat, nm, sysl):
            if _uses_csys(lab):
                out.append({"mode": "wrong-system", "catalogue": cat, "name": nm, "system": sysl, "ids": None, "form": lab, "thunk": th})
    for nm, sysl, ids in WRONG_IDS:
        for lab, th in dispatchers("gate", nm, sysl, ids=ids):
            out.append({"mode": "wrong-ids", "catalogue": "gate", "name": nm, "system": sysl, "ids": ids, "form": lab, "thunk": th})
    return out


def dispatchers_with_form(cat, name, system, head, form):
    """the object dispatcher `head` of a catalogue called with an arbitrary object_name"""
    c_sys = csys(system)
    _, n, dims = SYSTEMS[system]
    dims, ids = list(dims), list(range(n))
    table = {
        ("state", "state_typical-dispatcher"): lambda: ST.generate_state_object_from_state_name_object_name(name, form, c_sys),
        ("state", "generate_state_object"): lambda: QT.generate_state_object(name, form, c_sys),
        ("state", "generate_qoperation_object"): lambda: QT.generate_qoperation_object(mode="state", name=name, object_name=form, c_sys=c_sys),
        ("povm", "povm_typical-dispatcher"): lambda: PT.generate_povm_object_from_povm_name_object_name(name, form, c_sys=c_sys, basis=c_sys.basis()),
        ("povm", "generate_povm_object"): lambda: QT.generate_povm_object(name, form, c_sys),
        ("povm", "generate_qoperation_object"): lambda: QT.generate_qoperation_object(mode="povm", name=name, object_name=form, c_sys=c_sys),
        ("gate", "gate_typical-dispatcher"): lambda: GT.generate_gate_object_from_gate_name_object_name(name, form, dims, ids, c_sys),
        ("gate", "generate_gate_object"): lambda: QT.generate_gate_object(name, form, dims, ids, c_sys),
        ("gate", "generate_qoperation_object"): lambda: QT.generate_qoperation_object(mode="gate", name=name, object_name=form, dims=dims, ids=ids, c_sys=c_sys),
        ("gate", "effective_lindbladian_typical-dispatcher"): lambda: LT.generate_effective_lindbladian_object_from_gate_name_object_name(name, form, dims, ids, c_sys),
        ("gate", "generate_effective_lindbladian_object"): lambda: QT.generate_effective_lindbladian_object(name, form, dims, ids, c_sys),
        ("mprocess", "mprocess_typical-dispatcher"): lambda: MT.generate_mprocess_object_from_mprocess_name_object_name(name, form, c_sys),
        ("mprocess", "generate_mprocess_object"): lambda: QT.generate_mprocess_object(name, form, c_sys),
        ("mprocess", "generate_qoperation_object"): lambda: QT.generate_qoperation_object(mode="mprocess", name=name, object_name=form, c_sys=c_sys),
    }
    t = table.get((cat, head))
    return [(head + ":" + form, t)] if t else []


def run_probe(p):
    """-> None if the dispatcher raised, else a description of what it returned"""
    try:
        got = p["thunk"]()
    except Exception as e:  # noqa
        if VERBOSE:
            print(f"   {p['form']}: raised {type(e).__name__}: {str(e)[:100]}")
        return None
    desc = f"returned {type(got).__name__}"
    if VERBOSE:
        print(f"   {p['form']}: {desc}: {_short(got) if isinstance(got, np.ndarray) else got!r}"[:400])
    return desc


def check_unknown(ctx):
    probes = unknown_probes()      # (the structured near-miss probes run inside the worker pool: kind "nearmiss")
    for p in probes:
        ctx.count(f"probe/{p['mode']}/{p['catalogue']}")
        ctx.case(("probe", p["mode"], p["catalogue"], p["system"], p["name"], tuple(p["ids"]) if p["ids"] else None, p["form"]), nontrivial=True)
        got = run_probe(p)
        if got is not None:
            ctx.violate(f"C17/{p['catalogue']}/{p['mode']}/accepted",
                        f"{p['form']} with name {p['name']!r} (system {p['system']}, ids {p['ids']}) {got} instead of raising",
                        {"kind": "probe", "mode": p["mode"], "catalogue": p["catalogue"], "name": p["name"], "system": p["system"],
                         "ids": p["ids"], "form": p["form"]})
    for cat, names in BAD_NAMES.items():
        if cat == "state":
            for nm in names:
                if ST.is_valid_state_name(nm) is not False:
                    ctx.violate("C17/state/unknown-name/is-valid", f"is_valid_state_name({nm!r}) is not False",
                                {"kind": "probe", "mode": "is-valid", "catalogue": "state", "name": nm, "system": "1qubit", "ids": None, "form": "is_valid_state_name"})
    for cat, fam, nm, sysl in near_miss_names(ctx.seed):
        if cat == "state" and ST.is_valid_state_name(nm) is not False:
            ctx.violate(f"C17/state/near-miss-{fam}/is-valid", f"is_valid_state_name({nm!r}) is not False although no get_state_names* list holds the name",
                        {"kind": "probe", "mode": "is-valid", "catalogue": "state", "name": nm, "system": sysl, "ids": None, "form": "is_valid_state_name"})
    return len(probes)


# ----------------------------------------------------------------------------- legacy named constructors
def legacy_items():
    """(family, label, thunk building the legacy object, catalogue kind, catalogue name, system, ids)"""
    out = []
    for fn, nm in (("get_i", "identity"), ("get_x", "x"), ("get_y", "y"), ("get_z", "z"), ("get_h", "hadamard"), ("get_root_x", "x90"),
                   ("get_root_y", "y90"), ("get_s", "phase"), ("get_sdg", "phase_daggered"), ("get_t", "piover8")):
        out.append(("gate", f"gate.{fn}", (lambda f=fn: getattr(GATE, f)(csys("1qubit"))), "gate", nm, "1qubit", None))
    out.append(("gate", "gate.get_i", lambda: GATE.get_i(csys("2qubit")), "gate", "identity", "2qubit", None))
    out.append(("gate", "gate.get_i", lambda: GATE.get_i(csys("1qutrit")), "gate", "identity", "1qutrit", None))
    for k in (0, 1):
        out.append(("gate", f"gate.get_cnot(control=system {k})",
                    (lambda k=k: GATE.get_cnot(csys("2qubit"), csys("2qubit").elemental_systems[k])), "gate", "cx", "2qubit", [k, 1 - k]))
    out.append(("gate", "gate.get_cz", lambda: GATE.get_cz(csys("2qubit")), "gate", "cz", "2qubit", [0, 1]))
    out.append(("gate", "gate.get_swap", lambda: GATE.get_swap(csys("2qubit")), "gate", "swap", "2qubit", [0, 1]))
    for mod, pre, modname in ((STATE, "get_", "state"), (ST, "get_state_", "state_typical")):
        for nm in ("x0", "x1", "y0", "y1", "z0", "z1", "a"):
            fn = f"{pre}{nm}_1q"
            if hasattr(mod, fn):
                out.append(("state", f"{modname}.{fn}", (lambda m=mod, f=fn: getattr(m, f)(csys("1qubit"))), "state", nm, "1qubit", None))
        fn = f"{pre}bell_2q"
        if hasattr(mod, fn):
            out.append(("state", f"{modname}.{fn}", (lambda m=mod, f=fn: getattr(m, f)(csys("2qubit"))), "state", "bell_phi_plus", "2qubit", None))
    for a in "xyz":
        out.append(("povm", f"povm.get_{a}_povm", (lambda a=a: getattr(POVM, f"get_{a}_povm")(csys("1qubit"))), "povm", a, "1qubit", None))
        for b in "xyz":
            out.append(("povm", f"povm.get_{a}{b}_povm", (lambda a=a, b=b: getattr(POVM, f"get_{a}{b}_povm")(csys("2qubit"))), "povm", f"{a}_{b}", "2qubit", None))
    return out


def check_legacy_item(it):
    fam, label, thunk, kind, name, system, ids = it
    r = Rec()
    B, c_sys = ref_basis(system), csys(system)
    d = B.shape[1]
    obj = r.call(label, thunk)
    if obj is None:
        return r.fails
    if kind == "gate":
        cat = r.call(label, GT.generate_gate_from_gate_name, name, c_sys, ids)
        if cat is not None:
            r.same("legacy-vs-catalogue", label, obj.hs, cat.hs, TOL, f"hs of {label} vs catalogue gate {name!r} ids {ids}")
        r.same("legacy-vs-textbook", label, obj.hs, hs_of_unitary(B, ref_unitary(name, system, ids)), TOL, "hs vs HS matrix of the textbook unitary")
    elif kind == "state":
        cat = r.call(label, ST.generate_state_from_name, c_sys, name)
        if cat is not None:
            r.same("legacy-vs-catalogue", label, obj.vec, cat.vec, TOL, f"vec of {label} vs catalogue state {name!r}")
        r.same("legacy-vs-textbook", label, mat_of(B, obj.vec), proj(ref_state(name, system)), TOL, "density matrix vs textbook")
    else:
        cat = r.call(label, PT.generate_povm_from_name, name, c_sys)
        if cat is not None:
            _listsame(r, "legacy-vs-catalogue", label, list(obj.vecs), list(cat.vecs), TOL, f"vecs of {label} vs catalogue POVM {name!r}")
        _listsame(r, "legacy-vs-textbook", label, [mat_of(B, v) for v in obj.vecs], ref_povm(name, system)[0], TOL, "elements vs textbook")
    ph = r.call(label, obj.is_physical)
    if ph is not None:
        r.true("is_physical-false", label, ph == True, f"is_physical() = {ph}")  # noqa: E712
    return r.fails


_ROT = {}


def rotated_csys(system):
    """the system with a NON-DEFAULT basis: orthonormal Hermitian, B_0 = 1/sqrt(d), the traceless elements of every
    elemental system mixed by a fixed generic rotation (neither symmetric nor involutive, so a swapped from/to basis or a
    transposed conversion matrix shows) -> (c_sys, dense total basis)"""
    if system in _ROT:
        return _ROT[system]
    import qobj
    from quara.objects.elemental_system import ElementalSystem
    from quara.objects.composite_system import CompositeSystem
    mode, n, dims = SYSTEMS[system]
    es = []
    for k in range(n):
        base = [np.asarray(dense(b), dtype=complex) for b in (MB.get_normalized_pauli_basis() if mode == "qubit" else MB.get_normalized_gell_mann_basis())]
        m = len(base) - 1
        rg = np.random.Generator(np.random.PCG64(1234 + 17 * k + m))
        O, _ = np.linalg.qr(rg.standard_normal((m, m)))
        nb = [base[0]] + [sum(O[a, c] * base[c + 1] for c in range(m)) for a in range(m)]
        es.append(ElementalSystem(k, MB.SparseMatrixBasis(nb)))
    c = CompositeSystem(es)
    B = np.array([np.asarray(dense(b), dtype=complex) for b in c.basis()])
    _ROT[system] = (c, B)
    return c, B


def check_other_basis():
    """objects generated on a composite system whose basis is not the default one must denote the SAME operators:
    catalogue states / POVMs / gates / Lindbladians and the legacy named constructors, compared with the textbook through
    the basis of that system"""
    r = Rec()
    for system in ("1qubit", "2qubit", "1qutrit"):
        c, B = rotated_csys(system)
        d = B.shape[1]
        names_s = dict(state_catalogue())[system]
        for nm in (names_s if system != "2qubit" else names_s[:6] + names_s[-4:]):
            o = r.call(f"generate_state_from_name@{system}", ST.generate_state_from_name, c, nm)
            if o is not None:
                r.same("other-basis/state", f"generate_state_from_name({nm!r})@{system}", mat_of(B, o.vec), proj(ref_state(nm, system)), TOL, "density matrix through the system's basis vs textbook")
        names_p = dict(povm_catalogue())[system]
        for nm in (names_p if system != "2qubit" else names_p[:5]):
            o = r.call(f"generate_povm_from_name@{system}", PT.generate_povm_from_name, nm, c)
            if o is not None:
                _listsame(r, "other-basis/povm", f"generate_povm_from_name({nm!r})@{system}", [mat_of(B, v) for v in o.vecs], ref_povm(nm, system)[0], TOL, "elements through the system's basis vs textbook")
        # catalogue gates / Lindbladians on a system with a non-default basis (known finding D17g: the generators do not
        # convert their Pauli / Gell-Mann-basis matrix to c_sys.basis(); separate signatures so that the states, POVMs and
        # legacy constructors above / below keep their own)
        for s_, nm, ids in gate_catalogue_small():
            if s_ != system:
                continue
            try:
                o = GT.generate_gate_from_gate_name(nm, c, ids)
                r.same("other-basis/gate", f"generate_gate_from_gate_name({nm!r}, ids={ids})@{system}", o.hs, hs_of_unitary(B, ref_unitary(nm, system, ids)), TOL, "hs in the system's basis vs HS matrix of the textbook unitary")
            except Exception as e:  # noqa
                r.fail("other-basis/gate-raises", f"generate_gate_from_gate_name({nm!r}, ids={ids})@{system}", f"{type(e).__name__}: {e}")
            try:
                l_ = LT.generate_effective_lindbladian_from_gate_name(nm, c, ids)
                r.same("other-basis/lindbladian", f"generate_effective_lindbladian_from_gate_name({nm!r}, ids={ids})@{system}", sla.expm(np.asarray(l_.hs, dtype=float)), hs_of_unitary(B, ref_unitary(nm, system, ids)), TOL, "expm(L) in the system's basis vs HS matrix of the textbook unitary")
            except Exception as e:  # noqa
                r.fail("other-basis/lindbladian-raises", f"generate_effective_lindbladian_from_gate_name({nm!r}, ids={ids})@{system}", f"{type(e).__name__}: {e}")
    # legacy named constructors on the rotated systems
    c1, B1 = rotated_csys("1qubit")
    c2, B2 = rotated_csys("2qubit")
    for fn, nm in (("get_i", "identity"), ("get_x", "x"), ("get_y", "y"), ("get_z", "z"), ("get_h", "hadamard"), ("get_root_x", "x90"),
                   ("get_root_y", "y90"), ("get_s", "phase"), ("get_sdg", "phase_daggered"), ("get_t", "piover8")):
        o = r.call(f"gate.{fn}", getattr(GATE, fn), c1)
        if o is not None:
            r.same("other-basis/legacy-gate", f"gate.{fn}", o.hs, hs_of_unitary(B1, ref_unitary(nm, "1qubit", None)), TOL, "hs in the system's basis vs textbook")
    for k in (0, 1):
        o = r.call("gate.get_cnot", GATE.get_cnot, c2, c2.elemental_systems[k])
        if o is not None:
            r.same("other-basis/legacy-gate", f"gate.get_cnot(control {k})", o.hs, hs_of_unitary(B2, ref_unitary("cx", "2qubit", [k, 1 - k])), TOL, "hs in the system's basis vs textbook")
    for fn, nm in (("get_cz", "cz"), ("get_swap", "swap")):
        o = r.call(f"gate.{fn}", getattr(GATE, fn), c2)
        if o is not None:
            r.same("other-basis/legacy-gate", f"gate.{fn}", o.hs, hs_of_unitary(B2, ref_unitary(nm, "2qubit", [0, 1])), TOL, "hs in the system's basis vs textbook")
    for mod, pre, modname in ((STATE, "get_", "state"), (ST, "get_state_", "state_typical")):
        for nm in ("x0", "x1", "y0", "y1", "z0", "z1", "a"):
            fn = f"{pre}{nm}_1q"
            if hasattr(mod, fn):
                o = r.call(f"{modname}.{fn}", getattr(mod, fn), c1)
                if o is not None:
                    r.same("other-basis/legacy-state", f"{modname}.{fn}", mat_of(B1, o.vec), proj(ref_state(nm, "1qubit")), TOL, "density matrix through the system's basis vs textbook")
        fn = f"{pre}bell_2q"
        if hasattr(mod, fn):
            o = r.call(f"{modname}.{fn}", getattr(mod, fn), c2)
            if o is not None:
                r.same("other-basis/legacy-state", f"{modname}.{fn}", mat_of(B2, o.vec), proj(ref_state("bell_phi_plus", "2qubit")), TOL, "density matrix through the system's basis vs textbook")
    for a in "xyz":
        o = r.call(f"povm.get_{a}_povm", getattr(POVM, f"get_{a}_povm"), c1)
        if o is not None:
            _listsame(r, "other-basis/legacy-povm", f"povm.get_{a}_povm", [mat_of(B1, v) for v in o.vecs], ref_povm(a, "1qubit")[0], TOL, "elements through the system's basis vs textbook")
        for b in "xyz":
            o = r.call(f"povm.get_{a}{b}_povm", getattr(POVM, f"get_{a}{b}_povm"), c2)
            if o is not None:
                _listsame(r, "other-basis/legacy-povm", f"povm.get_{a}{b}_povm", [mat_of(B2, v) for v in o.vecs], ref_povm(f"{a}_{b}", "2qubit")[0], TOL, "elements through the system's basis vs textbook")
    return r.fails


def check_parametric_channels(g):
    """legacy parametrised constructors in gate.py (not catalogue names): physical, and x-rotation = exp(-i theta X/2)"""
    r = Rec()
    B = ref_basis("1qubit")
    for _ in range(4):
        th = float(g.uniform(-math.pi, math.pi))
        o = r.call("gate.get_x_rotation", GATE.get_x_rotation, th)
        if o is not None:
            r.same("legacy-vs-textbook", "gate.get_x_rotation", o.hs, hs_of_unitary(B, _rot(PX, th)), TOL, f"theta={th}")
        p = float(g.uniform(0, 1))
        for lab, fn in (("gate.get_depolarizing_channel", GATE.get_depolarizing_channel), ("gate.get_amplitutde_damping_channel", GATE.get_amplitutde_damping_channel)):
            o = r.call(lab, fn, p)
            if o is not None:
                ch = choi_of_hs(B, o.hs)
                r.true("legacy-not-physical", lab, abs(o.hs[0, 0] - 1) < 1e-12 and np.abs(o.hs[0, 1:]).max() < 1e-12 and min_eig(ch) > -TOL and o.is_physical(),
                       f"parameter {p}: not CPTP (min eig {min_eig(ch):.2e})")
    return r.fails


# ----------------------------------------------------------------------------- textbook table: named gate on named state = named state
Q_TABLE = {   # 1 qubit, rotations exp(-i theta sigma/2): right-handed rotation of the Bloch vector
    "identity": {k: k for k in Q1},
    "x90": {"z0": "y1", "y1": "z1", "z1": "y0", "y0": "z0", "x0": "x0", "x1": "x1"},
    "x180": {"z0": "z1", "z1": "z0", "y0": "y1", "y1": "y0", "x0": "x0", "x1": "x1"},
    "y90": {"z0": "x0", "x0": "z1", "z1": "x1", "x1": "z0", "y0": "y0", "y1": "y1"},
    "y180": {"z0": "z1", "z1": "z0", "x0": "x1", "x1": "x0", "y0": "y0", "y1": "y1"},
    "z90": {"x0": "y0", "y0": "x1", "x1": "y1", "y1": "x0", "z0": "z0", "z1": "z1"},
    "z180": {"x0": "x1", "x1": "x0", "y0": "y1", "y1": "y0", "z0": "z0", "z1": "z1"},
    "zm90": {"x0": "y1", "y1": "x1", "x1": "y0", "y0": "x0", "z0": "z0", "z1": "z1"},
    "hadamard": {"z0": "x0", "x0": "z0", "z1": "x1", "x1": "z1", "y0": "y1", "y1": "y0"},
    "piover8": {"x0": "a", "z0": "z0", "z1": "z1"},
    "piover8_daggered": {"a": "x0", "z0": "z0", "z1": "z1"},
}
Q_TABLE["x"], Q_TABLE["y"], Q_TABLE["z"] = Q_TABLE["x180"], Q_TABLE["y180"], Q_TABLE["z180"]
Q_TABLE["phase"], Q_TABLE["phase_daggered"] = Q_TABLE["z90"], Q_TABLE["zm90"]


def named_actions():
    """(system, gate name, ids, input state name, output state name) from textbook definitions"""
    out = []
    for gname, tab in Q_TABLE.items():
        for a, b in tab.items():
            out.append(("1qubit", gname, None, a, b))
    zs = ["z0", "z1"]
    for c, t in ((0, 1), (1, 0)):
        for b0, b1 in itertools.product((0, 1), repeat=2):
            bits = [b0, b1]
            o = list(bits)
            o[t] ^= bits[c]
            out.append(("2qubit", "cx", [c, t], f"{zs[b0]}_{zs[b1]}", f"{zs[o[0]]}_{zs[o[1]]}"))
        plus = ["z0", "z0"]
        plus[c] = "x0"
        out.append(("2qubit", "cx", [c, t], "_".join(plus), "bell_phi_plus"))
        minus = ["z0", "z0"]
        minus[c] = "x1"
        out.append(("2qubit", "cx", [c, t], "_".join(minus), "bell_phi_minus"))
        # zx90 = exp(-i pi/4 Z_c X_t): target rotated by +-90 degrees about x depending on the control
        for cb, (tin, tout) in itertools.product((0, 1), (("z0", "y1"), ("y0", "z0"), ("x0", "x0"))):
            if cb == 1:
                tin, tout = {"z0": ("z0", "y0"), "y0": ("y0", "z1"), "x0": ("x0", "x0")}[tin]
            i_, o_ = [None, None], [None, None]
            i_[c] = o_[c] = zs[cb]
            i_[t], o_[t] = tin, tout
            out.append(("2qubit", "zx90", [c, t], "_".join(i_), "_".join(o_)))
    for ids in ([0, 1], [1, 0]):
        for a, b in itertools.product(Q1, repeat=2):
            out.append(("2qubit", "swap", ids, f"{a}_{b}", f"{b}_{a}"))
        for b0, b1 in itertools.product((0, 1), repeat=2):
            out.append(("2qubit", "cz", ids, f"{zs[b0]}_{zs[b1]}", f"{zs[b0]}_{zs[b1]}"))
        out += [("2qubit", "cz", ids, "z1_x0", "z1_x1"), ("2qubit", "cz", ids, "x0_z1", "x1_z1"), ("2qubit", "cz", ids, "z0_x0", "z0_x0"),
                ("2qubit", "cz", ids, "y0_z1", "y1_z1"),
                # zz90 = exp(-i pi/4 Z Z): the other qubit rotated by +-90 degrees about z
                ("2qubit", "zz90", ids, "z0_x0", "z0_y0"), ("2qubit", "zz90", ids, "z1_x0", "z1_y1"), ("2qubit", "zz90", ids, "x0_z0", "y0_z0"),
                ("2qubit", "zz90", ids, "y0_z1", "x0_z1"), ("2qubit", "zz90", ids, "z1_z0", "z1_z0")]
    for ids in itertools.permutations(range(3)):
        for bits in itertools.product((0, 1), repeat=3):
            o = list(bits)
            o[ids[2]] ^= bits[ids[0]] & bits[ids[1]]
            out.append(("3qubit", "toffoli", list(ids), "_".join(zs[b] for b in bits), "_".join(zs[b] for b in o)))
            o = list(bits)
            if bits[ids[0]]:
                o[ids[1]], o[ids[2]] = o[ids[2]], o[ids[1]]
            out.append(("3qubit", "fredkin", list(ids), "_".join(zs[b] for b in bits), "_".join(zs[b] for b in o)))
    # qutrit: two-level rotations act on the two named levels like the qubit gates, the third level is untouched
    for lv in ("01", "12", "02"):
        rest = ({0, 1, 2} - {int(lv[0]), int(lv[1])}).pop()
        spect = {0: "01z0", 1: "01z1", 2: "02z1"}[rest]
        for ax, ang in itertools.product("xyz", ("90", "180")):
            for a, b in Q_TABLE[ax + ang].items():
                out.append(("1qutrit", lv + ax + ang, None, lv + a, lv + b))
            out.append(("1qutrit", lv + ax + ang, None, spect, spect))
    # 2 qutrits: single base matrix with the identity on one side acts like the 1-qutrit gate on the other side
    for lv, ax, ang in itertools.product(("01", "12", "02"), "xyz", ("90", "180")):
        for a, b in list(Q_TABLE[ax + ang].items())[:3]:
            out.append(("2qutrit", f"{lv}{ax}i{ang}", [0, 1], f"{lv}{a}_12y0", f"{lv}{b}_12y0"))
            out.append(("2qutrit", f"i{lv}{ax}{ang}", [0, 1], f"02x1_{lv}{a}", f"02x1_{lv}{b}"))
    return out


def check_named_action(item):
    system, gname, ids, sin, sout = item
    r = Rec()
    c_sys, B = csys(system), ref_basis(system)
    form = f"{sin}->{sout}"
    gate = r.call(form, GT.generate_gate_from_gate_name, gname, c_sys, ids)
    s_in = r.call(form, ST.generate_state_from_name, c_sys, sin)
    s_out = r.call(form, ST.generate_state_from_name, c_sys, sout)
    if gate is None or s_in is None or s_out is None:
        return r.fails
    res = r.call(form, compose_qoperations, gate, s_in)
    if res is not None:
        cls = ids_class(system, ids)
        ok = r.same("named-action" + cls, form, mat_of(B, res.vec), proj(ref_state(sout, system)), TOL, f"{gname}{ids or ''} on {sin}: density matrix vs textbook {sout}")
        if ok:
            r.same("named-action-vs-catalogue-state" + cls, form, res.vec, s_out.vec, TOL, f"{gname}{ids or ''} on {sin} vs catalogue state {sout}")
    return r.fails


# ----------------------------------------------------------------------------- named bases and composite systems
def _gram(mats):
    m = np.array([np.asarray(dense(x), dtype=complex).reshape(-1) for x in mats])
    return m.conj() @ m.T


def check_bases():
    """-> list of (family, fails)"""
    res = []

    def fam(name):
        r = Rec()
        res.append((name, r))
        return r

    r = fam("comp")
    for d in (2, 3, 4, 9):
        for mode in ("row_major", "column_major"):
            b = r.call(f"get_comp_basis({d},{mode})", MB.get_comp_basis, d, mode)
            if b is None:
                continue
            r.true("basis-size", f"dim {d}", len(b) == d * d and b.dim == d, f"{len(b)} elements")
            ok = True
            for k, m in enumerate(b):
                i, j = (k // d, k % d) if mode == "row_major" else (k % d, k // d)
                e = np.zeros((d, d))
                e[i, j] = 1
                ok &= np.array_equal(dense(m), e)
            r.true("comp-basis-elements", f"dim {d} {mode}", ok, "element k is not the matrix unit E_ij")
    r = fam("pauli")
    for n in (1, 2, 3):
        b = r.call(f"get_pauli_basis({n})", MB.get_pauli_basis, n)
        nb = r.call(f"get_normalized_pauli_basis({n})", MB.get_normalized_pauli_basis, n)
        ref = [kron_all(list(t)) for t in itertools.product(PAULI, repeat=n)]
        if b is not None:
            _listsame(r, "basis-vs-textbook", f"get_pauli_basis({n})", list(b), ref, 1e-14, "Pauli tensor product")
            r.same("basis-not-orthogonal", f"get_pauli_basis({n})", _gram(b), 2 ** n * np.eye(4 ** n), 1e-12, "Gram matrix")
        if nb is not None:
            _listsame(r, "basis-vs-textbook", f"get_normalized_pauli_basis({n})", list(nb), [m / math.sqrt(2 ** n) for m in ref], 1e-14, "normalised Pauli")
            r.same("basis-not-orthonormal", f"get_normalized_pauli_basis({n})", _gram(nb), np.eye(4 ** n), 1e-12, "Gram matrix")
            r.true("basis-flags", f"get_normalized_pauli_basis({n})", nb.is_hermitian() and nb.is_orthogonal() and nb.is_normal() and nb.is_0thpropI() and nb.is_trace_less(),
                   "quara's own is_hermitian/is_orthogonal/is_normal/is_0thpropI/is_trace_less")
    r = fam("gell-mann")
    b = r.call("get_gell_mann_basis", MB.get_gell_mann_basis)
    nb = r.call("get_normalized_gell_mann_basis", MB.get_normalized_gell_mann_basis)
    if b is not None:
        _listsame(r, "basis-vs-textbook", "get_gell_mann_basis", list(b), GM9, 1e-14, "Gell-Mann matrix")
        r.same("basis-not-orthogonal", "get_gell_mann_basis", _gram(b), 2 * np.eye(9), 1e-12, "Gram matrix")
    if nb is not None:
        _listsame(r, "basis-vs-textbook", "get_normalized_gell_mann_basis", list(nb), [m * S2 for m in GM9], 1e-14, "normalised Gell-Mann matrix")
        r.same("basis-not-orthonormal", "get_normalized_gell_mann_basis", _gram(nb), np.eye(9), 1e-12, "Gram matrix")
        r.true("basis-flags", "get_normalized_gell_mann_basis", nb.is_hermitian() and nb.is_orthogonal() and nb.is_normal() and nb.is_0thpropI() and nb.is_trace_less(), "quara's own flags")
    r = fam("generalized-gell-mann")
    for d in (2, 3, 4):
        for n in ((1, 2) if d < 4 else (1,)):
            b = r.call(f"get_generalized_gell_mann_basis({n},{d})", MB.get_generalized_gell_mann_basis, n, d)
            nb = r.call(f"get_normalized_generalized_gell_mann_basis({n},{d})", MB.get_normalized_generalized_gell_mann_basis, n, d)
            if b is not None:
                g = _gram(b)
                r.same("basis-not-orthogonal", f"generalized({n},{d})", g, 2 ** n * np.eye(d ** (2 * n)), 1e-12, "Gram matrix")
                r.true("basis-not-hermitian", f"generalized({n},{d})", all(herm_dev(dense(m)) < 1e-14 for m in b), "element not Hermitian")
            if nb is not None:
                r.same("basis-not-orthonormal", f"normalized_generalized({n},{d})", _gram(nb), np.eye(d ** (2 * n)), 1e-12, "Gram matrix")
                r.true("basis-not-hermitian", f"normalized_generalized({n},{d})", all(herm_dev(dense(m)) < 1e-14 for m in nb), "element not Hermitian")
                r.same("basis-0th-not-identity", f"normalized_generalized({n},{d})", dense(nb[0]), np.eye(d ** n) / math.sqrt(d ** n), 1e-14, "0th element")
                if d == 3:
                    one = [m * S2 for m in GM9]
                    _listsame(r, "basis-vs-textbook", f"normalized_generalized({n},3)", list(nb), [kron_all(list(t)) for t in itertools.product(one, repeat=n)], 1e-14, "Gell-Mann tensor product")
                if d == 2:
                    one = [m * S2 for m in PAULI]
                    _listsame(r, "basis-vs-textbook", f"normalized_generalized({n},2)", list(nb), [kron_all(list(t)) for t in itertools.product(one, repeat=n)], 1e-14, "Pauli tensor product")
    r = fam("hermitian")
    for d in (2, 3, 4):
        b = r.call(f"get_hermitian_basis({d})", MB.get_hermitian_basis, d)
        nb = r.call(f"get_normalized_hermitian_basis({d})", MB.get_normalized_hermitian_basis, d)
        for lab, x in (("get_hermitian_basis", b), ("get_normalized_hermitian_basis", nb)):
            if x is None:
                continue
            g = _gram(x)
            r.true("basis-not-hermitian", f"{lab}({d})", all(herm_dev(dense(m)) < 1e-14 for m in x), "element not Hermitian")
            r.true("basis-not-orthogonal", f"{lab}({d})", len(x) == d * d and np.abs(g - np.diag(np.diag(g))).max() < 1e-12 and np.linalg.matrix_rank(g) == d * d, "not an orthogonal basis")
            if x is nb:
                r.same("basis-not-orthonormal", f"{lab}({d})", g, np.eye(d * d), 1e-12, "Gram matrix")
    r = fam("composite-system")
    for system, (mode, n, dims) in SYSTEMS.items():
        for kw in ({}, {"is_sparse": True}, {"ids_esys": [7 + 3 * k for k in range(n)]}):
            lab = f"generate_composite_system({mode},{n},{kw})"
            c = r.call(lab, generate_composite_system, mode, n, **kw)
            if c is None:
                continue
            r.true("csys-shape", lab, c.dim == int(np.prod(dims)) and c.num_e_sys == n and [c.dim_e_sys(k) for k in range(n)] == list(dims),
                   f"dim {c.dim} num_e_sys {c.num_e_sys}")
            if "ids_esys" in kw:
                r.true("csys-names", lab, [e.name for e in c.elemental_systems] == kw["ids_esys"], "elemental system names")
            bs = r.call(lab, c.basis)
            if bs is not None:
                _listsame(r, "csys-basis-vs-textbook", lab, [dense(m) for m in bs], list(ref_basis(system)), 1e-14, "basis element (tensor structure)")
                r.true("csys-basis-flags", lab, c.is_orthonormal_hermitian_0thprop_identity is True or c.is_orthonormal_hermitian_0thprop_identity == True,  # noqa: E712
                       "is_orthonormal_hermitian_0thprop_identity")
            cb = r.call(lab, c.comp_basis)
            if cb is not None:
                d = c.dim
                ok = len(cb) == d * d and all(np.array_equal(dense(m), np.eye(d * d)[k].reshape(d, d)) for k, m in enumerate(cb))
                r.true("csys-comp-basis", lab, ok, "comp_basis element k is not E_ij (row-major)")
    for mode, bad in (("qubyte", 1), ("qubit", 0)):
        try:
            generate_composite_system(mode, bad)
            res[-1][1].fail("csys-bad-mode-accepted", f"generate_composite_system({mode!r},{bad})", "returned a system")
        except Exception:  # noqa
            pass
    return [(f, r.fails) for f, r in res]


def check_tester():
    """tester_typical builds its states/POVMs by name through the same dispatchers"""
    r = Rec()
    for system, names, pnames in (("1qubit", ST.get_state_names_1qubit(), PT.get_povm_names_1qubit()),
                                  ("1qutrit", ST.get_state_names_1qutrit(), PT.get_povm_names_1qutrit()),
                                  ("2qubit", ["z0", "x0", "y1", "a"], ["x", "z"]), ("2qutrit", ["01z0", "12y1"], ["z2", "01x3"])):
        c_sys, B = csys(system), ref_basis(system)
        n = SYSTEMS[system][1]
        st = r.call(f"generate_tester_states({system})", TT.generate_tester_states, c_sys, list(names))
        if st is not None:
            want = [proj(ref_state("_".join(t), system)) for t in itertools.product(names, repeat=n)]
            _listsame(r, "tester-states", system, [mat_of(B, s.vec) for s in st], want, TOL, "tester state vs textbook product state")
        pv = r.call(f"generate_tester_povms({system})", TT.generate_tester_povms, c_sys, list(pnames))
        if pv is not None:
            want = [ref_povm("_".join(t), system)[0] for t in itertools.product(pnames, repeat=n)]
            r.true("tester-povms", system, len(pv) == len(want), f"{len(pv)} POVMs")
            for p, w in zip(pv, want):
                _listsame(r, "tester-povms", system, [mat_of(B, v) for v in p.vecs], w, TOL, "tester POVM element vs textbook")
        for bad in (["not_a_name"], ["z0", "Z1"]):
            try:
                TT.generate_tester_states(c_sys, bad)
                r.fail("tester-unknown-name-accepted", system, f"generate_tester_states accepted {bad}")
            except Exception:  # noqa
                pass
            try:
                TT.generate_tester_povms(c_sys, bad)
                r.fail("tester-unknown-name-accepted", system, f"generate_tester_povms accepted {bad}")
            except Exception:  # noqa
                pass
    return r.fails


# ----------------------------------------------------------------------------- task runner (fork pool)
def _forms_of(kind, flag=True):
    if kind == "state":
        return STATE_FORMS
    if kind == "povm":
        return list(PT.get_povm_object_names())
    if kind == "gate":
        return list(QT.get_gate_object_names())
    if kind == "lindbladian":
        return [f for f in QT.get_effective_lindbladian_object_names() if flag or f != "effective_lindbladian"]
    if kind == "mprocess":
        return list(MT.get_mprocess_object_names())
    if kind == "ensemble":
        return ENSEMBLE_FORMS
    return ["-"]


def run_task(t):
    """t = (kind, system, name, ids, flag) -> list of (kind, system, name, ids, flag, fails)"""
    kind, system, name, ids, flag = t
    if kind == "nearmiss":      # flag = (catalogue, family); result = [(dispatcher label, None | what it returned)]
        try:
            return [(kind, system, name, ids, flag, [(lab, run_probe({"thunk": th, "form": lab})) for lab, th in dispatchers(flag[0], name, system)])]
        except Exception as e:  # noqa
            return [(kind, system, name, ids, flag, [("harness-crash", f"{type(e).__name__}: {e}")])]
    try:
        if kind == "state":
            return [(kind, system, name, ids, flag, check_state(system, name))]
        if kind == "povm":
            return [(kind, system, name, ids, flag, check_povm(system, name))]
        if kind == "gate":
            gf, lf = check_gate(system, name, ids, lind_obj=(flag is True), skip_lind=(flag == "nolind"))
            if flag == "nolind":    # (thorough-tier cost) gate entry only; the Lindbladian entry of this name is not in the sample
                return [("gate", system, name, ids, False, gf)]
            return [("gate", system, name, ids, flag, gf), ("lindbladian", system, name, ids, flag, lf)]
        if kind == "mprocess":
            s, f = check_mprocess(name)
            return [(kind, s, name, ids, flag, f)]
        if kind == "ensemble":
            return [(kind, system, name, ids, flag, check_ensemble(name))]
        if kind == "action":
            it = named_actions()[flag]
            return [(kind, system, name, ids, flag, check_named_action(it))]
        if kind == "legacy":
            it = legacy_items()[flag]
            return [(kind, it[0], it[1], ids, flag, check_legacy_item(it))]
    except Exception as e:  # noqa  harness-side crash: surfaces as a violation of its own kind, never swallowed
        import traceback
        return [(kind, system, name, ids, flag, [{"check": "harness-crash", "form": "-", "msg": f"{type(e).__name__}: {e} | {traceback.format_exc()[-400:]}"}])]
    raise ValueError(kind)


def _run_chunk(chunk):
    return [run_task(t) for t in chunk]


def n_workers():
    env = os.environ.get("C17_WORKERS")
    if env:
        return max(1, int(env))
    return max(1, min(os.cpu_count() or 1, 16) - 2)


def run_tasks(tasks, chunk, tasks2=(), chunk2=1):
    """one fork pool over deterministic contiguous chunks of the (ordered) task lists; results come back in task order"""
    chunks = [tasks[i:i + chunk] for i in range(0, len(tasks), chunk)]
    tasks2 = list(tasks2)
    # expensive entries (3-qubit gates) in chunks of their own so that they do not queue behind each other
    slow = [t for t in tasks2 if t[0] == "gate" and t[1] == "3qubit"]
    rest = [t for t in tasks2 if not (t[0] == "gate" and t[1] == "3qubit")]
    chunks = [[t] for t in slow] + chunks + [rest[i:i + chunk2] for i in range(0, len(rest), chunk2)]
    nw = n_workers()
    if nw <= 1 or len(chunks) <= 1:
        return [r for c in chunks for tr in _run_chunk(c) for r in tr]
    try:
        ctxmp = multiprocessing.get_context("fork")
        with ctxmp.Pool(nw) as pool:
            res = pool.map(_run_chunk, chunks, chunksize=1)     # ordered like `chunks`
    except (OSError, ValueError):
        res = [_run_chunk(c) for c in chunks]
    return [r for c in res for tr in c for r in tr]


def _register(ctx, results):
    for kind, system, name, ids, flag, fails in results:
        if kind == "nearmiss":
            cat, fam = flag
            for lab, got in fails:
                ctx.count(f"probe/near-miss-{fam}/{cat}")
                ctx.case(("probe", f"near-miss-{fam}", cat, system, name, None, lab), nontrivial=True)
                ctx.n_near = getattr(ctx, "n_near", 0) + 1
                if got is not None:
                    ctx.violate(f"C17/{cat}/near-miss-{fam}/accepted",
                                f"{lab} with name {name!r} (system {system}, ids None) {got} instead of raising",
                                {"kind": "probe", "mode": f"near-miss-{fam}", "catalogue": cat, "name": name, "system": system,
                                 "ids": None, "form": lab})
            continue
        ctx.count(f"{kind}/{system}")
        for form in _forms_of(kind, flag):
            ctx.case((kind, system, name, tuple(ids) if ids else None, form), nontrivial=(name != "identity"),
                     sample={"catalogue": kind, "system": system, "name": name, "ids": ids, "form": form})
        for f in fails:
            rep = {"kind": kind, "name": name, "system": system, "ids": ids, "form": f["form"], "check": f["check"]}
            if kind in ("action", "legacy"):
                rep["index"] = flag
            if kind in ("gate", "lindbladian"):
                rep["lind_obj"] = bool(flag)
            # a check named "@family/check" is a defect of a whole family (not of one system)
            sig = f"C17/{kind}/{f['check'][1:]}" if f["check"].startswith("@") else f"C17/{kind}/{system}/{f['check']}"
            ctx.violate(sig, f"{name} on {system} ids={ids} [{f['form']}]: {f['msg']}", rep)


def small_tasks():
    tasks = []
    for system, names in state_catalogue():
        tasks += [("state", system, n, None, True) for n in names]
    for system, names in povm_catalogue():
        tasks += [("povm", system, n, None, True) for n in names]
    tasks += [("mprocess", "-", n, None, True) for n in mprocess_names()]
    tasks += [("ensemble", "1qubit", n, None, True) for n in ET.get_state_ensemble_names()]
    tasks += [("gate", s, n, ids, True) for s, n, ids in gate_catalogue_small()]
    tasks += [("action", it[0], f"{it[1]}:{it[3]}->{it[4]}", it[2], k) for k, it in enumerate(named_actions())]
    tasks += [("legacy", it[0], it[1], it[6], k) for k, it in enumerate(legacy_items())]
    return tasks


def catalogue_consistency(ctx):
    """the aggregate lists are the union of the per-system lists and hold no duplicates"""
    def chk(cat, allnames, parts):
        flat = [n for p in parts for n in p]
        if sorted(allnames) != sorted(flat):
            ctx.violate(f"C17/{cat}/catalogue/aggregate-list", f"get_{cat}_names() is not the union of the per-system lists",
                        {"kind": "catalogue", "catalogue": cat})
        for p in parts:
            if len(set(p)) != len(p):
                ctx.violate(f"C17/{cat}/catalogue/duplicate-name", "a per-system name list holds a duplicate", {"kind": "catalogue", "catalogue": cat})
    chk("state", ST.get_state_names(), [n for _, n in state_catalogue()])
    chk("povm", PT.get_povm_names(), [n for _, n in povm_catalogue()])
    chk("gate", GT.get_gate_names(), [["identity"], GT.get_gate_names_1qubit(), GT.get_gate_names_2qubit(), GT.get_gate_names_3qubit(),
                                      GT.get_gate_names_1qutrit(), GT.get_gate_names_2qutrit()])
    ctx.case(("catalogue", "lists"))


# ----------------------------------------------------------------------------- oracle
# ----------------------------------------------------------------------------- translator: catalogue name tables -> lean/QGen/C17.lean
TRANSLATED = {
    "state_typical.py": ["get_state_names_1qubit", "_get_state_names_2qubit_typical", "get_state_names_2qubit",
                         "_get_state_names_3qubit_typical", "get_state_names_3qubit", "_get_state_names_1qutrit_special_typical",
                         "_get_state_names_1qutrit_typical", "get_state_names_1qutrit", "_get_state_names_2qutrit_typical",
                         "get_state_names_2qutrit", "get_state_names"],
    "povm_typical.py": ["get_povm_names_1qubit", "_get_povm_names_2qubit_typical", "get_povm_names_2qubit", "get_povm_names_3qubit",
                        "get_povm_names_1qutrit", "get_povm_names_2qutrit", "get_povm_names", "get_povm_names_rank1",
                        "get_povm_names_not_rank1", "get_povm_object_names"],
    "gate_typical.py": ["get_gate_names_1qubit", "get_gate_names_2qubit", "get_gate_names_2qubit_asymmetric", "get_gate_names_3qubit",
                        "get_gate_names_3qubit_asymmetric", "get_gate_names_1qutrit_single_gellmann", "get_gate_names_1qutrit",
                        "get_base_matrix_names_1qutrit", "get_base_matrix_names_2qutrit", "get_angles_2qutrit",
                        "get_gate_names_2qutrit_single_base_matrix", "get_gate_names_2qutrit_two_base_matrices",
                        "get_gate_names_2qutrit_base_matrices", "get_gate_names_2qutrit", "get_gate_names"],
    "mprocess_typical.py": ["get_mprocess_names_type1_set_pure_state_vectors", "get_mprocess_names_type1_set_kraus_matrices",
                            "get_mprocess_names_type1", "get_mprocess_names_type2", "get_mprocess_object_names"],
    "state_ensemble_typical.py": ["get_state_ensemble_names"],
    "qoperation_typical.py": ["get_gate_object_names", "get_effective_lindbladian_object_names"],
}
_LEAN_PRELUDE = '''/-! GENERATED by harness/c17.py:translate from quara/objects/*_typical.py (Python `ast`) on every run — do not edit.
Name tables of the catalogues and the state-name validator, as the source defines them. -/
namespace QGen.C17

/-- `list(itertools.product(*ls))` (first factor slowest), tuples as lists -/
def prodTuples : List (List String) → List (List String)
  | [] => [[]]
  | l :: ls => l.flatMap fun a => (prodTuples ls).map fun t => a :: t

/-- `[sep.join(t) for t in itertools.product(*ls)]` (first factor slowest) -/
def prodJoin (sep : String) : List (List String) → List String
  | [] => [""]
  | [l] => l
  | l :: ls => l.flatMap fun a => (prodJoin sep ls).map fun b => a ++ sep ++ b

'''


def _lean_str(x):
    assert isinstance(x, str) and all(32 <= ord(c) < 127 and c not in '"\\\\' for c in x), f"unsupported string literal {x!r}"
    return '"' + x + '"'


class _Tr:
    """supported subset: list-of-string literals, `+`, calls of other translated 0-ary functions, local names,
    `[a + b for a, b in product(P, Q)]`, `[sep.join(t) for t in product(A, B, ... [, repeat=k])]`, string literals as
    iterables of characters; statements `x = E`, `x += E`, `x.append("lit")`, `x.extend(E)`, `return E`."""

    def __init__(self, known):
        self.known = known

    def fail(self, node, why):
        import ast
        raise ValueError(f"translator: unsupported construct ({why}): {ast.dump(node)[:200]}")

    def iterable(self, e, env):
        import ast
        if isinstance(e, ast.Constant) and isinstance(e.value, str):
            return "[" + ", ".join(_lean_str(c) for c in e.value) + "]"
        return self.expr(e, env)

    def expr(self, e, env):
        import ast
        if isinstance(e, ast.List):
            for x in e.elts:
                if not (isinstance(x, ast.Constant) and isinstance(x.value, str)):
                    self.fail(e, "list element is not a string literal")
            return "[" + ", ".join(_lean_str(x.value) for x in e.elts) + "]"
        if isinstance(e, ast.Name):
            if e.id not in env:
                self.fail(e, "unknown local name")
            return e.id
        if isinstance(e, ast.Call) and isinstance(e.func, ast.Name) and not e.args and not e.keywords:
            if e.func.id not in self.known:
                self.fail(e, "call of a function that is not translated")
            return e.func.id
        if isinstance(e, ast.BinOp) and isinstance(e.op, ast.Add):
            return f"({self.expr(e.left, env)} ++ {self.expr(e.right, env)})"
        if isinstance(e, ast.ListComp) and len(e.generators) == 1 and not e.generators[0].ifs:
            gen = e.generators[0]
            it = gen.iter
            if not (isinstance(it, ast.Call) and isinstance(it.func, ast.Name) and it.func.id == "product"):
                self.fail(e, "comprehension not over itertools.product")
            rep = 1
            for kw in it.keywords:
                if kw.arg == "repeat" and isinstance(kw.value, ast.Constant) and isinstance(kw.value.value, int):
                    rep = kw.value.value
                else:
                    self.fail(e, "product keyword")
            args = [self.iterable(a, env) for a in it.args]
            factors = "[" + ", ".join(args) + "]" if rep == 1 else f"(List.replicate {rep} ({args[0]}))" if len(args) == 1 else None
            if factors is None:
                self.fail(e, "product(A, B, repeat=k)")
            elt = e.elt
            if isinstance(gen.target, ast.Tuple) and isinstance(elt, ast.BinOp) and isinstance(elt.op, ast.Add) \
                    and [t.id for t in gen.target.elts] == [elt.left.id, elt.right.id] and len(it.args) == 2 and rep == 1:
                return f"(prodJoin \"\" {factors})"
            if isinstance(gen.target, ast.Name) and isinstance(elt, ast.Call) and isinstance(elt.func, ast.Attribute) \
                    and elt.func.attr == "join" and isinstance(elt.func.value, ast.Constant) and isinstance(elt.func.value.value, str) \
                    and len(elt.args) == 1 and isinstance(elt.args[0], ast.Name) and elt.args[0].id == gen.target.id:
                return f"(prodJoin {_lean_str(elt.func.value.value)} {factors})"
            self.fail(e, "comprehension element")
        self.fail(e, "expression")

    def product_call(self, it, env):
        """`product(A, B, ...)` / `product(A, repeat=k)` -> (lean list of factors, arity)"""
        import ast
        rep_ = 1
        for kw in it.keywords:
            if kw.arg == "repeat" and isinstance(kw.value, ast.Constant) and isinstance(kw.value.value, int):
                rep_ = kw.value.value
            else:
                self.fail(it, "product keyword")
        args = [self.iterable(a, env) for a in it.args]
        if rep_ == 1:
            return "[" + ", ".join(args) + "]", len(args)
        if len(args) != 1:
            self.fail(it, "product(A, B, repeat=k)")
        return f"(List.replicate {rep_} ({args[0]}))", rep_

    def concat(self, e, sym):
        """a `+`-concatenation of loop-local names / tuple components / string literals -> list of atoms"""
        import ast
        if isinstance(e, ast.BinOp) and isinstance(e.op, ast.Add):
            return self.concat(e.left, sym) + self.concat(e.right, sym)
        if isinstance(e, ast.Constant) and isinstance(e.value, str):
            return [("lit", e.value)]
        if isinstance(e, ast.Name) and e.id in sym:
            return list(sym[e.id])
        if isinstance(e, ast.Subscript) and isinstance(e.value, ast.Name) and ("tuple", e.value.id) in sym \
                and isinstance(e.slice, ast.Constant) and isinstance(e.slice.value, int):
            return [("comp", e.slice.value)]
        self.fail(e, "concatenation operand")

    def loop(self, st, env, kinds, arity):
        """`for t in <product var>: ...; out.append(<concat of all components in order>)`  or
        `for a in A: for b in B: if a != b: out.append(a + "lit" + b)`  ->  (target variable, lean expression to append)"""
        import ast
        if not (isinstance(st.target, ast.Name) and isinstance(st.iter, ast.Name) and st.iter.id in env and not st.orelse):
            self.fail(st, "for loop header")
        tv, src = st.target.id, st.iter.id
        if kinds[src] == "tuples":
            sym = {("tuple", tv): True}
            out = None
            for b in st.body:
                if isinstance(b, ast.Assign) and len(b.targets) == 1 and isinstance(b.targets[0], ast.Name):
                    sym[b.targets[0].id] = self.concat(b.value, sym)
                elif isinstance(b, ast.Expr) and isinstance(b.value, ast.Call) and isinstance(b.value.func, ast.Attribute) \
                        and b.value.func.attr == "append" and isinstance(b.value.func.value, ast.Name) and len(b.value.args) == 1 and out is None:
                    out = (b.value.func.value.id, self.concat(b.value.args[0], sym))
                else:
                    self.fail(b, "loop body statement")
            if out is None or out[1] != [("comp", i) for i in range(arity[src])] or out[0] not in env or kinds[out[0]] != "list":
                self.fail(st, "loop does not append the concatenation of all tuple components in order")
            return out[0], f"({src}.map String.join)"
        # two nested loops over lists with an inequality filter
        if not (len(st.body) == 1 and isinstance(st.body[0], ast.For)):
            self.fail(st, "loop over a list")
        inner = st.body[0]
        if not (isinstance(inner.target, ast.Name) and isinstance(inner.iter, ast.Name) and inner.iter.id in env
                and kinds[inner.iter.id] == "list" and len(inner.body) == 1 and isinstance(inner.body[0], ast.If) and not inner.orelse):
            self.fail(inner, "inner loop")
        a, b2, cond = tv, inner.target.id, inner.body[0]
        if not (isinstance(cond.test, ast.Compare) and isinstance(cond.test.ops[0], ast.NotEq) and len(cond.test.ops) == 1
                and isinstance(cond.test.left, ast.Name) and cond.test.left.id == a
                and isinstance(cond.test.comparators[0], ast.Name) and cond.test.comparators[0].id == b2 and not cond.orelse):
            self.fail(cond, "filter is not `a != b`")
        sym = {a: [("var", a)], b2: [("var", b2)]}
        out = None
        for b in cond.body:
            if isinstance(b, ast.Assign) and len(b.targets) == 1 and isinstance(b.targets[0], ast.Name):
                sym[b.targets[0].id] = self.concat(b.value, sym)
            elif isinstance(b, ast.Expr) and isinstance(b.value, ast.Call) and isinstance(b.value.func, ast.Attribute) \
                    and b.value.func.attr == "append" and isinstance(b.value.func.value, ast.Name) and len(b.value.args) == 1 and out is None:
                out = (b.value.func.value.id, self.concat(b.value.args[0], sym))
            else:
                self.fail(b, "loop body statement")
        if out is None or out[0] not in env:
            self.fail(st, "nested loop appends nothing")
        term = " ++ ".join(x[1] if x[0] == "var" else _lean_str(x[1]) for x in out[1])
        return out[0], f"({src}.flatMap fun {a} => (({inner.iter.id}.filter fun {b2} => {a} != {b2}).map fun {b2} => {term}))"

    def function(self, fn):
        import ast
        if fn.args.args or fn.args.kwonlyargs or fn.args.vararg:
            self.fail(fn, "name-table function with parameters")
        env, lines, kinds, arity = set(), [], {}, {}
        body = list(fn.body)
        if body and isinstance(body[0], ast.Expr) and isinstance(body[0].value, ast.Constant):
            body = body[1:]
        for st in body:
            if isinstance(st, ast.Assign) and len(st.targets) == 1 and isinstance(st.targets[0], ast.Name):
                v = st.targets[0].id
                if isinstance(st.value, ast.Call) and isinstance(st.value.func, ast.Name) and st.value.func.id == "product":
                    fac, ar = self.product_call(st.value, env)
                    lines.append(f"  let {v} : List (List String) := prodTuples {fac}")
                    kinds[v], arity[v] = "tuples", ar
                elif isinstance(st.value, ast.ListComp) and len(st.value.generators) == 1 and isinstance(st.value.generators[0].iter, ast.Name) \
                        and kinds.get(st.value.generators[0].iter.id) == "tuples" and not st.value.generators[0].ifs \
                        and isinstance(st.value.generators[0].target, ast.Name):
                    src = st.value.generators[0].iter.id
                    atoms = self.concat(st.value.elt, {("tuple", st.value.generators[0].target.id): True})
                    if atoms != [("comp", i) for i in range(arity[src])]:
                        self.fail(st, "comprehension does not concatenate all tuple components in order")
                    lines.append(f"  let {v} : List String := ({src}.map String.join)")
                    kinds[v] = "list"
                else:
                    lines.append(f"  let {v} : List String := {self.expr(st.value, env)}")
                    kinds[v] = "list"
                env.add(v)
            elif isinstance(st, ast.AugAssign) and isinstance(st.op, ast.Add) and isinstance(st.target, ast.Name) and st.target.id in env \
                    and kinds[st.target.id] == "list":
                lines.append(f"  let {st.target.id} : List String := {st.target.id} ++ {self.expr(st.value, env)}")
            elif isinstance(st, ast.Expr) and isinstance(st.value, ast.Call) and isinstance(st.value.func, ast.Attribute) \
                    and isinstance(st.value.func.value, ast.Name) and st.value.func.value.id in env and len(st.value.args) == 1 \
                    and kinds[st.value.func.value.id] == "list":
                v, a = st.value.func.value.id, st.value.args[0]
                if st.value.func.attr == "append" and isinstance(a, ast.Constant) and isinstance(a.value, str):
                    lines.append(f"  let {v} : List String := {v} ++ [{_lean_str(a.value)}]")
                elif st.value.func.attr == "extend":
                    lines.append(f"  let {v} : List String := {v} ++ {self.expr(a, env)}")
                elif st.value.func.attr == "remove" and isinstance(a, ast.Constant) and isinstance(a.value, str):
                    lines.append(f"  let {v} : List String := {v}.erase {_lean_str(a.value)}")
                else:
                    self.fail(st, "method call")
            elif isinstance(st, ast.For):
                v, app = self.loop(st, env, kinds, arity)
                lines.append(f"  let {v} : List String := {v} ++ {app}")
            elif isinstance(st, ast.Return):
                lines.append(f"  {self.expr(st.value, env)}")
                return f"def {fn.name} : List String :=\n" + "\n".join(lines) + "\n"
            else:
                self.fail(st, "statement")
        self.fail(fn, "no return")


def _validator(fn, known):
    """`if name in f(): return True elif ... else: return False` -> Bool chain (anything else: fail loudly)"""
    import ast
    arg = fn.args.args[0].arg
    node, conds = fn.body[0], []
    while True:
        if not (isinstance(node, ast.If) and isinstance(node.test, ast.Compare) and len(node.test.ops) == 1
                and isinstance(node.test.ops[0], ast.In) and isinstance(node.test.left, ast.Name) and node.test.left.id == arg
                and isinstance(node.test.comparators[0], ast.Call) and isinstance(node.test.comparators[0].func, ast.Name)
                and node.test.comparators[0].func.id in known and not node.test.comparators[0].args
                and len(node.body) == 1 and isinstance(node.body[0], ast.Return)
                and isinstance(node.body[0].value, ast.Constant) and node.body[0].value.value is True):
            raise ValueError("translator: is_valid_state_name is not a chain of `if name in <catalogue list>(): return True`: "
                             + ast.dump(node)[:200])
        conds.append(node.test.comparators[0].func.id)
        if len(node.orelse) == 1 and isinstance(node.orelse[0], ast.If):
            node = node.orelse[0]
            continue
        if len(node.orelse) == 1 and isinstance(node.orelse[0], ast.Return) and isinstance(node.orelse[0].value, ast.Constant) \
                and node.orelse[0].value.value is False:
            break
        raise ValueError("translator: is_valid_state_name does not end in `else: return False`")
    if len(fn.body) != 1:
        raise ValueError("translator: is_valid_state_name has statements after the if-chain")
    chain = " else ".join(f"if {c}.contains {arg} then true" for c in conds) + " else false"
    return f"def {fn.name} ({arg} : String) : Bool :=\n  {chain}\n"


def _guard(fn):
    """the generators' name guard: which condition on `is_valid_state_name(name)` leads to `raise`"""
    import ast
    arg = fn.args.args[0].arg
    body = [st for st in fn.body if not (isinstance(st, ast.Expr) and isinstance(st.value, ast.Constant))]

    def is_valid_call(e):
        return isinstance(e, ast.Call) and isinstance(e.func, ast.Name) and e.func.id == "is_valid_state_name" \
            and len(e.args) == 1 and isinstance(e.args[0], ast.Name) and e.args[0].id == arg
    st = body[0]
    if isinstance(st, ast.If) and isinstance(st.test, ast.UnaryOp) and isinstance(st.test.op, ast.Not) and is_valid_call(st.test.operand) \
            and isinstance(st.body[-1], ast.Raise) and not st.orelse \
            and all(isinstance(x, ast.Assign) for x in st.body[:-1]):
        pass        # if not is_valid_state_name(x): raise ...
    elif isinstance(st, ast.If) and is_valid_call(st.test) and not st.orelse and isinstance(st.body[-1], ast.Return) \
            and isinstance(body[-1], ast.Raise) and all(not isinstance(x, (ast.Return, ast.If, ast.For, ast.While, ast.Try)) for x in body[1:-1]):
        pass        # if is_valid_state_name(x): ... return ...   <no other return>   raise ...
    else:
        raise ValueError(f"translator: {fn.name} is not guarded by is_valid_state_name as expected: " + ast.dump(st)[:200])
    return (f"/-- `{fn.name}` raises (instead of yielding an object) exactly on these names -/\n"
            f"def {fn.name}_rejects ({arg} : String) : Bool := !(is_valid_state_name {arg})\n")


def translate(ctx):
    """regenerates lean/QGen/C17.lean from the catalogue sources; raises on anything outside the supported subset"""
    import ast
    from common import REPO, LEAN
    out = [_LEAN_PRELUDE]
    known = set()
    for fname, fns in TRANSLATED.items():
        tree = ast.parse(open(os.path.join(REPO, "quara", "objects", fname)).read())
        defs = {n.name: n for n in tree.body if isinstance(n, ast.FunctionDef)}
        tr = _Tr(known)
        out.append(f"/-! ### {fname} -/\n")
        for f in fns:
            if f not in defs:
                raise ValueError(f"translator: {fname} no longer defines {f}")
            out.append(tr.function(defs[f]))
            known.add(f)
        if fname == "state_typical.py":
            out.append(_validator(defs["is_valid_state_name"], known))
            out.append(_guard(defs["generate_state_pure_state_vector_from_name"]))
            out.append(_guard(defs["generate_state_density_mat_from_name"]))
    out.append("/-- every translated table by name (driver) -/\ndef table (t : String) : Option (List String) :=\n  match t with\n"
               + "".join(f"  | \"{f}\" => some {f}\n" for fns in TRANSLATED.values() for f in fns) + "  | _ => none\n")
    out.append("\nend QGen.C17\n")
    text = "\n".join(out)
    path = os.path.join(LEAN, "QGen", "C17.lean")
    if not os.path.exists(path) or open(path).read() != text:
        open(path, "w").write(text)
    return []


LEAN_EXTRA_TARGETS = ("QGen.C17",)


PARTIAL = [
    {"theorem": "unknown_state_name_rejected_partial", "missing": "state catalogue only (generated validator + guards); POVM / gate / m-process / ensemble / Lindbladian generators have no validator to translate, and for POVMs and m-processes the clause is false on the source (D17d-f) - covered by the oracle's out-of-catalogue and near-miss probes"},
    {"theorem": "psdCert_true_sound / unitaryCert_sound / trace1Cert_sound / povmSumCert_sound / tpCert_zero / hsUnitaryCert_sound", "missing": "soundness of the EXECUTED deciders is proved (CRat -> C embedding); the per-entry certification itself is executed by the compiled driver, not kernel-checked"},
    {"theorem": "gate_of_unitary_* / state_of_pure_vector_physical / povm_of_onb_physical / kraus_* / mixture_physical / projective_kraus_complete / gate_of_hamiltonian_physical", "missing": "generic constructions on Mathlib matrices (all dimensions); tied to executed definitions for gates (gate_superoperator_acts / _choi_psd, hsOfUnitary_eq_toHerm, hsOfUnitary_row0), states (density_coef_roundtrip, pureDensity_eq), POVMs (povmOfVectors_spec), m-processes (krausSum_action, hsOfKraus_row0) and Hamiltonian Lindbladians (lindOfHamiltonian_spec); that each catalogue entry IS such a construction with the textbook matrix, and the 'alternative descriptions agree' clauses, are checked per entry by the oracle on the implementation, not proved"},
]


def oracle(ctx, volume=1):
    ctx.partial = PARTIAL
    t0 = time.time()
    _blas_single_thread()
    for s in SYSTEMS:
        csys(s)
        named_states(s)
    catalogue_consistency(ctx)
    # --- all small catalogues, completely
    tasks = small_tasks()
    tasks += [("nearmiss", sysl, nm, None, (cat, fam)) for cat, fam, nm, sysl in near_miss_names(ctx.seed)]
    # --- 2-qutrit gate / Lindbladian names
    single = sorted(GT.get_gate_names_2qutrit_single_base_matrix())
    double = sorted(GT.get_gate_names_2qutrit_two_base_matrices())
    n_all = len(single) + len(double)
    if ctx.quick:
        k = min(len(double), 150 * volume)
        chosen = single + sorted(ctx.rng.sample(double, k))
        n_obj = min(len(chosen), 24 * volume)
    else:
        chosen = single + double
        n_obj = min(len(chosen), 600)
    with_obj = set(ctx.rng.sample(chosen, n_obj))
    # finding D17h (to_gate() of a physical catalogued generator refused at round-off, 96 of the 39 204 names): one witness is
    # always in the object sample, so that the finding is exercised by every run and not only by the seeds whose sample meets it
    if D17H_WITNESS not in chosen:
        chosen = chosen + [D17H_WITNESS]
    with_obj.add(D17H_WITNESS)
    n_obj = len(with_obj)
    # thorough: EVERY 2-qutrit gate name is generated and checked; the effective-Lindbladian entry of the same name
    # (3 more dispatcher calls, each re-deriving the 39k-name list inside quara) is checked for all 198 single-base
    # names, the object sample and every second two-base name (deterministic), to keep the tier under 30 minutes
    single_set = set(single)
    lind_ok = set(n for i, n in enumerate(double) if i % 2 == 0) | single_set | with_obj
    heavy = [("gate", "2qutrit", n, [0, 1], (True if n in with_obj else False) if (ctx.quick or n in lind_ok) else "nolind")
             for n in chosen]
    n_lind = sum(1 for t in heavy if t[4] != "nolind")
    t1 = time.time()
    results = run_tasks(heavy, 4 if ctx.quick else 24, tasks, 16)
    t2 = time.time()
    _register(ctx, results)
    # --- serial parts
    for fam, fails in check_bases():
        ctx.count(f"basis/{fam}")
        ctx.case(("basis", fam))
        for f in fails:
            ctx.violate(f"C17/basis/{fam}/{f['check']}", f"[{f['form']}]: {f['msg']}", {"kind": "basis", "family": fam, "form": f["form"], "check": f["check"]})
    for system, name in id_sequence_items():
        ctx.count(f"gate id-sequence/{system}")
        ctx.case(("idseq", system, name), nontrivial=True, sample={"catalogue": "gate", "system": system, "name": name, "check": "all id permutations forward+reversed in one process"})
        for f in check_id_sequence(system, name):
            ctx.violate(f"C17/gate/{system}/{f['check']}", f"{name} [{f['form']}]: {f['msg']}", {"kind": "idseq", "system": system, "name": name})
    for dims in MIXED_DIMS:
        ctx.count("gate identity/mixed dims" if len(set(dims)) > 1 else "gate identity/equal dims")
        ctx.case(("identity-mixed", tuple(dims)), nontrivial=len(set(dims)) > 1, sample={"catalogue": "gate", "name": "identity", "dims": dims})
        for f in check_identity_mixed(dims):
            ctx.violate(f"C17/gate/{f['check']}", f"identity dims={dims} [{f['form']}]: {f['msg']}", {"kind": "identity-mixed", "dims": dims})
    ctx.count("objects on systems with a non-default basis")
    ctx.case(("other-basis",), nontrivial=True, sample={"check": "catalogue states / POVMs and legacy constructors on rotated-basis systems"})
    for f in check_other_basis():
        ctx.violate(f"C17/{f['check']}" if f["check"].startswith("other-basis") else f"C17/other-basis/{f['check']}", f"[{f['form']}]: {f['msg']}", {"kind": "other-basis"})
    for f in check_tester():
        ctx.violate(f"C17/tester/{f['form']}/{f['check']}", f"{f['msg']}", {"kind": "tester", "form": f["form"], "check": f["check"]})
    ctx.case(("tester",))
    for f in check_parametric_channels(ctx.npgen(17)):
        ctx.violate(f"C17/legacy/gate/{f['check']}", f"[{f['form']}]: {f['msg']}", {"kind": "channels", "form": f["form"], "check": f["check"]})
    ctx.case(("channels",))
    n_probe = check_unknown(ctx) + getattr(ctx, "n_near", 0)
    t3 = time.time()
    ctx.notes.append(
        f"C17 oracle: {len(tasks)} small-catalogue entries (all names x all forms x all id permutations), "
        f"2-qutrit gate+Lindbladian names {len(chosen)}/{n_all} ({'seeded sample incl. all 198 single-base names' if len(chosen) < n_all else 'exhaustive'}), "
        f"effective-Lindbladian entries (hamiltonian_vec/mat, effective_lindbladian_mat: expm(L) vs gate) checked for {n_lind} of these names, "
        f"EffectiveLindbladian objects (constructor + is_physical cost ~2 s each) built for {n_obj} of them (seeded sample), "
        f"{n_probe} out-of-catalogue probes; "
        f"workers={n_workers()} setup={t1 - t0:.0f}s pool={t2 - t1:.0f}s serial={t3 - t2:.0f}s")
    ctx.rule = ("one case per (catalogue, system, name, ids, object_name form); the catalogues are enumerated from the get_*_names* functions; "
                "non-trivial = every name except 'identity'")


# ----------------------------------------------------------------------------- certificates for the Lean checkers
def cert_items(ctx):
    """yields ("psd", label, M) | ("unitary", label, U) | ("trace1", label, M) | ("povmsum", label, [M..]) | ("tp", label, hs)
    for all 1-qubit / 1-qutrit entries and a seeded sample of the 2-qubit ones; matrices are at most 16x16, complex128
    (hs: float64), taken from quara's output (Choi matrices: own formula applied to quara's hs)."""
    _blas_single_thread()
    rng = ctx.rng

    def pick(names, k):
        names = list(names)
        return names if len(names) <= k else sorted(rng.sample(names, k))

    k2 = 6 if ctx.quick else 20
    for system, names in state_catalogue():
        if system not in ("1qubit", "1qutrit", "2qubit"):
            continue
        for n in (pick(names, k2) if system == "2qubit" else names):
            rho = np.asarray(dense(ST.generate_state_density_mat_from_name(n)), dtype=complex)
            yield ("psd", f"state/{system}/{n}", rho)
            yield ("trace1", f"state/{system}/{n}", rho)
            obj = ST.generate_state_from_name(csys(system), n)
            yield ("psd", f"state/{system}/{n}/object", np.asarray(mat_of(ref_basis(system), obj.vec), dtype=complex))
    for system, names in povm_catalogue():
        if system not in ("1qubit", "1qutrit", "2qubit"):
            continue
        for n in (pick(names, k2) if system == "2qubit" else names):
            obj = PT.generate_povm_from_name(n, csys(system))
            ms = [np.asarray(mat_of(ref_basis(system), v), dtype=complex) for v in obj.vecs]
            for i, m in enumerate(ms):
                yield ("psd", f"povm/{system}/{n}/{i}", m)
            yield ("povmsum", f"povm/{system}/{n}", ms)
    gl = [(s, n, ids) for s, n, ids in gate_catalogue_small() if s in ("1qubit", "1qutrit", "2qubit")]
    for system, n, ids in gl:
        dims = list(SYSTEMS[system][2])
        u = np.asarray(GT.generate_unitary_mat_from_gate_name(n, dims, ids), dtype=complex)
        g = GT.generate_gate_from_gate_name(n, csys(system), ids)
        lab = f"gate/{system}/{n}" + (f"/ids{''.join(map(str, ids))}" if ids else "")
        yield ("unitary", lab, u)
        yield ("tp", lab, np.asarray(g.hs, dtype=float))
        yield ("psd", lab + "/choi", choi_of_hs(ref_basis(system), g.hs))
    for n in mprocess_names():
        system = ref_mprocess(n)[0]
        mp = MT.generate_mprocess_from_name(csys(system), n)
        yield ("tp", f"mprocess/{system}/{n}", np.asarray(sum(np.asarray(h) for h in mp.hss), dtype=float))
        for x, h in enumerate(mp.hss):
            yield ("psd", f"mprocess/{system}/{n}/choi/{x}", choi_of_hs(ref_basis(system), h))
        ks = MT.generate_mprocess_set_kraus_matrices_from_name(n)
        yield ("povmsum", f"mprocess/{system}/{n}/kraus", [sum(np.asarray(k).conj().T @ np.asarray(k) for k in g) for g in ks])


# ----------------------------------------------------------------------------- correspondence (certificates)
CERT_EPS = 1e-9


def _pc(A):
    A = np.asarray(A, dtype=np.complex128).flatten()
    return qlist(x for z in A for x in (z.real, z.imag))


def _pr(A):
    return qlist(np.asarray(A, dtype=np.float64).flatten())


def _herm(M):
    M = np.asarray(M, dtype=np.complex128)
    return (M + M.conj().T) / 2


def correspondence(ctx):
    """Sends implementation outputs (cert_items) to the verified certificate checkers of QModel.C17 and compares
    the checker's verdict with the implementation's own (is_physical == True for every catalogue entry).
    Every kind also gets negative controls (a perturbed matrix that must be rejected), so a checker that
    accepts everything would disagree."""
    drv = Driver("C17")
    pend = []   # (op, label, expected bool, reply index)
    eps = q(CERT_EPS)
    gates = {}
    nneg = {"psd": 0, "unitary": 0, "trace1": 0, "povmsum": 0, "tp": 0}

    def ask_psd(label, M, expect):
        M = _herm(M)
        n = M.shape[0]
        w, V = np.linalg.eigh(M)
        pend.append(("psdcert", label, expect, drv.ask("psdcert", n, _pc(M), _pc(V), qlist(w), eps)))

    for item in cert_items(ctx):
        kind, label = item[0], item[1]
        ctx.count(f"cert {kind} {label.split('/')[0]}/{label.split('/')[1]}")
        ctx.case(("cert", kind, label), nontrivial=True, sample={"op": kind, "entry": label})
        if kind == "psd":
            M = np.asarray(item[2], dtype=np.complex128)
            dev = float(np.abs(M - M.conj().T).max(initial=0))
            if dev > 1e-12:
                ctx.disagree("psdcert", label, "implementation matrix Hermitian", f"hermitian defect {dev:.3g}")
            ask_psd(label, M, True)
            if nneg["psd"] < 12:
                nneg["psd"] += 1
                w, V = np.linalg.eigh(_herm(M))
                v = V[:, [0]]
                ask_psd(label + "/neg-control", _herm(M) - 0.01 * (v @ v.conj().T), False)
        elif kind == "unitary":
            U = np.asarray(item[2], dtype=np.complex128)
            pend.append(("unitarycert", label, True, drv.ask("unitarycert", U.shape[0], _pc(U), eps)))
            gates.setdefault(label, {})["u"] = U
            if nneg["unitary"] < 6:
                nneg["unitary"] += 1
                pend.append(("unitarycert", label + "/neg-control", False,
                             drv.ask("unitarycert", U.shape[0], _pc(U * (1 + 1e-6)), eps)))
        elif kind == "trace1":
            M = np.asarray(item[2], dtype=np.complex128)
            pend.append(("trace1", label, True, drv.ask("trace1", M.shape[0], _pc(M), eps)))
            if nneg["trace1"] < 6:
                nneg["trace1"] += 1
                pend.append(("trace1", label + "/neg-control", False,
                             drv.ask("trace1", M.shape[0], _pc(M * (1 + 1e-6)), eps)))
        elif kind == "povmsum":
            Ms = [np.asarray(m, dtype=np.complex128) for m in item[2]]
            n = Ms[0].shape[0]
            pend.append(("povmsum", label, True, drv.ask("povmsum", n, _pc(np.array(Ms)), eps)))
            if nneg["povmsum"] < 6 and len(Ms) > 1:
                nneg["povmsum"] += 1
                pend.append(("povmsum", label + "/neg-control", False,
                             drv.ask("povmsum", n, _pc(np.array(Ms[:-1] + [Ms[-1] * (1 - 1e-6)])), eps)))
        elif kind == "tp":
            hs = np.asarray(item[2], dtype=np.float64)
            pend.append(("tpcert", label, True, drv.ask("tpcert", hs.shape[0], _pr(hs), eps)))
            gates.setdefault(label, {})["hs"] = hs
            if nneg["tp"] < 6:
                nneg["tp"] += 1
                bad = hs.copy(); bad[0, -1] += 1e-6
                pend.append(("tpcert", label + "/neg-control", False, drv.ask("tpcert", hs.shape[0], _pr(bad), eps)))
    # unitary <-> HS matrix of the generated gate through the model's hsOfUnitary (small systems only)
    k = 0
    for label, gd in sorted(gates.items()):
        if "u" in gd and "hs" in gd and label.startswith("gate/") and gd["u"].shape[0] <= 4:
            system = label.split("/")[1]
            B = [np.asarray(b, dtype=np.complex128) for b in ref_basis(system)]
            d = gd["u"].shape[0]
            bs = qlist(x for b in B for z in b.flatten() for x in (z.real, z.imag))
            pend.append(("hsunitary", label, True, drv.ask("hsunitary", d, bs, _pc(gd["u"]), _pr(gd["hs"]), eps)))
            ctx.count(f"cert hsunitary {system}")
            if k < 4:
                k += 1
                pend.append(("hsunitary", label + "/neg-control", False,
                             drv.ask("hsunitary", d, bs, _pc(gd["u"]), _pr(gd["hs"].T + 1e-6 * np.eye(d * d)[::-1]), eps)))
    # alternative descriptions on the model's executed definitions: state vector -> density -> coefficient vector (all
    # 1-qubit / 1-qutrit catalogue states) and Kraus set -> HS matrix (every outcome of every catalogue m-process)
    forms = []
    for system in ("1qubit", "1qutrit"):
        c = csys(system)
        Bq = [np.asarray(dense(b), dtype=complex) for b in c.basis()]
        d_ = Bq[0].shape[0]
        bs_ = qlist(x for b in Bq for z in b.flatten() for x in (z.real, z.imag))
        for nm in dict(state_catalogue())[system]:
            psi = np.asarray(ST.generate_state_pure_state_vector_from_name(nm), dtype=complex).flatten()
            rho = np.asarray(dense(ST.generate_state_density_mat_from_name(nm)), dtype=complex)
            vec = np.asarray(ST.generate_state_density_matrix_vector_from_name(c.basis(), nm), dtype=float)
            forms.append(("stateforms", f"{system}/{nm}", (rho, vec), drv.ask("stateforms", d_, bs_, _pc(psi)), d_))
            ctx.count(f"descriptions state {system}")
    for nm in mprocess_names():
        system = ref_mprocess(nm)[0]
        c = csys(system)
        Bq = [np.asarray(dense(b), dtype=complex) for b in c.basis()]
        d_ = Bq[0].shape[0]
        bs_ = qlist(x for b in Bq for z in b.flatten() for x in (z.real, z.imag))
        ksets = MT.generate_mprocess_set_kraus_matrices_from_name(nm)
        hss = MT.generate_mprocess_hss_from_name(nm, c)
        for x, (ks, hs_) in enumerate(zip(ksets, hss)):
            forms.append(("hsofkraus", f"{system}/{nm}/{x}", np.asarray(dense(hs_), dtype=float),
                          drv.ask("hsofkraus", d_, bs_, _pc(np.array([np.asarray(k, dtype=complex) for k in ks]))), d_))
            ctx.count(f"descriptions mprocess {system}")
    # POVM pure-state vectors -> matrices -> coefficient vectors (rank-1 names of the 1-qubit / 1-qutrit systems) and
    # Hamiltonian -> effective-Lindbladian HS matrix (every small-catalogue gate name x id order), on the model's definitions
    rank1 = set(PT.get_povm_names_rank1())
    for system in ("1qubit", "1qutrit"):
        c = csys(system)
        Bq = [np.asarray(dense(b), dtype=complex) for b in c.basis()]
        d_ = Bq[0].shape[0]
        bs_ = qlist(x for b in Bq for z in b.flatten() for x in (z.real, z.imag))
        for nm in dict(povm_catalogue())[system]:
            if nm not in rank1:
                continue
            vs = [np.asarray(v, dtype=complex).flatten() for v in PT.generate_povm_pure_state_vectors_from_name(nm)]
            ms = [np.asarray(dense(m), dtype=complex) for m in PT.generate_povm_matrices_from_name(nm)]
            cv = [np.asarray(v, dtype=float) for v in PT.generate_povm_vectors_from_name(nm, c.basis())]
            forms.append(("povmforms", f"{system}/{nm}", (ms, cv), drv.ask("povmforms", d_, bs_, len(vs), _pc(np.array(vs))), d_))
            ctx.count(f"descriptions povm {system}")
    for system, nm, ids in gate_catalogue_small():
        if system not in ("1qubit", "2qubit", "1qutrit"):
            continue
        c = csys(system)
        dims_ = list(SYSTEMS[system][2])
        Bq = [np.asarray(dense(b), dtype=complex) for b in c.basis()]
        d_ = Bq[0].shape[0]
        bs_ = qlist(x for b in Bq for z in b.flatten() for x in (z.real, z.imag))
        idl = None if ids is None else list(ids)
        Hm = np.asarray(dense(LT.generate_hamiltonian_mat_from_gate_name(nm, dims_, idl if idl is not None else [])), dtype=complex)
        Lm = np.asarray(dense(LT.generate_effective_lindbladian_mat_from_gate_name(nm, dims_, idl if idl is not None else [])), dtype=float)
        forms.append(("lindofh", f"{system}/{nm}/{ids}", Lm, drv.ask("lindofh", d_, bs_, _pc(Hm)), d_))
        ctx.count(f"descriptions lindbladian {system}")
    # generated name tables (QGen/C17.lean, translated from the source on this run) against the real functions
    tabs = []
    mods = {"state_typical.py": ST, "povm_typical.py": PT, "gate_typical.py": GT, "mprocess_typical.py": MT,
            "state_ensemble_typical.py": ET, "qoperation_typical.py": QT}
    for fname, fns in TRANSLATED.items():
        for f in fns:
            tabs.append((f, list(getattr(mods[fname], f)()), drv.ask("names", f)))
            ctx.count("generated name tables")
    probes = sorted(set(ST.get_state_names()) | {nm for cat, _, nm, _ in near_miss_names(ctx.seed) if cat in ("state", "ensemble", "povm")}
                    | set(BAD_NAMES["state"]) | {"", " ", "z0_z0_z0_z0", "a_a_a", "ghz", "werner_z0"})
    valid = []
    for nm in probes:
        if all(ord(ch) < 0x110000 for ch in nm):
            valid.append((nm, bool(ST.is_valid_state_name(nm)), drv.ask("isvalid", ",".join(str(ord(ch)) for ch in nm) or "-")))
    ctx.count("generated is_valid_state_name probes", len(valid))
    out = drv.run(timeout=1500)
    def _cm(tok, shape):
        v = [float(Fraction(t)) for t in ([] if tok == "-" else tok.split(","))]
        return (np.array(v[0::2]) + 1j * np.array(v[1::2])).reshape(shape)
    for op, label, impl, i, d_ in forms:
        ctx.corr_ops.add(op)
        ctx.case((op, label), nontrivial=True, sample={"op": op, "entry": label})
        t = out[i].split()
        okf = t[0] == "ok"
        if okf and op == "stateforms":
            rho_m, vec_m, rho2_m = _cm(t[1], (d_, d_)), _cm(t[2], (d_ * d_,)), _cm(t[3], (d_, d_))
            okf = np.abs(rho_m - impl[0]).max() < 1e-9 and np.abs(vec_m - impl[1]).max() < 1e-9 and np.abs(rho2_m - impl[0]).max() < 1e-9
        elif okf and op == "povmforms":
            ms, cv = impl
            okf = len(t) == 1 + 2 * len(ms)
            for x in range(len(ms) if okf else 0):
                okf = okf and np.abs(_cm(t[1 + 2 * x], (d_, d_)) - ms[x]).max() < 1e-9 \
                    and np.abs(_cm(t[2 + 2 * x], (d_ * d_,)) - cv[x]).max() < 1e-9
        elif okf:
            hs_m = _cm(t[1], (d_ * d_, d_ * d_))
            okf = np.abs(hs_m - impl).max() < 1e-9
        if not okf:
            ctx.disagree(op, label, "implementation forms", out[i][:200])
    for f, impl, i in tabs:
        ctx.corr_ops.add("names")
        ctx.case(("names", f), nontrivial=True)
        got = out[i].split()
        model = [] if len(got) < 2 or got[1] == "-" else got[1].split(",")
        if got[0] != "ok" or model != impl:
            ctx.disagree("names", f, f"{len(impl)} names, first {impl[:3]}", out[i][:200])
    for nm, impl, i in valid:
        ctx.corr_ops.add("isvalid")
        ctx.case(("isvalid", nm), nontrivial=True)
        t = out[i].split()
        if t[0] != "ok" or (t[1] == "true") != impl or (t[2] == "true") != (not impl) or (t[3] == "true") != (not impl):
            ctx.disagree("isvalid", nm, f"is_valid_state_name={impl}", out[i][:100])
    for op, label, expect, i in pend:
        ctx.corr_ops.add(op)
        t = out[i].split()
        if t[0] != "ok" or (t[1] == "true") != expect:
            ctx.disagree(op, label, f"implementation: physical/consistent={expect}", out[i][:200])


def search(ctx):
    oracle(ctx, volume=4)


# ----------------------------------------------------------------------------- replay
def replay(ctx, data):
    global VERBOSE
    r = data["replay"]
    print("replaying", r)
    _blas_single_thread()
    VERBOSE = True
    kind = r.get("kind")
    want = r.get("check")

    def verdict(fails):
        hit = [f for f in fails if want is None or f["check"] == want]
        for f in hit:
            print(f"still failing: [{f['check']}] form={f['form']}: {f['msg']}")
        for f in fails:
            if f not in hit:
                print(f"(other failing check of this entry: [{f['check']}] form={f['form']}: {f['msg']})")
        if not hit:
            print(f"check {want!r} no longer fails for this entry")
        return 1 if hit else 0

    def listed():
        nm, sysname = r["name"], r.get("system")
        if kind == "state":
            return nm in dict(state_catalogue()).get(sysname, [])
        if kind == "povm":
            return nm in dict(povm_catalogue()).get(sysname, [])
        if kind == "mprocess":
            return nm in mprocess_names()
        if kind == "ensemble":
            return nm in ET.get_state_ensemble_names()
        if sysname == "2qutrit":
            return nm == "identity" or nm in GT.get_gate_names_2qutrit()
        return any(s == sysname and n == nm for s, n, _ in gate_catalogue_small())

    if kind in ("state", "povm", "mprocess", "ensemble", "gate", "lindbladian") and not listed():
        print(f"{r['name']!r} is not listed in the {kind} catalogue of {r.get('system')} (any more): nothing to check")
        return 0

    if kind in ("state", "povm", "mprocess", "ensemble"):
        res = run_task((kind, r.get("system"), r["name"], r.get("ids"), True))
        return verdict(res[0][5])
    if kind in ("gate", "lindbladian"):
        res = run_task(("gate", r["system"], r["name"], r.get("ids"), r.get("lind_obj", True)))
        return verdict(res[0][5] if kind == "gate" else res[1][5])
    if kind == "action":
        items = named_actions()
        idx = r.get("index")
        cand = [k for k, it in enumerate(items) if f"{it[1]}:{it[3]}->{it[4]}" == r["name"] and it[0] == r["system"] and it[2] == r.get("ids")]
        k = idx if idx is not None and idx < len(items) and idx in cand else (cand[0] if cand else None)
        if k is None:
            print("no such named action")
            return 1
        return verdict(check_named_action(items[k]))
    if kind == "legacy":
        items = legacy_items()
        cand = [it for it in items if it[1] == r["name"] and it[0] == r["system"]]
        fails = [f for it in cand for f in check_legacy_item(it)]
        return verdict(fails)
    if kind == "probe":
        if r.get("mode") == "is-valid":
            v = ST.is_valid_state_name(r["name"])
            print("is_valid_state_name ->", v, "(reference: False)")
            return 0 if v is False else 1
        bad = 0
        if str(r.get("mode", "")).startswith("near-miss"):
            for lab, th in dispatchers(r["catalogue"], r["name"], r["system"]):
                if lab == r["form"]:
                    got = run_probe({"thunk": th, "form": lab})
                    print(f"name {r['name']!r} listed by the catalogue: False; reference: must raise; implementation:", got or "raised")
                    bad += got is not None
            return 1 if bad else 0
        for p in unknown_probes():
            if (p["mode"], p["catalogue"], p["name"], p["system"], p["ids"], p["form"]) == \
                    (r["mode"], r["catalogue"], r["name"], r["system"], r.get("ids"), r["form"]):
                got = run_probe(p)
                print("reference: must raise;", "implementation:", got or "raised")
                bad += got is not None
        return 1 if bad else 0
    if kind == "other-basis":
        fails = check_other_basis()
        for f in fails:
            print("  ", f["check"], f["form"], f["msg"])
        return 1 if fails else 0
    if kind == "identity-mixed":
        fails = check_identity_mixed(r["dims"])
        for f in fails:
            print("  ", f["check"], f["form"], f["msg"])
        return 1 if fails else 0
    if kind == "idseq":
        fails = check_id_sequence(r["system"], r["name"])
        for f in fails:
            print("  ", f["check"], f["form"], f["msg"])
        return 1 if fails else 0
    if kind == "basis":
        fails = [f for fam, fl in check_bases() if fam == r["family"] for f in fl]
        return verdict(fails)
    if kind == "tester":
        return verdict(check_tester())
    if kind == "channels":
        return verdict(check_parametric_channels(ctx.npgen(17)))
    if kind == "catalogue":
        before = len(ctx.violations)
        catalogue_consistency(ctx)
        for v in ctx.violations[before:]:
            print(v["signature"], v["what"])
        return 1 if len(ctx.violations) > before else 0
    before = len(ctx.violations)
    oracle(ctx)
    return 1 if len(ctx.violations) > before else 0
