"""Tomography set-ups shared by the C08 and C09 harnesses: tester sets (typical / random, complete / over-complete,
equal / mixed outcome counts), true objects (interior / boundary / pure) together with an *independent* Born-rule
reference that works on density matrices and Kraus operators (no quara code on the reference side), schedule lists.
Everything random comes from the numpy Generator handed in."""
import ctypes
import os
import shim  # noqa: F401
import numpy as np
import qobj


def limit_blas_threads(n=1):
    """the matrices here are tiny; OpenBLAS worker threads only spin (on a loaded machine: 100x slower).  numpy is
    already imported by shim, so the limit is set on the loaded library (no effect if no known symbol is found)."""
    done = False
    try:
        libs = {l.split()[-1] for l in open("/proc/self/maps") if "openblas" in l and l.rstrip().endswith(".so")
                or "openblas" in l and ".so" in l}
    except OSError:
        libs = set()
    for path in libs:
        try:
            lib = ctypes.CDLL(path)
        except OSError:
            continue
        for sym in ("scipy_openblas_set_num_threads64_", "openblas_set_num_threads64_", "openblas_set_num_threads",
                    "scipy_openblas_set_num_threads"):
            f = getattr(lib, sym, None)
            if f is not None:
                f(ctypes.c_int(n))
                done = True
                break
    return done


BLAS_LIMITED = limit_blas_threads(1) if "OPENBLAS_NUM_THREADS" not in os.environ else True
from quara.objects.state import State
from quara.objects.povm import Povm
from quara.objects.gate import Gate
from quara.objects.mprocess import MProcess
from quara.objects.tester_typical import generate_tester_states, generate_tester_povms
from quara.protocol.qtomography.standard.standard_qst import StandardQst
from quara.protocol.qtomography.standard.standard_povmt import StandardPovmt
from quara.protocol.qtomography.standard.standard_qpt import StandardQpt
from quara.protocol.qtomography.standard.standard_qmpt import StandardQmpt

TYPES = ("qst", "povmt", "qpt", "qmpt")

TYPICAL = {
    "qubit": dict(states=["x0", "y0", "z0", "z1"], states_over=["x0", "x1", "y0", "y1", "z0", "z1", "a"],
                  povms=["x", "y", "z"]),
    "qutrit": dict(states=["01z0", "12z0", "02z1", "01x0", "01y0", "12x0", "12y0", "02x0", "02y0"],
                   states_over=["01z0", "12z0", "02z1", "01x0", "01y0", "12x0", "12y0", "02x0", "02y0",
                                "0_1_2_superposition", "01x1", "12y1"],
                   povms=["01x3", "01y3", "z3", "12x3", "12y3", "02x3", "02y3"]),
}


def make_csys(sysname):
    if sysname == "qubit":
        return qobj.csys("qubit")
    if sysname == "qutrit":
        return qobj.csys("qutrit")
    if sysname == "2qubit":
        return qobj.csys("qubit", names=(0, 1))
    if sysname == "qubit_qutrit":
        return qobj.csys(["qubit", "qutrit"], names=(0, 1))
    if sysname == "qutrit_qubit":
        return qobj.csys(["qutrit", "qubit"], names=(0, 1))
    raise ValueError(sysname)


def basis_stack(c_sys):
    return np.stack(qobj.basis_mats(c_sys))


def vec_of(B, mat):
    """real coefficients tr(B_a^† M) of a Hermitian matrix"""
    return np.einsum("aij,ij->a", B.conj(), mat).real


def hs_of_kraus(B, ks):
    """hs[a,b] = sum_k tr(B_a^† K B_b K^†)"""
    K = np.stack(ks)
    T = np.einsum("kij,bjl,kml->bim", K, B, K.conj())      # sum_k K B_b K^†
    return np.einsum("aim,bim->ab", B.conj(), T).real


def povm_mats(g, d, k, rank=None):
    """random POVM elements that are physical well inside quara's tolerance (the generator, not quara, is responsible
    for that): rank-1 with k = d is a projective measurement in a random basis; otherwise redraw ill-conditioned ones"""
    if rank == 1 and k == d:
        u = qobj.rand_unitary(g, d)
        return [np.outer(u[:, i], u[:, i].conj()) for i in range(d)]
    for _ in range(50):
        es = qobj.rand_povm_mats(g, d, k, rank)
        ok = np.abs(sum(es) - np.eye(d)).max() < 1e-13 and all(np.linalg.eigvalsh((e + e.conj().T) / 2).min() > -1e-14
                                                               for e in es)
        if ok:
            return es
    raise RuntimeError("povm generator failed")


# ----------------------------------------------------------------------------- testers
def tester_states(g, c_sys, sysname, how):
    """how: 'typical' | 'typical_over' | 'random' | 'random_over'.  Returns (states, density matrices)."""
    d = c_sys.dim
    B = basis_stack(c_sys)
    base = "qubit" if sysname in ("qubit", "2qubit") else "qutrit"
    if how == "derived":
        # physical testers obtained with the library's own arithmetic (noisy preparations `0.9·ρ + 0.1·origin`): such
        # objects carry is_physicality_required=False although they are physical
        sts = generate_tester_states(c_sys, TYPICAL[base]["states"] if sysname != "2qubit" else ["x0", "y0", "z0", "z1"])
        mixed = [0.9 * s_ + 0.1 * s_.generate_origin_obj() for s_ in sts]
        return mixed, [0.9 * s_.to_density_matrix() + 0.1 * np.eye(d) / d for s_ in sts]
    if how.startswith("typical"):
        names = TYPICAL[base]["states_over" if how.endswith("over") else "states"]
        if sysname == "2qubit" and how.endswith("over"):
            names = ["x0", "y0", "z0", "z1", "a"]
        sts = generate_tester_states(c_sys, names)
        return sts, [s.to_density_matrix() for s in sts]
    n = d * d + (3 if how.endswith("over") else 0)
    rhos = [qobj.rand_density(g, d, rank=(1 if i % 3 == 0 else None)) for i in range(n)]
    return [State(c_sys, vec_of(B, r)) for r in rhos], rhos


def tester_povms(g, c_sys, sysname, how, counts=None):
    """how: 'typical' | 'random' | 'random_over' | 'mixed' (different outcome counts).
    Returns (povms, list of lists of element matrices)."""
    d = c_sys.dim
    B = basis_stack(c_sys)
    base = "qubit" if sysname in ("qubit", "2qubit") else "qutrit"
    if how == "typical":
        pv = generate_tester_povms(c_sys, TYPICAL[base]["povms"])
        return pv, [[np.array(m) for m in p.matrices()] for p in pv]
    if how == "derived":
        pv = generate_tester_povms(c_sys, TYPICAL[base]["povms"])
        mixed = [0.9 * p + 0.1 * p.generate_origin_obj() for p in pv]
        return mixed, [[0.9 * np.array(m) + 0.1 * np.eye(d) / len(p.vecs) for m in p.matrices()] for p in pv]
    if counts is None:
        if how == "mixed":
            counts = {2: [2, 2, 3, 2], 3: [3, 2, 4, 3, 3, 2, 3, 4], 4: [4, 2, 3, 4, 5, 4, 4, 6, 3]}[d]
        else:
            # generic POVMs with k outcomes give k-1 independent equations each
            k = d + 1
            need = -(-(d * d - 1) // (k - 1))
            counts = [k] * (need + (2 if how.endswith("over") else 0))
    mats = []
    for i, k in enumerate(counts):
        rank = 1 if (i % 2 == 0 and (k > d or (d == 2 and k == 2))) else None
        mats.append(povm_mats(g, d, k, rank))
    pv = [Povm(c_sys, [vec_of(B, e) for e in es]) for es in mats]
    return pv, mats


# ----------------------------------------------------------------------------- true objects
class TrueObj:
    """a physical object of the estimated kind + what is needed for the independent Born rule"""

    def __init__(self, kind, label, obj, rho=None, elems=None, groups=None):
        self.kind, self.label, self.obj = kind, label, obj
        self.rho, self.elems, self.groups = rho, elems, groups

    def var(self, flag):
        return self.obj.to_var() if flag else self.obj.to_stacked_vector()


def _unit_kraus(d):
    ks = []
    for i in range(d):
        for j in range(d):
            e = np.zeros((d, d), dtype=complex)
            e[i, j] = 1.0
            ks.append(e)
    return ks


def true_objects(g, c_sys, kind, m=2, classes=("interior", "boundary", "pure"), flag=True):
    """physical objects of the estimated kind; `m` = number of outcomes for povm / mprocess"""
    d = c_sys.dim
    B = basis_stack(c_sys)
    out = []
    kw = dict(on_para_eq_constraint=flag)
    for cl in classes:
        if kind == "qst":
            if cl == "interior":
                rho = qobj.rand_density(g, d)
                rho = 0.8 * rho + 0.2 * np.eye(d) / d
            elif cl == "boundary":
                rho = qobj.rand_density(g, d, rank=max(1, d - 1))
            else:
                rho = qobj.rand_density(g, d, rank=1)
            out.append(TrueObj(kind, cl, State(c_sys, vec_of(B, rho), **kw), rho=rho))
        elif kind == "povmt":
            if cl == "interior":
                es = povm_mats(g, d, m)
                es = [0.8 * e + 0.2 * np.eye(d) / m for e in es]
            elif cl == "boundary":
                es = povm_mats(g, d, m, rank=1 if (m > d or d == 2) else d - 1)
            else:  # projective measurement in a random basis; surplus outcomes are zero elements
                u = qobj.rand_unitary(g, d)
                es = [np.zeros((d, d), dtype=complex) for _ in range(m)]
                for i in range(d):
                    es[i % m] = es[i % m] + np.outer(u[:, i], u[:, i].conj())
            out.append(TrueObj(kind, cl, Povm(c_sys, [vec_of(B, e) for e in es], **kw), elems=es))
        elif kind == "qpt":
            if cl == "interior":
                ks = [np.sqrt(0.8) * k for k in qobj.rand_kraus(g, d, 1, 2)[0]] + \
                     [np.sqrt(0.2 / d) * k for k in _unit_kraus(d)]
            elif cl == "boundary":
                ks = qobj.rand_kraus(g, d, 1, 2)[0]
            else:
                ks = [qobj.rand_unitary(g, d)]
            out.append(TrueObj(kind, cl, Gate(c_sys, hs_of_kraus(B, ks), **kw), groups=[ks]))
        elif kind == "qmpt":
            if cl == "interior":
                gr = qobj.rand_kraus(g, d, m, 2)
                gr = [[np.sqrt(0.8) * k for k in ks] + [np.sqrt(0.2 / (d * m)) * k for k in _unit_kraus(d)]
                      for ks in gr]
            elif cl == "boundary":
                gr = qobj.rand_kraus(g, d, m, 1)
            else:  # Lueders instrument of a projective measurement followed by a unitary
                u = qobj.rand_unitary(g, d)
                w = qobj.rand_unitary(g, d)
                ps = [np.zeros((d, d), dtype=complex) for _ in range(m)]
                for i in range(d):
                    ps[i % m] = ps[i % m] + np.outer(u[:, i], u[:, i].conj())
                gr = [[w @ p] for p in ps]
            hss = [hs_of_kraus(B, ks) for ks in gr]
            out.append(TrueObj(kind, cl, MProcess(c_sys, hss, **kw), groups=gr))
        else:
            raise ValueError(kind)
    return out


def strided(v):
    """the same 1-D values as a non-contiguous view"""
    w = np.empty(2 * len(v), dtype=np.float64)
    w[::2] = v
    return w[::2]


def layout_variant(t, c_sys, flag):
    """the SAME object (same values) handed over in another memory layout: Fortran-ordered / transposed-view matrices
    for gates and measurement processes, strided views for state / POVM vectors"""
    kw = dict(on_para_eq_constraint=flag)
    o = t.obj
    if t.kind == "qst":
        obj = State(c_sys, strided(np.array(o.vec)), **kw)
    elif t.kind == "povmt":
        obj = Povm(c_sys, [strided(np.array(v)) for v in o.vecs], **kw)
    elif t.kind == "qpt":
        obj = Gate(c_sys, np.asfortranarray(np.array(o.hs)), **kw)
    else:
        obj = MProcess(c_sys, [np.array(h).T.copy().T for h in o.hss], **kw)
    return TrueObj(t.kind, t.label + "/layout", obj, rho=t.rho, elems=t.elems, groups=t.groups)


def edge_objects(c_sys, kind, m=2, flag=True):
    """boundary objects with EXACT zero-probability outcomes on typical testers, the zero not being the last outcome:
    projective measurements / instruments along the computational basis (and along x, y for a qubit), also with
    relabelled outcomes and with a split outcome; basis states for QST.  Deterministic."""
    d = c_sys.dim
    B = basis_stack(c_sys)
    kw = dict(on_para_eq_constraint=flag)
    out = []

    def projectors(u):
        return [np.outer(u[:, i], u[:, i].conj()) for i in range(d)]

    bases = [("z", np.eye(d, dtype=complex))]
    if d == 2:
        bases.append(("x", np.array([[1, 1], [1, -1]], dtype=complex) / np.sqrt(2)))
        bases.append(("y", np.array([[1, 1], [1j, -1j]], dtype=complex) / np.sqrt(2)))
    for name, u in bases:
        ps = projectors(u)
        for order in ("fwd", "rev"):
            groups = [np.zeros((d, d), dtype=complex) for _ in range(m)]
            for i in range(d):
                k = i % m if order == "fwd" else (m - 1 - i) % m
                groups[k] = groups[k] + ps[i]
            lab = f"edge-{name}-{order}"
            if kind == "qst":
                if order == "fwd":
                    for i in range(d):
                        out.append(TrueObj(kind, f"edge-{name}{i}", State(c_sys, vec_of(B, ps[i]), **kw), rho=ps[i]))
            elif kind == "povmt":
                out.append(TrueObj(kind, lab, Povm(c_sys, [vec_of(B, e) for e in groups], **kw), elems=groups))
            elif kind == "qmpt":
                gr = [[p] for p in groups]
                out.append(TrueObj(kind, lab, MProcess(c_sys, [hs_of_kraus(B, ks) for ks in gr], **kw), groups=gr))
        if kind == "qmpt" and name == "z":
            # all outcomes carry the SAME array object (equal weights of the identity channel): a legitimate list of HS
            # matrices in which "the last element" cannot be recognised by object identity
            h = hs_of_kraus(B, [np.sqrt(1.0 / m) * np.eye(d, dtype=complex)])
            gr = [[np.sqrt(1.0 / m) * np.eye(d, dtype=complex)] for _ in range(m)]
            out.append(TrueObj(kind, "edge-shared-array", MProcess(c_sys, [h] * m, **kw), groups=gr))
        if kind == "qmpt" and m >= 3 and d == 2:
            # first outcome: |0> detected; the second basis state detected and kept / flipped with probability 1/2 each
            flip = u @ np.array([[0, 1], [1, 0]], dtype=complex) @ u.conj().T
            gr = [[ps[0]], [np.sqrt(0.5) * ps[1]], [np.sqrt(0.5) * flip @ ps[1]]] + \
                 [[np.zeros((d, d), dtype=complex)] for _ in range(m - 3)]
            out.append(TrueObj(kind, f"edge-{name}-split", MProcess(c_sys, [hs_of_kraus(B, ks) for ks in gr], **kw),
                               groups=gr))
    return out


# ----------------------------------------------------------------------------- tomography + schedules
def default_schedules(kind, n_states, n_povms):
    if kind == "qst":
        return [[("state", 0), ("povm", j)] for j in range(n_povms)]
    if kind == "povmt":
        return [[("state", i), ("povm", 0)] for i in range(n_states)]
    mid = "gate" if kind == "qpt" else "mprocess"
    return [[("state", i), (mid, 0), ("povm", j)] for i in range(n_states) for j in range(n_povms)]


def build(kind, states, povms, flag, m=2, schedules="all"):
    if kind == "qst":
        return StandardQst(povms, on_para_eq_constraint=flag, schedules=schedules)
    if kind == "povmt":
        return StandardPovmt(states, m, on_para_eq_constraint=flag, schedules=schedules)
    if kind == "qpt":
        return StandardQpt(states, povms, on_para_eq_constraint=flag, schedules=schedules)
    if kind == "qmpt":
        return StandardQmpt(states, povms, m, on_para_eq_constraint=flag, schedules=schedules)
    raise ValueError(kind)


def schedule_indices(kind, sched):
    """(state index, povm index) used by one schedule (None where the unknown sits)"""
    if kind == "qst":
        return None, sched[1][1]
    if kind == "povmt":
        return sched[0][1], None
    return sched[0][1], sched[2][1]


def born_reference(kind, rhos, povm_mats, schedules, true):
    """outcome distributions of every schedule computed from density matrices / Kraus operators only"""
    out = []
    for sched in schedules:
        si, pj = schedule_indices(kind, sched)
        if kind == "qst":
            ps = [np.trace(e @ true.rho).real for e in povm_mats[pj]]
        elif kind == "povmt":
            ps = [np.trace(e @ rhos[si]).real for e in true.elems]
        else:
            ps = []
            for ks in true.groups:          # outcome of the unknown (one group for a gate)
                r = sum(k @ rhos[si] @ k.conj().T for k in ks)
                ps += [np.trace(e @ r).real for e in povm_mats[pj]]
        out.append(np.array(ps, dtype=np.float64))
    return out


def small_branch(kind, rhos, schedules, true, lo=1e-8, hi=2e-3):
    """QMPT only: the smallest m-process outcome probability `tr(M_x(ρ_i))` over the scheduled tester states that lies in
    (lo, hi) — outcomes this unlikely make the circuit divide `hs_x ρ` by a tiny number; returns None if there is none"""
    if kind != "qmpt":
        return None
    best = None
    for sched in schedules:
        si, _ = schedule_indices(kind, sched)
        for ks in true.groups:
            p = float(sum(np.trace(k @ rhos[si] @ k.conj().T).real for k in ks))
            if lo < p < hi and (best is None or p < best):
                best = p
    return best
