"""C20 - schedule acceptance: translator (QGen/C20.lean), correspondence with QModel.C20 and property oracle.

Input language (DESIGN 4/C20, property quantifier): schedules over the four kinds with indices -1..len, malformed items
(non-tuples, wrong arity, wrong types incl. bool / numpy ints / floats, unknown kinds), all list-size configurations
0..2 per kind (81), empty schedules / empty schedule lists / non-iterable schedules, several schedules per list,
setter histories, None placeholders (calc_prob_dist), and the four tomography classes' `schedules` argument."""
import itertools, re
import numpy as np
import shim  # noqa: F401
from common import Driver
import c20_translate
from quara.qcircuit.experiment import Experiment, QuaraScheduleItemError, QuaraScheduleOrderError

KINDS = ("state", "povm", "gate", "mprocess")
KW = {"state": "states", "povm": "povms", "gate": "gates", "mprocess": "mprocesses"}
CONFIGS = list(itertools.product(range(3), repeat=4))          # (n_state, n_povm, n_gate, n_mprocess)


# ----------------------------------------------------------------------------- translator
def translate(ctx):
    try:
        c20_translate.translate()
    except c20_translate.Untranslatable as e:
        return [f"translator (QGen/C20.lean): {e}"]
    return []


# ----------------------------------------------------------------------------- encoding python object -> model text
def enc_val(v):
    if type(v) is bool:
        return "b:1" if v else "b:0"
    if type(v) is int:
        return f"i:{v}"
    if type(v) is str:
        assert re.fullmatch(r"\w*", v), v
        return f"s:{v}"
    if v is None:
        return "n"
    if type(v) is float:
        return "f"
    return "o"


def enc_item(it):
    if type(it) is not tuple:
        return "X"
    return "T" + ",".join(enc_val(v) for v in it)


class NS:
    """marker for a schedule that is an iterable but not a sequence; materialised freshly before every call
    (a generator is consumed by the validation). kind: 'gen' (iterator), 'dict' (items are the keys), 'set'."""

    def __init__(self, kind, items):
        self.kind, self.items = kind, list(items)

    def __repr__(self):
        return f"NS({self.kind!r}, {self.items!r})"

    def __eq__(self, other):
        return isinstance(other, NS) and (self.kind, self.items) == (other.kind, other.items)

    def make(self):
        if self.kind == "gen":
            return iter(list(self.items))
        if self.kind == "dict":
            return {it: 1 for it in self.items}
        # a dict-keys view: like a set it has len() but no indexing (TypeError), yet iterates in insertion order, so the
        # verdict on a malformed member does not depend on the hash seed
        return {it: 1 for it in self.items}.keys()


def mat(ss):
    """schedule list with the NS markers replaced by fresh real objects"""
    return [x.make() if isinstance(x, NS) else x for x in ss] if isinstance(ss, list) else ss


def enc_sched(s):
    if s is None or type(s) is int:
        return "!"
    if isinstance(s, NS):
        return {"gen": "G:", "dict": "D:", "set": "Z:"}[s.kind] + (";".join(enc_item(i) for i in s.items) if s.items else "-")
    s = list(s)
    return ";".join(enc_item(i) for i in s) if s else "-"


def enc_scheds(ss):
    return "|".join(enc_sched(s) for s in ss) if ss else "~"


def enc_objlist(l):
    """objects as outcome shapes: None | int m (shape [m]) | tuple of ints (multi-dimensional shape)"""
    if not l:
        return "-"
    if all(o is None or isinstance(o, int) for o in l):
        return "".join("N" if o is None else str(o) for o in l)
    return ".".join("N" if o is None else ("x".join(str(d) for d in o) if isinstance(o, tuple) else str(o)) for o in l) + "."


def none_lists(cfg):
    return {KW[k]: [None] * n for k, n in zip(KINDS, cfg)}


def enc_cfg(cfg):
    return " ".join("N" * n or "-" for n in cfg)


MAL_FULL = [None, ["state", 0], "state", 7, (), ("state",), ("state", 0, 0), (0, 0), (None, 0), ("state", "0"),
            ("povm", 1.0), ("state", True), ("gate", False), ("state", None), ("state", np.int64(0)),
            ("State", 0), ("povms", 0), ("", 0), ("measurement", 0)]
MAL_MID = [None, ("state", True), ("State", 0)]
MAL_RED = [("povm", True)]


def alphabet(cfg, mode):
    """(python item, model text) pairs. full: every index -1..len; red: index 0 and len only"""
    out = []
    for k, n in zip(KINDS, cfg):
        idxs = range(-1, n + 1) if mode != "red" else sorted({0, n})
        out += [(k, i) for i in idxs]
    out += {"full": MAL_FULL, "mid": MAL_MID, "red": MAL_RED}[mode]
    return [(it, enc_item(it)) for it in out]


def single_schedules(ctx, count=False):
    """the exhaustive part: yields (cfg, schedule(list of items), text) - one schedule per case"""
    plan = [("full", (0, 1, 2)), ("mid", (3,)), ("red", (4,))] if ctx.quick else \
           [("full", (0, 1, 2)), ("mid", (3, 4)), ("red", (5,))]
    for cfg in CONFIGS:
        for mode, lens in plan:
            alpha = alphabet(cfg, mode)
            for n in lens:
                if count:
                    ctx.count(f"exhaustive single schedules len={n} alphabet={mode}", len(alpha) ** n)
                for combo in itertools.product(alpha, repeat=n):
                    yield cfg, [c[0] for c in combo], (";".join(c[1] for c in combo) if combo else "-")


def pool(cfg):
    """representative schedules for multi-schedule lists and setter histories"""
    ns, npv, ng, nm = cfg
    p = [[("state", 0), ("povm", 0)], [("state", ns - 1), ("gate", 0), ("povm", npv - 1)],
         [("state", 0), ("mprocess", nm - 1)], [("state", 0), ("povm", npv)], [("state", 0), None, ("povm", 0)],
         [("povm", 0), ("state", 0)], [("state", 0), ("povm", 0), ("povm", 0)], [("state", 0)], [], None,
         [("state", 0), ("gate", ng - 1), ("mprocess", 0), ("povm", 0), ("mprocess", 0)],
         # equal under == to p[0] (and hash-equal), but the index is not an int
         [("state", 0), ("povm", 0.0)], [("state", False), ("povm", 0)], [("state", 0), ("povm", np.int64(0))],
         # iterables that are not sequences: generator / dict / set with fine items, with a malformed item, too short
         NS("gen", [("state", 0), ("povm", 0)]), NS("dict", [("state", 0), ("povm", 0)]),
         NS("set", [("state", 0), ("povm", 0)]),
         NS("gen", [("state", 0), ("povm", npv)]), NS("dict", [("state", 0), ("gate", ng), ("povm", 0)]),
         NS("set", [("state", 0)]), NS("dict", [])]
    return p


def multi_lists(ctx):
    cfgs = [(1, 1, 1, 1), (2, 2, 2, 2), (1, 1, 0, 0), (2, 1, 0, 2)] if ctx.quick else \
        [c for c in CONFIGS if c[0] > 0][::3]
    for cfg in cfgs:
        p = pool(cfg)
        for n in (0, 1, 2, 3):
            for combo in itertools.product(p[:14], repeat=n):
                yield cfg, list(combo)
        for ns in p[14:]:
            yield cfg, [ns]
            for other in p[:11]:
                yield cfg, [other, ns]
                yield cfg, [ns, other]
    # tuples / generators-as-lists / strings as schedules
    yield (1, 1, 0, 0), [(("state", 0), ("povm", 0))]
    yield (1, 1, 0, 0), ["ab"]
    yield (1, 1, 0, 0), [[("state", 0), ("povm", 0)], 5]


def random_long(ctx, n):
    """structured random schedules beyond the exhaustive bound (seed dependent)"""
    r = ctx.rng
    for _ in range(n):
        cfg = tuple(r.choice((0, 1, 2, 3, 5)) for _ in range(4))
        L = r.randint(5, 9)
        mid = []
        for _ in range(L - 2):
            k = r.choice(("gate", "gate", "mprocess", "mprocess", "povm", "state"))
            mid.append((k, r.randint(0, max(0, cfg[KINDS.index(k)] - 1))))
        s = [("state", r.randint(0, max(0, cfg[0] - 1)))] + mid + [(r.choice(("povm", "mprocess", "gate")), 0)]
        if r.random() < 0.3:
            s[r.randrange(len(s))] = r.choice(MAL_FULL + [("gate", cfg[2]), ("mprocess", -1)])
        yield cfg, s


# ----------------------------------------------------------------------------- implementation side
def exp_outcome(fn):
    try:
        fn()
        return ("ok",)
    except QuaraScheduleItemError as e:
        m = re.search(r"schedules\[(\d+)\] is invalid", e.args[0])
        lines = e.args[0].split("\n")
        m2 = re.match(r"(\d+): ", lines[2]) if len(lines) > 2 else None
        return ("item", int(m.group(1)) if m else None, int(m2.group(1)) if m2 else None)
    except QuaraScheduleOrderError as e:
        m = re.search(r"Invalid Schedule: \[(\d+)\]", e.args[0])
        return ("order", int(m.group(1)) if m else None)
    except UnboundLocalError:
        return ("unbound",)
    except Exception as e:  # noqa
        return ("other", type(e).__name__)


def model_outcome(line):
    t = line.split()
    if t[0] == "ok":
        return ("ok",)
    if t[0] == "item":
        return ("item", int(t[1]), None if t[2] == "None" else int(t[2]))
    if t[0] == "order":
        return ("order", int(t[1]))
    if t[0] == "escaped":
        return ("other", t[1])
    return ("other", line)


# ----------------------------------------------------------------------------- independent statement of the rule (oracle)
def item_defect(it, lens):
    """None if the item is well formed, else the reason"""
    if type(it) is not tuple:
        return "non-tuple"
    if len(it) != 2:
        return "arity"
    if type(it[0]) is not str:
        return "name-type"
    if type(it[1]) is not int:
        return "index-type"
    if it[0] not in KINDS:
        return "unknown-kind"
    if not (0 <= it[1] < lens[it[0]]):
        return "index-range"
    return None


def order_defect(kinds):
    if len(kinds) < 2:
        return "too-short"
    if kinds[0] != "state":
        return "first-not-state"
    if kinds[-1] not in ("povm", "mprocess"):
        return "last-not-measurement"
    if kinds.count("state") != 1:
        return "several-states"
    if kinds.count("povm") > 1:
        return "several-povms"
    return None


def expected(cfg_lens, schedules):
    """('ok',) | ('item', i, j, reason) | ('order', i, reason) for the first schedule that is not well formed"""
    for i, s in enumerate(schedules):
        if s is None or type(s) is int:
            return ("item", i, None, "non-iterable-schedule")
        if isinstance(s, NS):
            for j, it in enumerate(s.items):
                r = item_defect(it, cfg_lens)
                if r:
                    return ("item", i, j, r)
            if len(s.items) < 2:
                return ("order", i, "too-short")
            return ("sched", i, None, "non-sequence-schedule")   # must be rejected with either schedule error
        s = list(s)
        for j, it in enumerate(s):
            r = item_defect(it, cfg_lens)
            if r:
                return ("item", i, j, r)
        r = order_defect([it[0] for it in s])
        if r:
            return ("order", i, r)
    return ("ok",)


def judge(ctx, site, got, exp, replay):
    """compare the implementation's outcome with the rule; records a violation, returns True if fine"""
    if exp[0] == "ok":
        if got[0] != "ok":
            ctx.violate(f"C20/{site}/rejects-wellformed", f"well-formed schedules rejected with {got}", replay)
            return False
        return True
    reason = exp[-1]
    if got[0] == "ok":
        ctx.violate(f"C20/{site}/accepts-malformed/{reason}", f"schedule list accepted although schedules[{exp[1]}] is malformed ({reason})", replay)
        return False
    if got[0] not in ("item", "order"):
        ctx.violate(f"C20/{site}/{reason}/raises-{got[0] if got[0] != 'other' else got[1]}",
                    f"malformed schedule ({reason}) is not rejected with the schedule-item / schedule-order error but {got}", replay)
        return False
    if exp[0] == "sched":
        if got[1] != exp[1]:
            ctx.violate(f"C20/{site}/wrong-error-position/{reason}", f"error reports schedule {got[1]}, expected {exp[1]}", replay)
            return False
        return True
    if got[0] != exp[0]:
        ctx.violate(f"C20/{site}/wrong-error-class/{reason}", f"expected the schedule-{exp[0]} error for {reason}, got {got}", replay)
        return False
    if got[1] != exp[1] or (exp[0] == "item" and got[2] != exp[2]):
        ctx.violate(f"C20/{site}/wrong-error-position/{reason}", f"error reports {got[1:]} but the first malformed schedule/item is {exp[1:-1]}", replay)
        return False
    return True


def lens_of(cfg):
    return dict(zip(KINDS, cfg))


# ----------------------------------------------------------------------------- real objects (calc_prob_dist, tomography)
def real_objects(ctx, salt):
    import qobj
    g = ctx.npgen(salt)
    c = qobj.csys("qubit")
    o = {"c": c,
         "state": [qobj.rand_state(g, c), qobj.rand_state(g, c, rank=1)],
         "povm": [qobj.rand_povm(g, c, 2), qobj.rand_povm(g, c, 3)],
         "gate": [qobj.rand_gate(g, c), qobj.rand_gate(g, c, kraus_rank=1)],
         "mprocess": [qobj.rand_mprocess(g, c, 2)[0], qobj.rand_mprocess(g, c, 3)[0]]}
    o["m"] = {"state": [1, 1], "gate": [1, 1], "povm": [2, 3], "mprocess": [2, 3]}
    return o


def born(objs, schedule):
    """reference distribution of state -> (gate | mprocess)* -> povm, outcomes ordered (earlier, ..., later)"""
    vec = objs["state"][schedule[0][1]].vec
    branches = [vec]
    for k, i in schedule[1:-1]:
        if k == "gate":
            branches = [objs["gate"][i].hs @ v for v in branches]
        else:
            branches = [hs @ v for v in branches for hs in objs["mprocess"][i].hss]
    pv = objs["povm"][schedule[-1][1]]
    return np.array([np.vdot(e, v).real for v in branches for e in pv.vecs])


def accepted_schedules(maxlen, n):
    """all well-formed schedules up to maxlen over lists of sizes n[kind] (as index lists)"""
    mids = [(k, i) for k in ("gate", "mprocess", "povm") for i in range(n[k])]
    for L in range(2, maxlen + 1):
        for s0 in range(n["state"]):
            for rest in itertools.product(mids, repeat=L - 1):
                ks = [k for k, _ in rest]
                if ks.count("povm") <= 1 and ks[-1] in ("povm", "mprocess"):
                    yield [("state", s0)] + list(rest)


def calc_cases(ctx):
    """(objects, lists-with-None, outcome-count lists, schedule) - every accepted schedule up to the tier's length over two
    layouts of real objects and None placeholders (None behind / None at index 0)"""
    o = real_objects(ctx, 20)
    S, P, G, M = o["state"], o["povm"], o["gate"], o["mprocess"]
    layouts = [({"state": [S[0], None], "povm": [P[0], P[1], None], "gate": [G[0], None], "mprocess": [M[0], None, M[1]]},
                {"state": [1, None], "povm": [2, 3, None], "gate": [1, None], "mprocess": [2, None, 3]}),
               ({"state": [None, S[1]], "povm": [None, P[1], P[0]], "gate": [None, G[1]], "mprocess": [None, M[1]]},
                {"state": [None, 1], "povm": [None, 3, 2], "gate": [None, 1], "mprocess": [None, 3]})]
    # boundary layout: computational-basis inputs and projective measurement processes, so that some m-process outcome
    # has probability exactly 0 (its post-measurement state is the all-zero placeholder) and gates / further
    # m-processes / POVMs act on it afterwards
    from quara.objects.state_typical import generate_state_from_name
    from quara.objects.povm_typical import generate_povm_from_name
    from quara.objects.gate_typical import generate_gate_from_gate_name
    from quara.objects.mprocess_typical import generate_mprocess_from_name
    c = o["c"]
    layouts.append(({"state": [generate_state_from_name(c, x) for x in ("z0", "z1", "a")],
                     "povm": [generate_povm_from_name(x, c) for x in ("z", "x")],
                     "gate": [generate_gate_from_gate_name(x, c) for x in ("hadamard", "x")],
                     "mprocess": [generate_mprocess_from_name(c, x) for x in ("z-type1", "x-type1")]},
                    {"state": [1, 1, 1], "povm": [2, 2], "gate": [1, 1], "mprocess": [2, 2]}))
    # objects that have already served as operands of operators (the usual way two-qubit testers are built from one-qubit
    # ones): every object of the boundary layout is used once as left and once as right factor of a tensor product, and as an
    # operand of a composition, BEFORE the schedules run - the objects must be unaffected
    from quara.objects.operators import tensor_product as _tp, compose_qoperations as _comp
    import qobj as _q
    c_other = _q.csys("qubit", names=(12,))
    fresh = {"state": lambda: generate_state_from_name(c_other, "x0"), "povm": lambda: generate_povm_from_name("x", c_other),
             "gate": lambda: generate_gate_from_gate_name("hadamard", c_other),
             "mprocess": lambda: generate_mprocess_from_name(c_other, "z-type1")}
    used = layouts[-1][0]
    ctx._c20_preuse_error = None
    try:
        for k in KINDS:
            for obj in used[k]:
                _tp(fresh[k](), obj)        # as right factor (a fresh partner every time) ...
                _tp(obj, fresh[k]())        # ... and as left factor
        _comp(used["povm"][0], used["gate"][0]); _comp(used["gate"][0], used["state"][0]); _comp(used["mprocess"][0], used["gate"][0])
    except Exception as ex:  # noqa  (reported by the oracle)
        ctx._c20_preuse_error = f"{type(ex).__name__}: {ex}"
    maxlen = 4 if ctx.quick else 5
    for lists, ms in layouts:
        n = {k: len(v) for k, v in lists.items()}
        for s in accepted_schedules(maxlen, n):
            yield o, lists, ms, s
    # objects derived with operators.tensor_product on two qubits: measurement processes / POVMs with multi-dimensional
    # outcome shapes ((2, 2), (2, 3)), product inputs that give exactly-zero branches
    from quara.objects.operators import tensor_product
    import qobj
    c0, c1 = qobj.csys("qubit", names=(10,)), qobj.csys("qubit", names=(11,))
    S = lambda c, x: generate_state_from_name(c, x)            # noqa: E731
    M = lambda c, x: generate_mprocess_from_name(c, x)         # noqa: E731
    g2 = ctx.npgen(22)
    lists2 = {"state": [tensor_product(S(c0, "z0"), S(c1, "z0")), tensor_product(S(c0, "x0"), S(c1, "z1"))],
              "povm": [tensor_product(generate_povm_from_name("z", c0), qobj.rand_povm(g2, c1, 3)),
                       tensor_product(generate_povm_from_name("x", c0), generate_povm_from_name("z", c1))],
              "gate": [tensor_product(generate_gate_from_gate_name("hadamard", c0), generate_gate_from_gate_name("x", c1))],
              "mprocess": [tensor_product(M(c0, "z-type1"), M(c1, "z-type1")), tensor_product(M(c0, "x-type1"), qobj.rand_mprocess(g2, c1, 3)[0])]}
    ms2 = {"state": [1, 1], "povm": [(2, 3), (2, 2)], "gate": [1], "mprocess": [(2, 2), (2, 3)]}
    n2 = {k: len(v) for k, v in lists2.items()}
    for s in accepted_schedules(4, n2):
        if len(s) < 4 or ctx.rng.random() < (0.25 if ctx.quick else 1.0):
            yield o, lists2, ms2, s


def calc_outcome(e, idx, schedule):
    try:
        ps = e.calc_prob_dist(idx)
        return ("ok", ps)
    except ValueError as ex:
        if "] is None" in str(ex):
            return ("isNone", str(ex))
        return ("py", "ValueError")
    except TypeError as ex:
        return ("badIndexType",) if "schedule_index" in str(ex) else ("py", "TypeError")
    except IndexError as ex:
        return ("badIndex",) if "schedule_index" in str(ex) else ("py", "IndexError")
    except Exception as ex:  # noqa
        return ("py", type(ex).__name__)


# ----------------------------------------------------------------------------- tomography classes
def tomo_classes():
    from quara.protocol.qtomography.standard.standard_qst import StandardQst
    from quara.protocol.qtomography.standard.standard_povmt import StandardPovmt
    from quara.protocol.qtomography.standard.standard_qpt import StandardQpt
    from quara.protocol.qtomography.standard.standard_qmpt import StandardQmpt
    return {"qst": (StandardQst, lambda st, pv: dict(povms=pv)),
            "povmt": (StandardPovmt, lambda st, pv: dict(states=st, num_outcomes=2)),
            "qpt": (StandardQpt, lambda st, pv: dict(states=st, povms=pv)),
            "qmpt": (StandardQmpt, lambda st, pv: dict(states=st, povms=pv, num_outcomes=2))}


def tomo_shape_ok(cls, s, ns, npv):
    """the class's own schedule shape"""
    if type(s) is not list or any(type(it) is not tuple or len(it) != 2 or type(it[0]) is not str or type(it[1]) is not int for it in s):
        return False
    if cls == "qst":
        return len(s) == 2 and s[0] == ("state", 0) and s[1][0] == "povm" and 0 <= s[1][1] < npv
    if cls == "povmt":
        return len(s) == 2 and s[0][0] == "state" and 0 <= s[0][1] < ns and s[1] == ("povm", 0)
    mid = "gate" if cls == "qpt" else "mprocess"
    return len(s) == 3 and s[0][0] == "state" and 0 <= s[0][1] < ns and s[1] == (mid, 0) and s[2][0] == "povm" and 0 <= s[2][1] < npv


def tomo_all(cls, ns, npv):
    if cls == "qst":
        return [[("state", 0), ("povm", i)] for i in range(npv)]
    if cls == "povmt":
        return [[("state", i), ("povm", 0)] for i in range(ns)]
    mid = "gate" if cls == "qpt" else "mprocess"
    return [[("state", i), (mid, 0), ("povm", j)] for i in range(ns) for j in range(npv)]


def tomo_outcome(fn):
    try:
        t = fn()
        return ("ok", t)
    except QuaraScheduleItemError as e:
        m = re.search(r"schedules\[(\d+)\] is invalid", e.args[0])
        lines = e.args[0].split("\n")
        m2 = re.match(r"(\d+): ", lines[2]) if len(lines) > 2 else None
        return ("item", int(m.group(1)) if m else None, int(m2.group(1)) if m2 else None)
    except QuaraScheduleOrderError as e:
        m = re.search(r"Invalid Schedule: \[(\d+)\]", e.args[0])
        return ("order", int(m.group(1)) if m else None)
    except ValueError as e:
        m = re.match(r"schedules\[(\d+)\] is invalid", str(e))
        if m:
            return ("value", int(m.group(1)))
        if "string specified in schedules" in str(e):
            return ("str",)
        return ("other", "ValueError:" + str(e)[:60])
    except IndexError:
        return ("index",)
    except UnboundLocalError:
        return ("unbound",)
    except Exception as e:  # noqa
        return ("other", type(e).__name__ + ":" + str(e)[:60])


def tomo_cases(ctx):
    """(cls, ns, npv, schedules-argument)"""
    sizes = [(2, 2)] if ctx.quick else [(1, 1), (2, 2), (1, 2), (3, 2)]
    for cls in ("qst", "povmt", "qpt", "qmpt"):
        for ns, npv in sizes:
            yield cls, ns, npv, "all"
            for s in ("al", "", "ALL", "all "):
                yield cls, ns, npv, s
            yield cls, ns, npv, []
            items = [(k, i) for k in KINDS for i in (-1, 0, 1, 2) if i <= max(ns, npv)] + [None, ("state", True), ("x", 0), ("povm",)]
            red = [("state", 0), ("state", 1), ("povm", 0), ("povm", 1), ("gate", 0), ("gate", 1), ("mprocess", 0), ("mprocess", 1)]
            for L in (0, 1, 2, 3):
                for combo in itertools.product(items, repeat=L):
                    yield cls, ns, npv, [list(combo)]
            for L in ((4,) if ctx.quick else (4, 5)):
                for combo in itertools.product(red, repeat=L):
                    if combo[0][0] == "state":
                        yield cls, ns, npv, [list(combo)]
            good = tomo_all(cls, ns, npv)
            bad = [[("state", 0), ("povm", 0), ("povm", 0)], [("state", 0), ("gate", 0), ("povm", 0)],
                   [("state", 0), ("mprocess", 0), ("povm", 0)], [("state", 0), ("povm", 0)], [("state", 1), ("povm", 1)],
                   [("state", 0), ("mprocess", 0)], [("state", 0), ("mprocess", 0), ("povm", 0), ("mprocess", 0)],
                   [("state", 0), ("gate", 0), ("gate", 0), ("povm", 0)], [], None]
            p = good[:3] + bad
            for n in (2, 3):
                for combo in itertools.product(p, repeat=n):
                    yield cls, ns, npv, list(combo)


def tomo_build(ctx, objs, cls, ns, npv, arg):
    C, kw = tomo_classes()[cls]
    st = (objs["state"] * 2)[:ns]
    pv = (objs["povm"] * 2)[:npv]
    return tomo_outcome(lambda: C(schedules=arg, **kw(st, pv)))


# ----------------------------------------------------------------------------- setter histories
def setter_ops(cfg):
    ops = []
    for k in KINDS:
        for n in (0, 1, 2, 3):
            ops.append(("list", k, n))
    for s in pool(cfg)[:9]:
        ops.append(("sched", [s]))
    ops.append(("sched", []))
    ops.append(("sched", [pool(cfg)[0], pool(cfg)[1]]))
    for twin in pool(cfg)[11:14]:
        ops.append(("sched", [pool(cfg)[0], twin]))
    for ns in pool(cfg)[14:]:
        ops.append(("sched", [ns]))
    return ops


def enc_op(op):
    if op[0] == "list":
        return {"state": "S", "povm": "P", "gate": "G", "mprocess": "M"}[op[1]] + "=" + ("N" * op[2] or "-")
    return "C=" + enc_scheds(op[1])


def apply_op(e, op):
    if op[0] == "list":
        return exp_outcome(lambda: setattr(e, KW[op[1]], [None] * op[2]))
    return exp_outcome(lambda: setattr(e, "schedules", mat(op[1])))


def setter_cases(ctx):
    starts = [((1, 1, 1, 1), [[("state", 0), ("povm", 0)]]),
              ((2, 2, 1, 2), [[("state", 1), ("gate", 0), ("povm", 1)], [("state", 0), ("mprocess", 1)]]),
              ((1, 0, 0, 1), [[("state", 0), ("mprocess", 0)]]),
              ((2, 2, 2, 2), [])]
    depth = 2 if ctx.quick else 3
    for cfg, ss in starts:
        ops = setter_ops(cfg)
        for d in range(1, depth + 1):
            if d == 3:
                ops = ops[::2]
            for seq in itertools.product(ops, repeat=d):
                yield cfg, ss, list(seq)


def exp_state(e):
    return (tuple(len(getattr(e, KW[k])) for k in KINDS), e.schedules)


# ----------------------------------------------------------------------------- correspondence
def correspondence(ctx):
    drv = Driver("C20")
    pend = []           # (op, input-for-report, impl outcome, reply index, parser)
    ctx.rule = ("exhaustive enumeration (single schedules up to the tier's length over the item alphabet, all 81 list-size "
                "configurations; lists of up to 3 schedules; setter histories; accepted schedules with None placeholders; "
                "tomography schedule arguments) + seed-dependent random long schedules; a case is non-trivial unless it is the empty schedule list")
    # (1) single schedules through the `schedules` setter of a live Experiment
    last_cfg, e = None, None
    nsingle = 0
    for cfg, s, txt in single_schedules(ctx, count=True):
        if cfg != last_cfg:
            e = Experiment(schedules=[], **none_lists(cfg))
            last_cfg, cfgtxt = cfg, enc_cfg(cfg)
        got = exp_outcome(lambda: setattr(e, "schedules", [s]))
        pend.append(("exp", (cfg, [s]), got, drv.ask("exp", cfgtxt, txt)))
        nsingle += 1
    ctx.evaluations += nsingle
    # (2) direct item / order validators
    for cfg in CONFIGS:
        e = Experiment(schedules=[], **none_lists(cfg))
        for it, txt in alphabet(cfg, "full"):
            try:
                e._validate_schedule_item(it)
                got = "ok"
            except (TypeError, ValueError, IndexError, KeyError) as ex:
                got = type(ex).__name__
            pend.append(("item", (cfg, it), got, drv.ask("item", enc_cfg(cfg), txt)))
            ctx.case(("item", cfg, txt), sample={"op": "item", "lists": cfg, "item": repr(it)})
    e = Experiment(schedules=[], **none_lists((1, 1, 1, 1)))
    for L in range(0, 6 if ctx.quick else 7):
        for ks in itertools.product(KINDS, repeat=L):
            try:
                e._validate_schedule_order([(k, 0) for k in ks])
                got = "ok"
            except ValueError:
                got = "err"
            pend.append(("order", ks, got, drv.ask("order", ",".join(ks) or "-")))
            ctx.case(("order", ks))
    # (3) several schedules per list (first failing schedule decides, stale loop variable), via the constructor
    for cfg, ss in itertools.chain(multi_lists(ctx), ((c, [s]) for c, s in random_long(ctx, 3000 if ctx.quick else 30000))):
        got = exp_outcome(lambda: Experiment(schedules=mat(ss), **none_lists(cfg)))
        pend.append(("exp", (cfg, ss), got, drv.ask("exp", enc_cfg(cfg), enc_scheds(ss))))
        ctx.case(("multi", cfg, repr(ss)), nontrivial=bool(ss), sample={"op": "exp", "lists": cfg, "schedules": repr(ss)})
        ctx.count(f"schedule lists with {min(len(ss), 3)} schedules")
    # (4) setter histories
    for cfg, ss, seq in setter_cases(ctx):
        e = Experiment(schedules=ss, **none_lists(cfg))
        res = [apply_op(e, op) for op in seq]
        pend.append(("seq", (cfg, ss, seq), (res, exp_state(e)),
                     drv.ask("seq", enc_cfg(cfg), enc_scheds(ss), *[enc_op(o) for o in seq])))
        ctx.case(("seq", cfg, repr(ss), repr(seq)), sample={"op": "seq", "lists": cfg, "schedules": repr(ss), "ops": repr(seq)})
        ctx.count(f"setter histories of length {len(seq)}")
    # (4b) Experiment.copy(): re-validation through the constructor, same lists and schedules
    for cfg in [c for c in CONFIGS if c[0] > 0][::2]:
        good = [sc for sc in pool(cfg) if expected(lens_of(cfg), [sc])[0] == "ok"]
        for ss in ([], good[:1], good):
            e = Experiment(schedules=ss, **none_lists(cfg))
            got = exp_outcome(lambda: e.copy())
            st = exp_state(e.copy()) if got[0] == "ok" else None
            pend.append(("copy", (cfg, ss), (got, st), drv.ask("copy", enc_cfg(cfg), enc_scheds(ss))))
            ctx.case(("copy", cfg, repr(ss)), nontrivial=bool(ss), sample={"op": "copy", "lists": cfg, "schedules": repr(ss)})
    # (5) calc_prob_dist on accepted schedules (None placeholders, composition typing, shape)
    for o, lists, ms, s in calc_cases(ctx):
        e = Experiment(schedules=[s], **{KW[k]: v for k, v in lists.items()})
        got = calc_outcome(e, 0, s)
        if got[0] == "ok":
            # the outcome shape of the composed distribution (calc_prob_dist itself returns the flat `.ps` only)
            import quara.objects.operators as qop
            got = ("ok", got[1], tuple(qop.compose_qoperations(*[lists[k][i] for k, i in reversed(s)]).shape))
        pend.append(("calc", (ms, s), got, drv.ask("calc", *[enc_objlist(ms[k]) for k in KINDS], enc_scheds([s]), "i:0")))
        ctx.case(("calc", repr(ms), repr(s)), sample={"op": "calc", "schedule": repr(s)})
        ctx.count("calc_prob_dist: " + ("ends in povm" if s[-1][0] == "povm" else "does not end in povm"))
    o, lists, ms, s = next(calc_cases(ctx))
    e = Experiment(schedules=[s], **{KW[k]: v for k, v in lists.items()})
    for idx in (True, 1, -1, "0", None, 0):
        got = calc_outcome(e, idx, s)
        pend.append(("calc", (ms, s, idx), got, drv.ask("calc", *[enc_objlist(ms[k]) for k in KINDS], enc_scheds([s]), enc_val(idx))))
        ctx.case(("calc-idx", repr(idx)))
    # (6) tomography constructors
    objs = real_objects(ctx, 21)
    for cls, ns, npv, arg in tomo_cases(ctx):
        got = tomo_build(ctx, objs, cls, ns, npv, arg)
        if got[0] == "ok":
            got = ("ok", got[1]._experiment.schedules)
        if type(arg) is str:
            if not re.fullmatch(r"\w+", arg):
                continue       # not encodable in the line protocol; the oracle covers these strings
            i = drv.ask("tomo", cls, ns, npv, "str", arg)
        else:
            i = drv.ask("tomo", cls, ns, npv, "list", enc_scheds(arg))
        pend.append(("tomo", (cls, ns, npv, arg), got, i))
        ctx.case(("tomo", cls, ns, npv, repr(arg)), nontrivial=arg != [], sample={"op": "tomo", "class": cls, "schedules": repr(arg)})
        ctx.count(f"tomography {cls} schedule arguments")
    out = drv.run()
    seen = set()
    for op, inp, impl, i in pend:
        ctx.corr_ops.add(op)
        line = out[i]
        ok = False
        if line == "bad-op":
            ok = False
        elif op == "exp":
            ok = model_outcome(line) == impl
            if inp[1] and inp[1] != [[]]:
                seen.add(hash(drv.reqs[i]))
        elif op in ("item",):
            ok = line == impl
        elif op == "order":
            ok = (line == "ok") == (impl == "ok")
        elif op == "seq":
            res, (lens, scheds) = impl
            parts = line.split(" # ")
            if len(parts) == 3:
                mres = [model_outcome(x) for x in parts[0].split("/")]
                mlens = tuple(0 if t == "-" else len(t) for t in parts[1].split())
                ok = mres == res and mlens == lens and parts[2] == enc_scheds(scheds)
        elif op == "copy":
            got, st = impl
            parts = line.split(" # ")
            if got[0] == "ok" and len(parts) == 3 and parts[0] == "ok":
                ok = tuple(0 if t == "-" else len(t) for t in parts[1].split()) == st[0] and parts[2] == enc_scheds(st[1])
            else:
                ok = got[0] != "ok" and model_outcome(line) == got
        elif op == "calc":
            t = line.split()
            if impl[0] == "ok":
                mshape = tuple(int(x) for x in t[1].split(",")) if t[0] == "ok" else None
                ok = t[0] == "ok" and int(np.prod(mshape)) == len(impl[1])
                if ok and len(impl) > 2:
                    ok = mshape == impl[2]      # exact outcome shape, in order (incl. multi-dimensional tensor-product shapes)
                impl = ("ok", len(impl[1]), impl[2] if len(impl) > 2 else None)
            elif impl[0] == "isNone":
                s = inp[1]
                ok = t[0] == "isNone" and impl[1].startswith("{}s[{}] is None".format(*s[int(t[1])]))
            else:
                ok = " ".join(impl) == line
        elif op == "tomo":
            t = line.split()
            if impl[0] == "ok":
                ok = t[0] == "ok" and t[1] == enc_scheds(impl[1])
                impl = ("ok", repr(impl[1]))
            elif t[0] in ("item",):
                ok = impl == model_outcome(line)
            elif t[0] in ("order", "value"):
                ok = impl == (t[0], int(t[1]))
            else:
                ok = impl == (t[0],)
        if not ok:
            ctx.disagree(op, repr(inp), repr(impl), line)
    ctx.nontrivial.update(seen)


# ----------------------------------------------------------------------------- oracle
def rp(kind, **kw):
    d = {"kind": kind}
    d.update({k: (repr(v) if k in ("schedules", "ops", "arg") else v) for k, v in kw.items()})
    return d


def oracle(ctx, volume=1):
    """the property on the implementation, against the independent statement of the rule above"""
    ctx.notes = ["Experiment._validate_type and the downstream parts of the tomography constructors (set_coeffs, is_valid_experiment) are not modelled; "
                 "the oracle constructs the real objects and executes every accepted schedule",
                 "former defects D13 (non-iterable schedule -> UnboundLocalError) and D14 (StandardQmpt accepted trailing items) are fixed in /repo "
                 "(d4e3672, d963183); their oracle signatures stay live",
                 "former defect D18 (generator / dict / set schedule with fine items escaped as raw TypeError / KeyError) is fixed in /repo (df6ca25): "
                 "such schedules now get the schedule-order error (model: Schedule.nonSequence); the oracle signatures .../non-sequence-schedule/raises-* stay live",
                 "accepted_executable proves executability and the outcome shape; non-negativity, normalisation and the Born rule are oracle-only"]
    # (a) constructor over the exhaustive single-schedule language, multi lists and random long schedules
    n = 0
    for cfg, s, _ in single_schedules(ctx):
        got = exp_outcome(lambda: Experiment(schedules=[s], **none_lists(cfg)))
        judge(ctx, "Experiment", got, expected(lens_of(cfg), [s]), rp("exp", lists=cfg, schedules=[s]))
        n += 1
    ctx.evaluations += n
    for cfg, ss in itertools.chain(multi_lists(ctx), ((c, [s]) for c, s in random_long(ctx, (3000 if ctx.quick else 30000) * volume))):
        got = exp_outcome(lambda: Experiment(schedules=mat(ss), **none_lists(cfg)))
        judge(ctx, "Experiment", got, expected(lens_of(cfg), ss), rp("exp", lists=cfg, schedules=ss))
        ctx.case(("o-multi", cfg, repr(ss)), nontrivial=bool(ss))
    # (b) setter histories: same rule against the would-be state; failing setter leaves the state unchanged
    for cfg, ss, seq in setter_cases(ctx):
        e = Experiment(schedules=ss, **none_lists(cfg))
        lens, cur = dict(lens_of(cfg)), ss
        for k, op in enumerate(seq):
            got = apply_op(e, op)
            if op[0] == "list":
                trial = dict(lens); trial[op[1]] = op[2]
                exp = expected(trial, cur)
                site = f"setter-{KW[op[1]]}"
            else:
                trial = lens
                exp = expected(lens, op[1])
                site = "setter-schedules"
            fine = judge(ctx, site, got, exp, rp("seq", lists=cfg, schedules=ss, ops=seq[:k + 1]))
            if exp[0] == "ok":
                lens = trial
                cur = op[1] if op[0] == "sched" else cur
            if fine and exp_state(e) != (tuple(lens[k2] for k2 in KINDS), cur):
                ctx.violate(f"C20/{site}/state-after-call", f"after {op} the experiment holds {exp_state(e)}, expected lists {lens} schedules {cur}",
                            rp("seq", lists=cfg, schedules=ss, ops=seq[:k + 1]))
                break
        ctx.case(("o-seq", cfg, repr(ss), repr(seq)))
    # (b2) copy(): an accepted experiment can be copied; the copy holds equal lists and schedules in new list objects
    for cfg in [c for c in CONFIGS if c[0] > 0][::2]:
        good = [sc for sc in pool(cfg) if expected(lens_of(cfg), [sc])[0] == "ok"]
        for ss in ([], good[:1], good):
            e = Experiment(schedules=ss, **none_lists(cfg))
            r = rp("copy", lists=cfg, schedules=ss)
            ctx.case(("o-copy", cfg, repr(ss)), nontrivial=bool(ss))
            try:
                c2 = e.copy()
            except Exception as ex:  # noqa
                ctx.violate("C20/copy/raises", f"copy of an accepted experiment raises {type(ex).__name__}: {ex}", r); continue
            if exp_state(c2) != exp_state(e) or c2.schedules is e.schedules or any(getattr(c2, KW[k]) is getattr(e, KW[k]) for k in KINDS):
                ctx.violate("C20/copy/state", f"copy holds {exp_state(c2)} / shares list objects; original {exp_state(e)}", r)
    # (c) accepted schedules: executable iff no None on the path; distribution = Born rule, normalised
    for o, lists, ms, s in calc_cases(ctx):
        e = Experiment(schedules=[s], **{KW[k]: v for k, v in lists.items()})
        got = calc_outcome(e, 0, s)
        has_none = any(lists[k][i] is None for k, i in s)
        r = rp("calc", schedules=[s], layout=repr(ms))
        ctx.case(("o-calc", repr(ms), repr(s)))
        if has_none:
            if got[0] != "isNone":
                ctx.violate("C20/calc_prob_dist/none-placeholder-not-rejected", f"schedule {s} references a None placeholder, got {got[0]}", r)
            continue
        if s[-1][0] != "povm":
            continue
        if got[0] != "ok":
            ctx.violate(f"C20/calc_prob_dist/accepted-not-executable/{got[-1]}", f"accepted schedule {s} ending in its only POVM raises {got} (layout {ms})", r)
            continue
        ps = np.asarray(got[1], dtype=float)
        ref = born(lists, s)
        if ps.shape != ref.shape or np.any(ps < -1e-12) or abs(ps.sum() - 1) > 1e-9:
            ctx.violate("C20/calc_prob_dist/not-normalised", f"schedule {s}: sum {ps.sum()} shape {ps.shape} (expected {ref.shape})", r)
        elif not np.allclose(ps, ref, atol=1e-9):
            ctx.violate("C20/calc_prob_dist/born-mismatch", f"schedule {s}: max deviation {np.abs(ps - ref).max():.3g} from tr(E_y ... G rho)", r)
    if getattr(ctx, "_c20_preuse_error", None):
        ctx.violate("C20/calc_prob_dist/objects-reused-as-operands/raises", f"tensor_product / compose on the objects of the experiment raises {ctx._c20_preuse_error}",
                    rp("calc-preuse"))
    # (d) tomography classes accept exactly their own shape; accepted ones are executable
    objs = real_objects(ctx, 21)
    true_obj = {"qst": objs["state"][0], "povmt": objs["povm"][0], "qpt": objs["gate"][0], "qmpt": objs["mprocess"][0]}
    for cls, ns, npv, arg in tomo_cases(ctx):
        got = tomo_build(ctx, objs, cls, ns, npv, arg)
        r = rp("tomo", cls=cls, ns=ns, npv=npv, arg=arg)
        ctx.case(("o-tomo", cls, ns, npv, repr(arg)), nontrivial=arg != [])
        if type(arg) is str:
            if arg == "all":
                if got[0] != "ok" or got[1]._experiment.schedules != tomo_all(cls, ns, npv):
                    ctx.violate(f"C20/{cls}/all-expansion", f"schedules='all' gives {got if got[0] != 'ok' else got[1]._experiment.schedules}", r)
            elif got[0] != "str":
                ctx.violate(f"C20/{cls}/unsupported-string-not-rejected", f"schedules={arg!r}: {got[0]}", r)
            continue
        if arg == []:
            continue        # no schedule at all: vacuous for the property
        shape_ok = all(tomo_shape_ok(cls, s, ns, npv) for s in arg)
        if shape_ok and got[0] != "ok":
            ctx.violate(f"C20/{cls}/rejects-own-shape", f"{arg} rejected: {got}", r)
        elif not shape_ok and got[0] == "ok":
            bad = next(s for s in arg if not tomo_shape_ok(cls, s, ns, npv))
            why = "trailing-items" if (type(bad) is list and len(bad) > 3) else "other"
            ctx.violate(f"C20/{cls}/accepts-foreign-shape/{why}", f"{cls} accepts {bad}", r)
        elif not shape_ok and got[0] in ("other", "unbound"):
            ctx.violate(f"C20/{cls}/rejects-with-{'UnboundLocalError' if got[0] == 'unbound' else got[1].split(':')[0]}", f"{arg}: {got}", r)
        elif shape_ok:
            t = got[1]
            if t._experiment.schedules != arg:
                ctx.violate(f"C20/{cls}/schedules-not-kept", f"{arg} stored as {t._experiment.schedules}", r)
                continue
            try:
                pds = t.generate_prob_dists_sequence(true_obj[cls])
            except Exception as ex:  # noqa
                ctx.violate(f"C20/{cls}/accepted-not-executable", f"{arg}: {type(ex).__name__}: {ex}", r)
                continue
            st, pv = (objs["state"] * 2)[:ns], (objs["povm"] * 2)[:npv]
            L = {"state": [true_obj[cls]] if cls == "qst" else st, "povm": [true_obj[cls]] if cls == "povmt" else pv,
                 "gate": [true_obj["qpt"]], "mprocess": [true_obj["qmpt"]]}
            refs = [born(L, s) for s in arg]
            if len(pds) != len(arg) or any(np.shape(p) != q.shape or abs(np.sum(p) - 1) > 1e-9 or np.any(np.asarray(p) < -1e-12)
                                           for p, q in zip(pds, refs)):
                ctx.violate(f"C20/{cls}/accepted-not-normalised", f"{arg}: {pds}", r)
            elif any(not np.allclose(p, q, atol=1e-9) for p, q in zip(pds, refs)):
                ctx.violate(f"C20/{cls}/accepted-born-mismatch", f"{arg}: {pds} vs {refs}", r)
    tomo_boundary(ctx)


def tomo_boundary(ctx):
    """the tomography circuits on boundary objects: computational-basis testers, projective POVMs, a projective true
    m-process / a Clifford true gate (outcomes of probability exactly 0 inside the circuit)"""
    from quara.objects.state_typical import generate_state_from_name
    from quara.objects.povm_typical import generate_povm_from_name
    from quara.objects.gate_typical import generate_gate_from_gate_name
    from quara.objects.mprocess_typical import generate_mprocess_from_name
    import qobj
    c = qobj.csys("qubit")
    st = [generate_state_from_name(c, x) for x in ("z0", "z1", "x0")]
    pv = [generate_povm_from_name(x, c) for x in ("z", "x")]
    trues = {"qst": [generate_state_from_name(c, x) for x in ("z0", "z1")], "povmt": [generate_povm_from_name("z", c)],
             "qpt": [generate_gate_from_gate_name(x, c) for x in ("hadamard", "x", "identity")],
             "qmpt": [generate_mprocess_from_name(c, x) for x in ("z-type1", "x-type1")]}
    classes = tomo_classes()
    for cls, (C, kw) in classes.items():
        args = kw(st, pv)
        if cls == "povmt":
            args["num_outcomes"] = 2
        for which, true in enumerate(trues[cls]):
            r = rp("tomo-boundary", cls=cls, true=which)
            ctx.case(("o-tomo-boundary", cls, which))
            try:
                t = C(**args)
                sched = t._experiment.schedules
                pds = t.generate_prob_dists_sequence(true)
            except Exception as ex:  # noqa
                ctx.violate(f"C20/{cls}/accepted-not-executable/boundary-objects", f"{type(ex).__name__}: {ex}", r)
                continue
            L = {"state": [true] if cls == "qst" else st, "povm": [true] if cls == "povmt" else pv,
                 "gate": [true] if cls == "qpt" else [], "mprocess": [true] if cls == "qmpt" else []}
            refs = [born(L, s) for s in sched]
            if len(pds) != len(sched) or any(np.shape(p) != q.shape or abs(np.sum(p) - 1) > 1e-9 or np.any(np.asarray(p) < -1e-12)
                                             for p, q in zip(pds, refs)):
                ctx.violate(f"C20/{cls}/accepted-not-normalised/boundary-objects", f"{pds}", r)
            elif any(not np.allclose(p, q, atol=1e-9) for p, q in zip(pds, refs)):
                ctx.violate(f"C20/{cls}/accepted-born-mismatch/boundary-objects", f"{pds} vs {refs}", r)


def search(ctx):
    oracle(ctx, volume=5)


# ----------------------------------------------------------------------------- replay
def replay(ctx, data):
    r = data["replay"]
    print("replaying", r)
    ev = lambda s: eval(s, {"np": np, "NS": NS, "__builtins__": {}})  # reprs written by this harness only
    before = len(ctx.violations)
    if r["kind"] == "exp":
        cfg, ss = tuple(r["lists"]), ev(r["schedules"])
        got = exp_outcome(lambda: Experiment(schedules=mat(ss), **none_lists(cfg)))
        exp = expected(lens_of(cfg), ss)
        print("implementation:", got, "| rule:", exp)
        judge(ctx, "Experiment", got, exp, r)
    elif r["kind"] == "seq":
        cfg, ss, seq = tuple(r["lists"]), ev(r["schedules"]), ev(r["ops"])
        e = Experiment(schedules=ss, **none_lists(cfg))
        lens, cur = dict(lens_of(cfg)), ss
        for op in seq:
            got = apply_op(e, op)
            if op[0] == "list":
                trial = dict(lens); trial[op[1]] = op[2]; exp = expected(trial, cur)
            else:
                trial = lens; exp = expected(lens, op[1])
            print(op, "-> implementation:", got, "| rule:", exp, "| state:", exp_state(e))
            fine = judge(ctx, "setter", got, exp, r)
            if exp[0] == "ok":
                lens = trial; cur = op[1] if op[0] == "sched" else cur
            if fine and exp_state(e) != (tuple(lens[k] for k in KINDS), cur):
                ctx.violate("state", "", r)
    elif r["kind"] == "tomo" and type(ev(r["arg"])) is list and ev(r["arg"]):
        arg, cls, ns, npv = ev(r["arg"]), r["cls"], r["ns"], r["npv"]
        got = tomo_build(ctx, real_objects(ctx, 21), cls, ns, npv, arg)
        shape_ok = all(tomo_shape_ok(cls, s, ns, npv) for s in arg)
        print(f"Standard{cls.capitalize()}(schedules={arg}) ->", got[0] if got[0] == "ok" else got, "| every schedule of the class's own shape:", shape_ok)
        if (got[0] == "ok") != shape_ok:
            return 1
        oracle(ctx)
        return 1 if any(v["signature"] == data.get("signature") for v in ctx.violations) else 0
    else:
        oracle(ctx)
        sig = data.get("signature")
        hit = [v for v in ctx.violations if v["signature"] == sig]
        for v in hit[:3]:
            print(v["signature"], v["what"])
        return 1 if hit else 0
    return 1 if len(ctx.violations) > before else 0
