"""C16 — outcome-probability bookkeeping: correspondence with QModel.C16 and property oracle."""
import itertools
import numpy as np
import shim  # noqa: F401
from common import Driver, q, qlist, ilist, unqlist, unilist, allclose
from quara.utils import index_util
from quara.objects.multinomial_distribution import MultinomialDistribution

EPS8 = "1/100000000"


def shapes(maxvars, maxval):
    for k in range(1, maxvars + 1):
        for s in itertools.product(range(1, maxval + 1), repeat=k):
            yield list(s)


def err_kind(e):
    m = str(e)
    if isinstance(e, KeyError):
        return "duplicate"
    if isinstance(e, IndexError):
        return "indexError"
    if isinstance(e, TypeError):
        return "emptyShape"
    if isinstance(e, ZeroDivisionError):
        return "zerodiv"
    if "non-negative number" in m:
        return "negative"
    if "sum of prob_dist" in m:
        return "sumNotOne"
    if "do not match" in m:
        return "sizeMismatch"
    if "out of range" in m:
        return "outOfRange"
    if "length of conditional" in m:
        return "lenMismatch"
    if "length of nums_length" in m:
        return "lenMismatch"
    return type(e).__name__


def dist_repr(fn):
    try:
        d = fn()
        return ("ok", list(d.shape), [float(x) for x in d.ps], bool(d.is_zero_dist))
    except Exception as e:  # noqa
        return ("err", err_kind(e))


def parse_dist(line):
    t = line.split()
    if t[0] == "err":
        return ("err", t[1])
    return ("ok", unilist(t[1]), [float(x) for x in unqlist(t[2])], t[3] == "true")


def same_dist(a, b):
    if a[0] != b[0]:
        return False
    if a[0] == "err":
        # numpy turns 0/0 into nan and then fails the validation; the model reports divZero
        return a[1] == b[1] or {a[1], b[1]} == {"divZero", "sumNotOne"}
    return a[1] == b[1] and a[3] == b[3] and allclose(a[2], b[2])


def rand_tensor(g, shape, mode):
    n = int(np.prod(shape))
    w = g.integers(1, 64, size=n).astype(float)
    if mode == "zeros":
        w[g.random(n) < 0.35] = 0.0
    if w.sum() == 0:
        w[0] = 1.0
    p = w / w.sum()
    if mode == "subthreshold":
        k = g.integers(0, n)
        p = p * (1 - 1e-10)
        p[k] += 1e-10 if p[k] == 0 else 0.0
        p[g.integers(0, n)] += 0.0
    return p


def translate(ctx):
    """regenerate lean/QGen/C16.lean from /repo's index_util.py, probability.py, multinomial_distribution.py (c16_translate.py)"""
    import c16_translate
    return c16_translate.translate()


def correspondence(ctx):
    drv = Driver("C16")
    pend = []
    maxvars, maxval = (3, 4) if ctx.quick else (4, 5)
    # --- index maps, exhaustively
    for sh in shapes(maxvars, maxval):
        n = int(np.prod(sh))
        for s in range(n):
            mi = index_util.index_multi_dimensional_from_index_serial(sh, s)
            i1 = drv.ask("multi", ilist(sh), s)
            pend.append(("multi", (sh, s), "ok " + ilist(mi), i1))
            ser = index_util.index_serial_from_index_multi_dimensional(sh, tuple(mi))
            i2 = drv.ask("serial", ilist(sh), ilist(mi))
            pend.append(("serial", (sh, list(mi)), f"ok {ser}", i2))
            # the same requests to the definitions regenerated from the source on this run
            pend.append(("gmulti", (sh, s), "ok " + ilist(mi), drv.ask("gmulti", ilist(sh), s)))
            pend.append(("gserial", (sh, list(mi)), f"ok {ser}", drv.ask("gserial", ilist(sh), ilist(mi))))
            ctx.case(("idx", tuple(sh), s), nontrivial=len(sh) > 1,
                     sample={"op": "multi/serial", "shape": sh, "serial": s, "multi": list(mi)})
        ctx.count(f"index shapes nvars={len(sh)}")
    # serial beyond the range (wraps) and length mismatch
    for sh in ([2, 3], [3, 1, 2], [4]):
        n = int(np.prod(sh))
        for s in (n, n + 1, 2 * n + 1):
            mi = index_util.index_multi_dimensional_from_index_serial(sh, s)
            pend.append(("multi", (sh, s), "ok " + ilist(mi), drv.ask("multi", ilist(sh), s)))
            pend.append(("gmulti", (sh, s), "ok " + ilist(mi), drv.ask("gmulti", ilist(sh), s)))
        try:
            index_util.index_serial_from_index_multi_dimensional(sh, tuple([0] * (len(sh) + 1)))
            r = "ok"
        except ValueError:
            r = "err lenMismatch"
        pend.append(("serial", (sh, "len+1"), r, drv.ask("serial", ilist(sh), ilist([0] * (len(sh) + 1)))))
        pend.append(("gserial", (sh, "len+1"), r, drv.ask("gserial", ilist(sh), ilist([0] * (len(sh) + 1)))))
        ctx.count("index error/wrap cases")
    # --- distributions
    g = ctx.npgen(1)
    ntens = 60 if ctx.quick else 400
    dshapes = [s for s in shapes(3, 4) if np.prod(s) > 1] if ctx.quick else [s for s in shapes(4, 4) if np.prod(s) > 1]
    for t in range(ntens):
        sh = dshapes[int(g.integers(0, len(dshapes)))]
        mode = ["plain", "zeros", "subthreshold"][t % 3]
        p = rand_tensor(g, sh, mode)
        eps = [None, 1e-8, 1e-3, 0.0][int(g.integers(0, 4))]
        eff = eps if eps else 1e-8
        ctx.count(f"dist mode={mode}")
        a = dist_repr(lambda: MultinomialDistribution(p.copy(), tuple(sh), eps_zero=eps))
        pend.append(("ctor", (sh, p.tolist(), eps), a, drv.ask("ctor", qlist(p), ilist(sh), q(eff))))
        # the same call with the RAW eps_zero argument: the model resolves None / 0.0 to the generated default
        pend.append(("ctoro", (sh, p.tolist(), eps), a, drv.ask("ctoro", qlist(p), ilist(sh), "none" if eps is None else q(eps))))
        ctx.case(("ctor", tuple(sh), tuple(p), eps), nontrivial=mode != "plain")
        k = len(sh)
        subsets = [list(c) for r in range(1, k + 1) for c in itertools.permutations(range(k), r)]
        for rem in subsets:
            a = dist_repr(lambda: MultinomialDistribution(p.copy(), tuple(sh), eps_zero=eps).marginalize(rem))
            pend.append(("marg", (sh, p.tolist(), eps, rem), a,
                         drv.ask("marg", qlist(p), ilist(sh), q(eff), ilist(rem))))
            ctx.case(("marg", tuple(sh), tuple(p), tuple(rem)), nontrivial=len(rem) < k,
                     sample={"op": "marginalize", "shape": sh, "remain": rem})
        for r in range(1, k):
            for idxs in (itertools.permutations(range(k), r) if t % 2 == 0 else itertools.combinations(range(k), r)):
                for vals in itertools.product(*[range(sh[i]) for i in idxs]):
                    a = dist_repr(lambda: MultinomialDistribution(p.copy(), tuple(sh), eps_zero=eps)
                                  .conditionalize(list(idxs), list(vals)))
                    pend.append(("cond", (sh, p.tolist(), eps, idxs, vals), a,
                                 drv.ask("cond", qlist(p), ilist(sh), q(eff), ilist(idxs), ilist(vals))))
                    ctx.case(("cond", tuple(sh), tuple(p), idxs, vals),
                             sample={"op": "conditionalize", "shape": sh, "idx": list(idxs), "val": list(vals)})
    # total mass slightly off (no sub-threshold entry, so the constructor does not renormalise): accepted iff |sum-1| <= 1e-8
    for sh in ([4], [2, 3], [2, 2, 2]):
        n = int(np.prod(sh))
        base = np.full(n, 1.0 / n)
        for delta in (0.0, 3e-9, -3e-9, 5e-8, -5e-8, 1e-6, -1e-6, 9e-6, 1e-4):
            p = base.copy(); p[0] += delta
            a = dist_repr(lambda: MultinomialDistribution(p.copy(), tuple(sh)))
            pend.append(("ctor", (sh, p.tolist(), "mass", delta), a, drv.ask("ctor", qlist(p), ilist(sh), EPS8)))
            ctx.count("ctor mass-error cases")
            ctx.case(("mass", tuple(sh), delta), nontrivial=delta != 0.0,
                     sample={"op": "ctor", "shape": sh, "mass_error": delta})
    # ProbDist.__getitem__ (prob_dist.py): tuple access on non-square shapes, every multi-index
    from quara.objects.prob_dist import ProbDist
    for sh in ([2, 3], [3, 2], [2, 1], [2, 2, 3], [3, 1, 2]):
        n = int(np.prod(sh))
        vals = (np.arange(1, n + 1) / (n * (n + 1) / 2)).astype(float)
        pd = ProbDist(vals.copy(), tuple(sh))
        for mi in itertools.product(*[range(x) for x in sh]):
            try:
                impl = "ok " + q(float(pd[tuple(mi)]))
            except Exception as e:  # noqa
                impl = "err index"
            pend.append(("pdget", (sh, list(mi)), impl, drv.ask("pdget", qlist(vals), ilist(sh), ilist(mi))))
            ctx.case(("pdget", tuple(sh), mi), sample={"op": "ProbDist[tuple]", "shape": sh, "idx": list(mi)})
        ctx.count("ProbDist shapes")
    # error branches
    bad = [
        ("ctor-neg", lambda: MultinomialDistribution(np.array([-0.5, 1.5]), (2,)), ("ctor", "-1/2,3/2", "2", EPS8)),
        ("ctor-sum", lambda: MultinomialDistribution(np.array([0.5, 0.25]), (2,)), ("ctor", "1/2,1/4", "2", EPS8)),
        ("ctor-size", lambda: MultinomialDistribution(np.array([0.5, 0.5]), (3,)), ("ctor", "1/2,1/2", "3", EPS8)),
        ("marg-range", lambda: MultinomialDistribution(np.array([0.5, 0.5]), (2,)).marginalize([1]),
         ("marg", "1/2,1/2", "2", EPS8, "1")),
        ("marg-dup", lambda: MultinomialDistribution(np.array([0.25] * 4), (2, 2)).marginalize([0, 0]),
         ("marg", "1/4,1/4,1/4,1/4", "2,2", EPS8, "0,0")),
        ("marg-dup-before-range", lambda: MultinomialDistribution(np.array([0.25] * 4), (2, 2)).marginalize([0, 0, 5]),
         ("marg", "1/4,1/4,1/4,1/4", "2,2", EPS8, "0,0,5")),
        ("marg-range-before-dup", lambda: MultinomialDistribution(np.array([0.25] * 4), (2, 2)).marginalize([5, 0, 0]),
         ("marg", "1/4,1/4,1/4,1/4", "2,2", EPS8, "5,0,0")),
        ("cond-len", lambda: MultinomialDistribution(np.array([0.25] * 4), (2, 2)).conditionalize([0], [0, 1]),
         ("cond", "1/4,1/4,1/4,1/4", "2,2", EPS8, "0", "0,1")),
        ("cond-idx", lambda: MultinomialDistribution(np.array([0.25] * 4), (2, 2)).conditionalize([0], [2]),
         ("cond", "1/4,1/4,1/4,1/4", "2,2", EPS8, "0", "2")),
        ("cond-zero", lambda: MultinomialDistribution(np.array([0.5, 0.5, 0, 0]), (2, 2)).conditionalize([0], [1]),
         ("cond", "1/2,1/2,0,0", "2,2", EPS8, "0", "1")),
    ]
    for name, fn, req in bad:
        with np.errstate(all="ignore"):
            a = dist_repr(fn)
        pend.append((req[0], name, a, drv.ask(*req)))
        ctx.count("dist error branches")
        ctx.case(("bad", name))
    _ensemble_correspondence(ctx, drv, pend)
    out = drv.run()
    for op, inp, impl, i in pend:
        ctx.corr_ops.add(op)
        if op in ("multi", "serial", "pdget", "gmulti", "gserial", "ensget", "extend", "nested"):
            if out[i] != impl:
                ctx.disagree(op, inp, impl, out[i])
        else:
            m = parse_dist(out[i]) if out[i] != "bad-op" else ("bad-op",)
            if m[0] == "bad-op" or not same_dist(impl, m):
                ctx.disagree(op, inp, impl, out[i])


def _label(vec, refs):
    """index of the reference vector equal to vec (refs are pairwise distinct random states), else -1"""
    hits = [k for k, r in enumerate(refs) if np.allclose(vec, r, atol=1e-9)]
    return hits[0] if len(hits) == 1 else -1


def _ensemble_correspondence(ctx, drv, pend):
    """the list bookkeeping of state ensembles: `StateEnsemble.state(tuple)`, the extend-loop of MProcess∘StateEnsemble and the
    nested loops of StateEnsemble⊗StateEnsemble, each compared with the model's `ensGet` / `extendLoop` / `nestedLoop`"""
    import qobj
    from quara.objects.operators import compose_qoperations, tensor_product
    from quara.objects.state_ensemble import StateEnsemble
    g = ctx.npgen(7)
    c_sys = qobj.csys("qubit")
    d = c_sys.dim
    # --- ensget: tuple access on a hand-built ensemble of pairwise distinct members
    for sh in ([2, 3], [3, 2], [2, 2, 3], [4], [3, 1, 2]):
        n = int(np.prod(sh))
        sts = [qobj.State(c_sys, qobj.vec_of(c_sys, qobj.rand_density(g, d))) for _ in range(n)]
        ens = StateEnsemble(sts, MultinomialDistribution(np.full(n, 1.0 / n), tuple(sh)))
        idxs = list(itertools.product(*[range(x) for x in sh]))
        idxs += [tuple([0] * (len(sh) + 1)), tuple(list(idxs[-1][:-1]) + [sh[-1]]), tuple([x for x in sh])]  # wrong length, overflow
        for mi in idxs:
            try:
                st = ens.state(tuple(int(x) for x in mi))
                k = [i for i, s_ in enumerate(sts) if s_ is st]
                a = f"ok {k[0]}"
            except (ValueError, IndexError):
                a = "err index"
            pend.append(("ensget", (sh, list(mi)), a, drv.ask("ensget", ilist(range(n)), ilist(sh), ilist(mi))))
            ctx.case(("ensget", tuple(sh), tuple(mi)), nontrivial=len(sh) > 1)
        ctx.count("ensemble tuple-access shapes")
    # --- extend: order of the members of MProcess∘StateEnsemble
    for (m1, m2) in ((2, 3), (3, 2), (4, 2)):
        M1, K1 = qobj.rand_mprocess(g, c_sys, m1)
        M2, K2 = qobj.rand_mprocess(g, c_sys, m2)
        rho = qobj.rand_density(g, d)
        e1 = compose_qoperations(M1, qobj.State(c_sys, qobj.vec_of(c_sys, rho)))
        e2 = compose_qoperations(M2, e1)
        refs, labels = [], []
        for i in range(m1):
            r1 = K1[i][0] @ rho @ K1[i][0].conj().T
            for j in range(m2):
                r2 = K2[j][0] @ r1 @ K2[j][0].conj().T
                refs.append(qobj.vec_of(c_sys, r2 / np.trace(r2).real)); labels.append(1000 * i + j)
        got = [_label(s_.vec, refs) for s_ in e2.states]
        a = "ok " + ilist([labels[k] if k >= 0 else -1 for k in got])
        pend.append(("extend", (m1, m2), a, drv.ask("extend", m1, m2)))
        ctx.case(("extend", m1, m2), nontrivial=True); ctx.count("ensemble extend-loop cases")
    # --- nested: order of the members of StateEnsemble⊗StateEnsemble
    c1, c2 = qobj.csys("qubit", names=(0,)), qobj.csys("qubit", names=(1,))
    for (n1, n2) in ((2, 3), (3, 2)):
        A = [qobj.State(c1, qobj.vec_of(c1, qobj.rand_density(g, 2))) for _ in range(n1)]
        B = [qobj.State(c2, qobj.vec_of(c2, qobj.rand_density(g, 2))) for _ in range(n2)]
        ea = StateEnsemble(A, MultinomialDistribution(np.full(n1, 1.0 / n1), (n1,)))
        eb = StateEnsemble(B, MultinomialDistribution(np.full(n2, 1.0 / n2), (n2,)))
        prod_ = tensor_product(ea, eb)
        refs = [tensor_product(a_, b_).vec for a_ in A for b_ in B]
        labels = [1000 * i + j for i in range(n1) for j in range(n2)]
        got = [_label(s_.vec, refs) for s_ in prod_.states]
        a = "ok " + ilist([labels[k] if k >= 0 else -1 for k in got])
        pend.append(("nested", (n1, n2), a, drv.ask("nested", n1, n2)))
        ctx.case(("nested", n1, n2), nontrivial=True); ctx.count("ensemble nested-loop cases")


# ----------------------------------------------------------------------------- oracle
def oracle(ctx, volume=1):
    """the property itself, evaluated on the implementation with independent references"""
    maxvars, maxval = (3, 4) if (ctx.quick and volume == 1) else (4, 5)
    for sh in shapes(maxvars, maxval):
        n = int(np.prod(sh))
        for s in range(n):
            try:
                mi = index_util.index_multi_dimensional_from_index_serial(sh, s)
                ref = tuple(int(x) for x in np.unravel_index(s, sh))
                back = index_util.index_serial_from_index_multi_dimensional(sh, tuple(mi))
            except Exception as e:  # noqa
                ctx.violate("C16/index/raises", f"index map raises {type(e).__name__} on shape {sh} serial {s}",
                            {"kind": "index", "shape": sh, "serial": s})
                break
            if tuple(mi) != ref or back != s or any(not (0 <= a < b) for a, b in zip(mi, sh)):
                ctx.violate("C16/index/roundtrip", f"shape {sh} serial {s}: multi {mi} (row-major {ref}), back {back}",
                            {"kind": "index", "shape": sh, "serial": s})
                break
    # the documented tolerance of the sum check: every accepted distribution (and its marginals) has |sum - 1| <= 1e-8
    for sh in ([3], [2, 3], [2, 2, 3]):
        n = int(np.prod(sh))
        for delta in (3e-9, 5e-8, -5e-8, 1e-6, -9e-6):
            p = np.full(n, 1.0 / n); p[-1] += delta
            rep = {"kind": "mass", "shape": sh, "ps": p.tolist()}
            try:
                d = MultinomialDistribution(p.copy(), tuple(sh))
            except ValueError:
                continue
            ds = [d] + [d.marginalize([i]) for i in range(len(sh))]
            if any(abs(float(np.sum(x.ps)) - 1.0) > 1e-8 + 1e-12 for x in ds):
                ctx.violate("C16/ctor/accepts-unnormalised", f"distribution of total mass 1{delta:+.0e} on shape {sh} is accepted (documented tolerance 1e-8)", rep)
    g = ctx.npgen(2)
    nt = (40 if ctx.quick else 300) * volume
    dshapes = [s for s in shapes(4, 4) if np.prod(s) > 1 and len(s) > 1]
    for t in range(nt):
        sh = dshapes[int(g.integers(0, len(dshapes)))]
        p = rand_tensor(g, sh, ["plain", "zeros"][t % 2])
        k = len(sh)
        T = p.reshape(sh)
        d = MultinomialDistribution(p.copy(), tuple(sh))
        ctx.case(("oracle", tuple(sh), tuple(p)))
        for r in range(1, k + 1):
            for rem in itertools.permutations(range(k), r):
                rep = {"kind": "marg", "shape": sh, "ps": p.tolist(), "remain": list(rem)}
                try:
                    m = d.marginalize(list(rem))
                except Exception as e:  # noqa
                    ctx.violate("C16/marginalize/raises", f"{type(e).__name__}: {e}", rep); continue
                keep = sorted(rem)
                ref = np.einsum(T, list(range(k)), keep)
                if tuple(m.shape) != tuple(sh[i] for i in keep) or not np.allclose(m.ps, ref.flatten(), atol=1e-12) \
                        or abs(m.ps.sum() - 1) > 1e-9:
                    ctx.violate("C16/marginalize/sum", f"marginal over {rem} of shape {sh} is not the sum over removed variables", rep)
        # tuple access agrees with the serial (row-major) layout
        for mi in itertools.product(*[range(x) for x in sh]):
            rep = {"kind": "getitem", "shape": sh, "ps": p.tolist(), "multi": list(mi)}
            try:
                bad = d[tuple(mi)] != d.ps[int(np.ravel_multi_index(mi, sh))]
            except Exception as e:  # noqa
                bad = True
            if bad:
                ctx.violate("C16/getitem/layout", f"d[{mi}] of shape {sh} is not the row-major entry", rep); break
        for r in range(1, k):
            for idxs in itertools.combinations(range(k), r):
                keep = [i for i in range(k) if i not in idxs]
                try:
                    marg = d.marginalize(list(idxs))
                except Exception as e:  # noqa
                    ctx.violate("C16/marginalize/raises-after-earlier-calls", f"{type(e).__name__}: {e} (marginal over {idxs} of shape {sh}, "
                                "after earlier marginalize / conditionalize calls on the same object)",
                                {"kind": "sequence", "shape": sh, "ps": p.tolist(), "idx": list(idxs)})
                    continue
                for vals in itertools.product(*[range(sh[i]) for i in idxs]):
                    rep = {"kind": "cond", "shape": sh, "ps": p.tolist(), "idx": list(idxs), "val": list(vals)}
                    try:
                        pm = marg[tuple(vals)] if len(vals) > 1 else marg[int(vals[0])]
                    except Exception as e:  # noqa
                        ctx.violate("C16/getitem/raises", f"marginal{tuple(marg.shape)}[{vals}] raises {type(e).__name__}", rep); continue
                    if pm <= 1e-6:
                        continue
                    before = np.array(d.ps, copy=True)
                    try:
                        c = d.conditionalize(list(idxs), list(vals))
                    except Exception as e:  # noqa
                        ctx.violate("C16/conditionalize/raises", f"{type(e).__name__}: {e}", rep); continue
                    if not np.array_equal(np.asarray(d.ps), before):
                        ctx.violate("C16/conditionalize/operand-changed", f"conditionalize({idxs}, {vals}) changed the distribution it was called on "
                                    f"(shape {sh})", rep)
                        d = MultinomialDistribution(p.copy(), tuple(sh))
                    sl = [slice(None)] * k
                    for i, v in zip(idxs, vals):
                        sl[i] = v
                    joint = T[tuple(sl)].flatten()
                    if tuple(c.shape) != tuple(sh[i] for i in keep) or not np.allclose(pm * c.ps, joint, atol=1e-12) \
                            or abs(c.ps.sum() - 1) > 1e-9:
                        ctx.violate("C16/conditionalize/joint", f"joint != marginal x conditional for shape {sh} given {idxs}={vals}", rep)
                    # tuple access agrees with the serial layout
    ensembles(ctx, volume)
    projective_ensembles(ctx)
    prob_dist_access(ctx)
    ensemble_products(ctx)
    documented_thresholds(ctx)
    ensemble_shapes_and_thresholds(ctx)
    product_readout_and_gates(ctx)


def ensembles(ctx, volume=1):
    """measurement processes applied once or twice: states and probabilities share the (earlier, later) layout"""
    import qobj
    from quara.objects.operators import compose_qoperations
    g = ctx.npgen(3)
    c_sys = qobj.csys("qubit")
    d = c_sys.dim
    n = (6 if ctx.quick else 40) * volume
    for t in range(n):
        m1, m2 = int(g.integers(2, 5)), int(g.integers(2, 5))
        if m1 == m2:
            m2 = 2 + (m2 - 1) % 3
        M1, K1 = qobj.rand_mprocess(g, c_sys, m1)
        M2, K2 = qobj.rand_mprocess(g, c_sys, m2)
        rho = qobj.rand_density(g, d)
        st = qobj.State(c_sys, qobj.vec_of(c_sys, rho))
        rep = {"kind": "ensemble", "seed": ctx.seed, "t": t, "m": [m1, m2]}
        try:
            e1 = compose_qoperations(M1, st)
            e2 = compose_qoperations(M2, e1)
        except Exception as e:  # noqa
            ctx.violate("C16/ensemble/raises", f"{type(e).__name__}: {e}", rep); continue
        ctx.case(("ens", t, m1, m2), sample={"op": "ensemble", "outcomes": [m1, m2]})
        # a readout POVM on the ensembles: the joint distribution is laid out as (measurement outcomes..., readout outcome)
        m3 = [m for m in (2, 3, 4, 5) if m not in (m1, m2)][t % 2]
        E = qobj.rand_povm_mats(g, d, m3)
        povm = qobj.Povm(c_sys, [qobj.vec_of(c_sys, e) for e in E])
        try:
            j1 = compose_qoperations(povm, e1)
            j2 = compose_qoperations(povm, e2)
            okj = tuple(j1.shape) == (m1, m3) and tuple(j2.shape) == (m1, m2, m3)
            for i in range(m1):
                r1 = K1[i][0] @ rho @ K1[i][0].conj().T
                for k in range(m3):
                    okj = okj and abs(j1[(i, k)] - np.trace(E[k] @ r1).real) < 1e-9
                for j in range(m2):
                    r2 = K2[j][0] @ r1 @ K2[j][0].conj().T
                    for k in range(m3):
                        okj = okj and abs(j2[(i, j, k)] - np.trace(E[k] @ r2).real) < 1e-9
            okj = okj and np.allclose(j2.marginalize([0, 1]).ps, e2.prob_dist.ps, atol=1e-9)
        except Exception as e:  # noqa
            okj = False
        if not okj:
            ctx.violate("C16/ensemble/readout-layout", f"POVM with {m3} outcomes on the ensemble of a {m1}- then {m2}-outcome measurement: joint distribution "
                        "is not laid out as (earlier, later, readout)", dict(rep, m3=m3))
        ok = tuple(e1.prob_dist.shape) == (m1,) and tuple(e2.prob_dist.shape) == (m1, m2)
        try:
            ok = ok and _ensemble_ok(e1, e2, K1, K2, rho, m1, m2)
        except Exception as e:  # noqa  (indexing with the reported shape fails: layout and shape disagree)
            ok = False
        if not ok:
            ctx.violate("C16/ensemble/layout", f"ensemble of {m1}- then {m2}-outcome measurement: states/probabilities not laid out as (earlier, later) "
                        f"(reported shapes {tuple(e1.prob_dist.shape)}, {tuple(e2.prob_dist.shape)})", rep)


def prob_dist_access(ctx):
    """ProbDist[(i, j, ...)] == ps.reshape(shape)[i, j, ...] == ps[row-major serial]; int access; error branches"""
    from quara.objects.prob_dist import ProbDist
    g = ctx.npgen(7)
    for sh in ([2, 3], [3, 2], [2, 1], [1, 3], [2, 2, 3], [3, 2, 2], [2, 3, 4], [2, 1, 3, 2]):
        n = int(np.prod(sh))
        ps = g.dirichlet(np.ones(n))
        pd = ProbDist(ps.copy(), tuple(sh))
        rep = {"kind": "probdist", "shape": sh, "ps": ps.tolist()}
        bad = None
        for mi in itertools.product(*[range(x) for x in sh]):
            try:
                v = pd[tuple(mi)]
                if not (np.ndim(v) == 0 and float(v) == ps[int(np.ravel_multi_index(mi, sh))] and pd[int(np.ravel_multi_index(mi, sh))] == float(v)):
                    bad = f"ProbDist{tuple(sh)}[{mi}] is not the row-major entry"
            except Exception as e:  # noqa
                bad = f"ProbDist{tuple(sh)}[{mi}] raises {type(e).__name__}"
            if bad:
                break
        ctx.case(("probdist", tuple(sh)), sample={"op": "ProbDist", "shape": sh})
        if bad:
            ctx.violate("C16/ProbDist/getitem/layout", bad, rep)
    for idx, exc in ((0.5, TypeError), ("a", TypeError)):
        try:
            ProbDist(np.array([0.5, 0.5]), (2,))[idx]
            ctx.violate("C16/ProbDist/getitem/accepts-bad-index", f"index {idx!r} accepted", {"kind": "probdist-err"})
        except exc:
            pass
        except Exception as e:  # noqa
            ctx.violate("C16/ProbDist/getitem/accepts-bad-index", f"index {idx!r} raises {type(e).__name__}", {"kind": "probdist-err"})
    try:
        ProbDist(np.array([0.5, 0.5]))[(0,)]
        ctx.violate("C16/ProbDist/getitem/shapeless-tuple", "tuple access without a shape accepted", {"kind": "probdist-err"})
    except ValueError:
        pass


def ensemble_products(ctx):
    """(a) tensor product of two measurement-produced ensembles with different member counts; (b) a POVM pre-composed with a
    measurement process: the joint distribution is laid out (measurement outcome, POVM outcome), row-major"""
    import qobj
    from quara.objects.operators import compose_qoperations, tensor_product
    g = ctx.npgen(8)
    for t in range(2 if ctx.quick else 6):
        m1, m2 = [(2, 3), (3, 2), (4, 2), (2, 4), (3, 4), (2, 2)][t % 6]
        c1, c2 = qobj.csys("qubit", (0,)), qobj.csys("qubit", (1,))
        M1, K1 = qobj.rand_mprocess(g, c1, m1)
        M2, K2 = qobj.rand_mprocess(g, c2, m2)
        r1, r2 = qobj.rand_density(g, 2), qobj.rand_density(g, 2)
        rep = {"kind": "ensemble-product", "seed": ctx.seed, "t": t, "m": [m1, m2]}
        ok = True
        try:
            e1 = compose_qoperations(M1, qobj.State(c1, qobj.vec_of(c1, r1)))
            e2 = compose_qoperations(M2, qobj.State(c2, qobj.vec_of(c2, r2)))
            e = tensor_product(e1, e2)
            ok = tuple(e.prob_dist.shape) == (m1, m2)
            for i in range(m1):
                a = K1[i][0] @ r1 @ K1[i][0].conj().T
                for j in range(m2):
                    b = K2[j][0] @ r2 @ K2[j][0].conj().T
                    pa, pb = np.trace(a).real, np.trace(b).real
                    ok = ok and abs(e.prob_dist[(i, j)] - pa * pb) < 1e-9
                    ok = ok and np.allclose(e.state((i, j)).to_density_matrix(), np.kron(a / pa, b / pb), atol=1e-8)
            ok = ok and np.allclose(e.prob_dist.marginalize([0]).ps, e1.prob_dist.ps, atol=1e-9) \
                and np.allclose(e.prob_dist.marginalize([1]).ps, e2.prob_dist.ps, atol=1e-9)
        except Exception as ex:  # noqa
            ok = False
        ctx.case(("ens-prod", t, m1, m2), sample={"op": "ensemble (x) ensemble", "members": [m1, m2]})
        if not ok:
            ctx.violate("C16/ensemble/tensor-product/layout", f"tensor product of a {m1}- and a {m2}-member ensemble: states / probabilities are not at "
                        "their own multi-index (i, j)", rep)
        # (b) pre-composed Heisenberg POVM
        c = qobj.csys("qubit", (0,))
        mM, mP = m1, m2
        M, K = qobj.rand_mprocess(g, c, mM)
        E = qobj.rand_povm_mats(g, 2, mP)
        povm = qobj.Povm(c, [qobj.vec_of(c, x) for x in E])
        rho = qobj.rand_density(g, 2)
        st = qobj.State(c, qobj.vec_of(c, rho))
        rep2 = {"kind": "povm-mprocess", "seed": ctx.seed, "t": t, "m": [mM, mP]}
        ok = True
        try:
            pre = compose_qoperations(compose_qoperations(povm, M), st)
            seq = compose_qoperations(povm, compose_qoperations(M, st))
            joint = np.array([[np.trace(E[k] @ K[i][0] @ rho @ K[i][0].conj().T).real for k in range(mP)] for i in range(mM)])
            ok = np.allclose(np.asarray(pre.ps).reshape(mM, mP), joint, atol=1e-9) and tuple(seq.shape) == (mM, mP) \
                and np.allclose(np.asarray(seq.ps).reshape(mM, mP), joint, atol=1e-9)
        except Exception as ex:  # noqa
            ok = False
        ctx.case(("povm-mp", t, mM, mP), sample={"op": "(povm . mprocess) . state", "outcomes": [mM, mP]})
        if not ok:
            ctx.violate("C16/povm-mprocess/joint-layout", f"POVM ({mP} outcomes) pre-composed with a {mM}-outcome measurement process: the joint "
                        "distribution is not the row-major (measurement outcome, POVM outcome) layout", rep2)


def projective_ensembles(ctx):
    """repeated / coarse-after-fine projective measurements: some second-measurement branches have exactly zero probability and the
    branch weights are unequal, so the eps_zero truncation + renormalisation path of every branch is exercised"""
    import qobj
    from quara.objects.operators import compose_qoperations
    from quara.objects.mprocess import MProcess
    g = ctx.npgen(5)
    for kind, names in (("qubit", (0,)), ("qutrit", (0,))):
        c_sys = qobj.csys(kind, names)
        d = c_sys.dim
        for t in range(3 if ctx.quick else 12):
            u = qobj.rand_unitary(g, d) if t % 3 == 2 else np.eye(d)
            pops = g.dirichlet(np.ones(d)) * 0.9 + 0.1 / d
            a = np.sqrt(pops) * np.exp(1j * g.uniform(0, 2 * np.pi, d))
            rho = 0.7 * np.outer(a, a.conj()) + 0.3 * np.diag(pops)          # populations `pops` in the computational basis
            rho = u @ rho @ u.conj().T
            fine = [[u @ np.diag((np.arange(d) == i).astype(float)) @ u.conj().T] for i in range(d)]
            coarse = [[fine[0][0]], [sum(f[0] for f in fine[1:])]]
            for K1, K2, tag in ((fine, fine, "fine-fine"), (fine, coarse, "fine-coarse"), (coarse, fine, "coarse-fine")):
                rep = {"kind": "projective", "system": kind, "t": t, "tag": tag, "seed": ctx.seed}
                try:
                    M1 = MProcess(c_sys, [qobj.hs_of_kraus(c_sys, ks) for ks in K1])
                    M2 = MProcess(c_sys, [qobj.hs_of_kraus(c_sys, ks) for ks in K2])
                    st = qobj.State(c_sys, qobj.vec_of(c_sys, rho))
                    e2 = compose_qoperations(M2, compose_qoperations(M1, st))
                    ok = tuple(e2.prob_dist.shape) == (len(K1), len(K2))
                    for i, k1 in enumerate(K1):
                        r1 = k1[0] @ rho @ k1[0].conj().T
                        for j, k2 in enumerate(K2):
                            r2 = k2[0] @ r1 @ k2[0].conj().T
                            ok = ok and abs(e2.prob_dist[(i, j)] - np.trace(r2).real) < 1e-7
                except Exception as e:  # noqa
                    ok = False
                ctx.case(("proj-ens", kind, t, tag), sample={"op": "projective-ensemble", "system": kind, "tag": tag})
                if not ok:
                    ctx.violate("C16/ensemble/projective/joint", f"{kind} {tag}: joint distribution of two projective measurements is not p(i)·p(j|i) "
                                "(zero-probability branches / unequal branch weights)", rep)


def _ensemble_ok(e1, e2, K1, K2, rho, m1, m2):
        ok = True
        for i in range(m1):
            k1 = K1[i][0]
            r1 = k1 @ rho @ k1.conj().T
            p1 = np.trace(r1).real
            ok &= abs(e1.prob_dist[i] - p1) < 1e-9 and np.allclose(e1.state(i).to_density_matrix(), r1 / p1, atol=1e-8)
            for j in range(m2):
                k2 = K2[j][0]
                r2 = k2 @ r1 @ k2.conj().T
                p2 = np.trace(r2).real
                ok &= abs(e2.prob_dist[(i, j)] - p2) < 1e-9
                if p2 > 1e-6:
                    ok &= np.allclose(e2.state((i, j)).to_density_matrix(), r2 / p2, atol=1e-7)
                    ok &= e2.state((i, j)) is e2.states[i * m2 + j]
        return bool(ok)



def documented_thresholds(ctx):
    """"both stay normalised with the documented zero threshold": the documented defaults (1e-8 for the constructor's zero threshold
    and for validate_prob_dist's absolute tolerance) decide, and an explicitly passed threshold is honoured; falsy eps_zero means default."""
    from quara.math.probability import validate_prob_dist
    doc = 1e-8
    for shape in ((4,), (2, 3), (3, 2, 2)):
        n = int(np.prod(shape))
        for kw, thr in (({}, doc), ({"eps_zero": None}, doc), ({"eps_zero": 0.0}, doc), ({"eps_zero": 1e-4}, 1e-4), ({"eps_zero": 1e-11}, 1e-11)):
            for k in range(n):
                for rel, zeroed in ((0.3, True), (3.0, False)):
                    p = np.full(n, 1.0 / (n - 1)); p[k] = 0.0
                    p = p * (1 - rel * thr); p[k] = rel * thr
                    rep = {"kind": "threshold", "shape": list(shape), "kwargs": {a: b for a, b in kw.items()}, "index": k, "entry": rel * thr}
                    ctx.case(("thr", shape, tuple(sorted(kw.items())), k, rel), nontrivial=True)
                    ctx.count("documented threshold cases")
                    try:
                        d = MultinomialDistribution(p.copy(), shape, **kw)
                    except Exception as e:
                        ctx.violate("C16/ctor/threshold/raises", f"{type(e).__name__}: {e} for entry {rel}×threshold, {kw}", rep); continue
                    got = np.asarray(d.ps, dtype=float)
                    want = p.copy()
                    if zeroed:
                        want[k] = 0.0
                        want = want / want.sum()
                    if (got[k] == 0.0) != zeroed or not np.allclose(got, want, atol=1e-15, rtol=1e-12) or abs(got.sum() - 1) > 1e-9:
                        ctx.violate("C16/ctor/threshold", f"entry {rel}× the {'documented default' if thr == doc else 'requested'} threshold {thr:g} "
                                    f"{'kept' if got[k] != 0 else 'zeroed'}; ps[{k}]={got[k]!r}", rep)
    # validate_prob_dist: absolute tolerance, documented default 1e-8, explicit eps honoured
    cases = []
    for eps_kw, eps in (({}, doc), ({"eps": None}, doc), ({"eps": 1e-3}, 1e-3), ({"eps": 1e-12}, 1e-12)):
        for scale in (0.3, 3.0):
            cases.append((eps_kw, "neg", np.array([0.5 + scale * eps, 0.5, -scale * eps]), scale > 1))
            cases.append((eps_kw, "sum", np.array([0.5, 0.25, 0.25 + scale * eps]), scale > 1))
            cases.append((eps_kw, "sum-low", np.array([0.5, 0.25, 0.25 - scale * eps]), scale > 1))
    for eps_kw, what, p, must_raise in cases:
        rep = {"kind": "validate", "kwargs": eps_kw, "what": what, "p": p.tolist()}
        ctx.case(("validate", tuple(sorted(eps_kw.items())), what, must_raise), nontrivial=True)
        try:
            validate_prob_dist(p, **eps_kw)
            raised = False
        except ValueError:
            raised = True
        if raised != must_raise:
            ctx.violate(f"C16/validate_prob_dist/{what}", f"{'accepted' if not raised else 'rejected'} {p.tolist()} with {eps_kw or 'default eps'}", rep)


def ensemble_shapes_and_thresholds(ctx):
    """ensembles from measurement processes whose own outcome label is a multi-index (explicit shape, pre-composition, tensor
    product with a gate), and the documented zero threshold (1e-8 by default, an explicit eps_zero honoured) of such ensembles"""
    import qobj
    from quara.objects.operators import compose_qoperations, tensor_product
    g = ctx.npgen(11)
    c_sys = qobj.csys("qubit")
    d = c_sys.dim

    def post(ks, rho):
        r = sum(k @ rho @ k.conj().T for k in ks)
        return r, np.trace(r).real

    def check_ens(ens, shape, ref, sig, rep, what):
        """ref: dict multi-index -> (unnormalised post state, probability)"""
        try:
            ok = tuple(ens.prob_dist.shape) == tuple(shape) and len(ens.states) == int(np.prod(shape))
            if ok:
                for k, mi in enumerate(itertools.product(*[range(x) for x in shape])):
                    r, p = ref[mi]
                    ok = ok and abs(ens.prob_dist[mi] - p) < 1e-9 and abs(ens.prob_dist.ps[k] - p) < 1e-9
                    if p > 1e-6:
                        ok = ok and ens.state(mi) is ens.states[k] and np.allclose(ens.state(mi).to_density_matrix(), r / p, atol=1e-7)
        except Exception as e:  # noqa
            ok = False
            what += f" ({type(e).__name__}: {e})"
        if not ok:
            ctx.violate(sig, what + f": reported shape {tuple(getattr(ens.prob_dist, 'shape', ()))}, expected {tuple(shape)}", rep)

    for t in range(2 if ctx.quick else 8):
        M4, K4 = qobj.rand_mprocess(g, c_sys, 4, shape=(2, 2))
        M3, K3 = qobj.rand_mprocess(g, c_sys, 3)
        rho = qobj.rand_density(g, d)
        st = qobj.State(c_sys, qobj.vec_of(c_sys, rho))
        rep = {"kind": "ensemble-shapes", "seed": ctx.seed, "t": t}
        ctx.case(("ens-shapes", t), nontrivial=True); ctx.count("multi-index instrument ensembles")
        for first, Kf, shf, second, Ks, shs, tag in ((M4, K4, (2, 2), M3, K3, (3,), "(2,2)-then-3"), (M3, K3, (3,), M4, K4, (2, 2), "3-then-(2,2)")):
            ref1, ref2 = {}, {}
            for a, mia in enumerate(itertools.product(*[range(x) for x in shf])):
                r1, p1 = post(Kf[a], rho)
                ref1[mia] = (r1, p1)
                for b, mib in enumerate(itertools.product(*[range(x) for x in shs])):
                    ref2[mia + mib] = post(Ks[b], r1)
            try:
                e1 = compose_qoperations(first, st)
                e2 = compose_qoperations(second, e1)
                pre = compose_qoperations(second, first)
                e3 = compose_qoperations(pre, st)
                e4 = compose_qoperations(second, first, st)
            except Exception as e:  # noqa
                ctx.violate("C16/ensemble-shapes/raises", f"{tag}: {type(e).__name__}: {e}", rep); continue
            check_ens(e1, shf, ref1, "C16/ensemble-shapes/once", rep, f"instrument with outcome shape {shf} applied once")
            check_ens(e2, shf + shs, ref2, "C16/ensemble-shapes/sequential", rep, f"{tag} applied one after the other")
            if tuple(pre.shape) != tuple(shf + shs):
                ctx.violate("C16/ensemble-shapes/pre-composed-shape", f"{tag}: pre-composed instrument reports shape {tuple(pre.shape)}", rep)
            check_ens(e3, shf + shs, ref2, "C16/ensemble-shapes/pre-composed", rep, f"{tag} pre-composed, then applied")
            check_ens(e4, shf + shs, ref2, "C16/ensemble-shapes/three-argument", rep, f"{tag} via compose(second, first, state)")
        # tensor product of a multi-index instrument with a gate on another qubit, both operand orders
        c0, c1 = qobj.csys("qubit", names=(0,)), qobj.csys("qubit", names=(1,))
        c01 = qobj.csys("qubit", names=(0, 1))
        A2, KA = qobj.rand_mprocess(g, c0, 2)
        A3, KB = qobj.rand_mprocess(g, c0, 3)
        MP = compose_qoperations(A3, A2)           # shape (2, 3) on qubit 0
        G = qobj.rand_gate(g, c1, kraus_rank=1)
        KG = None
        rho0, rho1 = qobj.rand_density(g, 2), qobj.rand_density(g, 2)
        s0, s1 = qobj.State(c0, qobj.vec_of(c0, rho0)), qobj.State(c1, qobj.vec_of(c1, rho1))
        g1 = qobj.mat_of(c1, G.hs @ s1.vec)       # the gate's action on rho1, through its own HS matrix
        ref = {}
        for i in range(2):
            r1, _ = post(KA[i], rho0)
            for j in range(3):
                r2, p2 = post(KB[j], r1)
                ref[(i, j)] = (np.kron(r2, g1), p2 * np.trace(g1).real)
        s01 = tensor_product(s0, s1)
        for order, build in (("MProcess-x-Gate", lambda: tensor_product(MP, G)), ("Gate-x-MProcess", lambda: tensor_product(G, MP))):
            try:
                T = build()
                eT = compose_qoperations(T, s01)
            except Exception as e:  # noqa
                ctx.violate(f"C16/ensemble-shapes/tensor/{order}/raises", f"{type(e).__name__}: {e}", rep); continue
            if tuple(T.shape) != (2, 3):
                ctx.violate(f"C16/ensemble-shapes/tensor/{order}/shape", f"product instrument reports shape {tuple(T.shape)} instead of (2, 3)", rep)
            check_ens(eT, (2, 3), ref, f"C16/ensemble-shapes/tensor/{order}", rep, f"{order} of a (2,3)-shaped instrument with a gate, applied to a product state")
    # documented zero threshold of ensembles: default 1e-8, explicit eps_zero honoured
    ks = [[np.diag([1.0, 0.0]).astype(complex)], [np.sqrt(0.7) * np.diag([0.0, 1.0]).astype(complex)], [np.sqrt(0.3) * np.diag([0.0, 1.0]).astype(complex)]]
    hss = [qobj.hs_of_kraus(c_sys, k) for k in ks]
    # (an instrument threshold below 1e-8 is shadowed by MultinomialDistribution's own default 1e-8: not demanded here)
    for kw, thr in (({}, 1e-8), ({"eps_zero": 1e-5}, 1e-5)):
        M = qobj.MProcess(c_sys, [h.copy() for h in hss], **kw)
        for q_, zeroed in ((10 * thr, False), (thr, True)):      # entries 7·thr, 3·thr (kept) resp. 0.7·thr, 0.3·thr (zeroed)
            rho = np.diag([1 - q_, q_]).astype(complex)
            st = qobj.State(c_sys, qobj.vec_of(c_sys, rho))
            rep = {"kind": "ensemble-threshold", "kwargs": kw, "q": q_}
            ctx.case(("ens-threshold", tuple(kw.items()), q_), nontrivial=True); ctx.count("ensemble threshold cases")
            try:
                e = compose_qoperations(M, st)
                ps = np.asarray(e.prob_dist.ps, dtype=float)
            except Exception as ex:  # noqa
                ctx.violate("C16/ensemble-threshold/raises", f"{type(ex).__name__}: {ex}", rep); continue
            want = np.array([1 - q_, 0.7 * q_, 0.3 * q_])
            if zeroed:
                want = np.array([1.0, 0.0, 0.0])
            bad = (ps[1] == 0.0) != zeroed or (ps[2] == 0.0) != zeroed or not np.allclose(ps, want, rtol=1e-9, atol=0.0) \
                or abs(ps.sum() - 1) > 1e-9
            if bad:
                ctx.violate("C16/ensemble-threshold", f"outcome probabilities {0.7 * q_:g}, {0.3 * q_:g} against the "
                            f"{'documented default' if not kw else 'requested'} threshold {thr:g}: ps = {ps.tolist()}", rep)


def product_readout_and_gates(ctx):
    """(a) the joint distribution of (ensemble outcome, local readout outcomes) for a PRODUCT readout POVM whose factors have
    different outcome counts and are handed to tensor_product in either order: one variable per subsystem in subsystem order, row-major;
    (b) a gate applied to an ensemble that contains exactly-zero-probability members: states and probabilities keep the same positions."""
    import qobj
    from quara.objects.operators import compose_qoperations, tensor_product
    g = ctx.npgen(13)
    # the three systems must share their ElementalSystem objects (CompositeSystem equality is by elemental-system identity)
    e0, e1 = qobj.ElementalSystem(0, qobj.mb.get_normalized_pauli_basis()), qobj.ElementalSystem(1, qobj.mb.get_normalized_pauli_basis())
    c0, c1, c01 = qobj.CompositeSystem([e0]), qobj.CompositeSystem([e1]), qobj.CompositeSystem([e0, e1])
    I2 = np.eye(2, dtype=complex)
    for t in range(2 if ctx.quick else 6):
        rho = qobj.rand_density(g, 4)
        st = qobj.State(c01, qobj.vec_of(c01, rho))
        ks = qobj.rand_kraus(g, 2, 2)                       # a 2-outcome instrument on subsystem 0
        Kmeas = [np.kron(k[0], I2) for k in ks]
        M = qobj.MProcess(c01, [qobj.hs_of_kraus(c01, [K]) for K in Kmeas])
        E0 = qobj.rand_povm_mats(g, 2, 2)
        E1 = qobj.rand_povm_mats(g, 2, 3)
        p0 = qobj.Povm(c0, [qobj.vec_of(c0, e) for e in E0])
        p1 = qobj.Povm(c1, [qobj.vec_of(c1, e) for e in E1])
        J = np.zeros((2, 2, 3))
        for x in range(2):
            r = Kmeas[x] @ rho @ Kmeas[x].conj().T
            for b in range(2):
                for a in range(3):
                    J[x, b, a] = np.trace(np.kron(E0[b], E1[a]) @ r).real
        rep = {"kind": "product-readout", "seed": ctx.seed, "t": t}
        ctx.case(("product-readout", t), nontrivial=True); ctx.count("product readout cases")
        try:
            ens = compose_qoperations(M, st)
        except Exception as e:  # noqa
            ctx.violate("C16/product-readout/raises", f"{type(e).__name__}: {e}", rep); continue
        for order, build in (("in-order", lambda: tensor_product(p0, p1)), ("out-of-order", lambda: tensor_product(p1, p0))):
            try:
                joint = compose_qoperations(build(), ens)
                ok = tuple(joint.shape) == (2, 2, 3) and np.allclose(np.asarray(joint.ps).reshape(2, 2, 3), J, atol=1e-9)
                if ok:
                    for x, b, a in itertools.product(range(2), range(2), range(3)):
                        ok = ok and abs(joint[(x, b, a)] - J[x, b, a]) < 1e-9
                    ok = ok and np.allclose(joint.marginalize([0, 2]).ps, J.sum(axis=1).flatten(), atol=1e-9) \
                        and np.allclose(joint.marginalize([1]).ps, J.sum(axis=(0, 2)), atol=1e-9)
                what = f"reported shape {tuple(joint.shape)}"
            except Exception as e:  # noqa
                ok, what = False, f"{type(e).__name__}: {e}"
            if not ok:
                ctx.violate(f"C16/product-readout/{order}/layout", "joint distribution of (instrument outcome, readout on subsystem 0 with 2 outcomes, "
                            f"readout on subsystem 1 with 3 outcomes) is not laid out as (2, 2, 3) in subsystem order, factors given {order}: {what}", rep)
    # (b) gate after a projective measurement with impossible outcomes
    c = qobj.csys("qubit")
    P0, P1 = np.diag([1.0, 0.0]).astype(complex), np.diag([0.0, 1.0]).astype(complex)
    Mz = qobj.MProcess(c, [qobj.hs_of_kraus(c, [P0]), qobj.hs_of_kraus(c, [P1])])
    Hd = np.array([[1, 1], [1, -1]], dtype=complex) / np.sqrt(2)
    G = qobj.Gate(c, qobj.hs_of_kraus(c, [Hd]))
    for name, rho in (("|1><1|", P1), ("|0><0|", P0), ("generic", qobj.rand_density(g, 2))):
        st = qobj.State(c, qobj.vec_of(c, rho))
        rep = {"kind": "gate-after-measurement", "state": name}
        ctx.case(("gate-after-measurement", name), nontrivial=True); ctx.count("gate after measurement cases")
        for how, run in (("G∘(M∘ρ)", lambda: compose_qoperations(G, compose_qoperations(Mz, st))), ("compose(G, M, ρ)", lambda: compose_qoperations(G, Mz, st))):
            try:
                e = run()
                ok = tuple(e.prob_dist.shape) == (2,)
                for x, K in enumerate((P0, P1)):
                    r = K @ rho @ K.conj().T
                    p = np.trace(r).real
                    ok = ok and abs(e.prob_dist[x] - p) < 1e-9
                    want = Hd @ (r / p) @ Hd.conj().T if p > 1e-6 else np.zeros((2, 2))
                    ok = ok and np.allclose(e.state(x).to_density_matrix(), want, atol=1e-8)
            except Exception as ex:  # noqa
                ok = False
            if not ok:
                ctx.violate("C16/gate-after-measurement/layout", f"{how} with ρ = {name}: states and probabilities of the ensemble no longer share their positions", rep)

def search(ctx):
    oracle(ctx, volume=4)
    # disagreement inputs: evaluate the property on them directly
    for dgr in ctx.disagreements[:50]:
        if dgr["op"] in ("multi", "serial"):
            sh = dgr["input"][0]
            n = int(np.prod(sh))
            for s in range(n):
                mi = index_util.index_multi_dimensional_from_index_serial(sh, s)
                if tuple(mi) != tuple(int(x) for x in np.unravel_index(s, sh)):
                    ctx.violate("C16/index/roundtrip", f"shape {sh} serial {s} -> {mi}", {"kind": "index", "shape": sh, "serial": s})
                    return


def replay(ctx, data):
    r = data["replay"]
    print("replaying", r)
    if r["kind"] == "index":
        sh, s = r["shape"], r["serial"]
        mi = index_util.index_multi_dimensional_from_index_serial(sh, s)
        print("multi", mi, "row-major reference", np.unravel_index(s, sh),
              "back", index_util.index_serial_from_index_multi_dimensional(sh, tuple(mi)))
        return 0 if tuple(mi) == tuple(int(x) for x in np.unravel_index(s, sh)) else 1
    if r["kind"] == "marg":
        d = MultinomialDistribution(np.array(r["ps"]), tuple(r["shape"]))
        m = d.marginalize(r["remain"])
        ref = np.einsum(np.array(r["ps"]).reshape(r["shape"]), list(range(len(r["shape"]))), sorted(r["remain"]))
        print("impl", m.shape, m.ps, "reference", ref.flatten())
        return 0 if np.allclose(m.ps, ref.flatten()) else 1
    if r["kind"] == "cond":
        d = MultinomialDistribution(np.array(r["ps"]), tuple(r["shape"]))
        c = d.conditionalize(r["idx"], r["val"])
        print("impl", c.shape, c.ps)
        return 1
    before = len(ctx.violations)
    oracle(ctx)
    return 1 if len(ctx.violations) > before else 0
