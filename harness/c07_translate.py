"""c07_translate — regenerates lean/QGen/C07.lean from quara/utils/matrix_util.py with an `ast` skeleton matcher.

Translated fragments (anything that does not match the expected skeleton raises `Untranslatable`, loudly):
  * `_left_permutation_matrix`: the two guards, the `reduce(<op>, size_list[<slice>])` expressions of the head / tail
    identity sizes, the arguments of `_K(...)`, the nesting of the two `np.kron` calls;
  * `calc_permutation_matrix`: the operand order of `perm_matrix = left_perm @ perm_matrix`, the right-hand sides of the
    two tuple swaps of `tmp_system_order` / `tmp_size_list`, the identity start `np.eye(np.prod(size_list))`.
QProps/C07.lean proves that the hand-written model equals these generated definitions (`*_matches_source`), so an
edit of any of these expressions breaks a proof obligation, not only the sampled correspondence."""
import ast
import os

import common


class Untranslatable(Exception):
    pass


def fail(node, msg):
    raise Untranslatable(f"matrix_util.py:{getattr(node, 'lineno', '?')}: {msg}: {ast.unparse(node)[:120]}")


def nat(e, lst):
    """integer expression over `position`, `len(<lst>)`, literals, + and - (Nat subtraction: callers have position >= 1)"""
    if isinstance(e, ast.Constant) and isinstance(e.value, int) and e.value >= 0:
        return str(e.value)
    if isinstance(e, ast.Name) and e.id == "position":
        return "position"
    if isinstance(e, ast.Call) and isinstance(e.func, ast.Name) and e.func.id == "len" and len(e.args) == 1 \
            and isinstance(e.args[0], ast.Name) and e.args[0].id == lst:
        return f"{lst}.length"
    if isinstance(e, ast.BinOp) and isinstance(e.op, (ast.Add, ast.Sub)):
        op = "+" if isinstance(e.op, ast.Add) else "-"
        return f"({nat(e.left, lst)} {op} {nat(e.right, lst)})"
    fail(e, "unsupported integer expression")


def slice_of(e, lst):
    if not (isinstance(e, ast.Subscript) and isinstance(e.value, ast.Name) and e.value.id == lst and isinstance(e.slice, ast.Slice)):
        fail(e, "expected a slice of " + lst)
    sl = e.slice
    if sl.step is not None:
        fail(e, "slice step")
    if sl.lower is None and sl.upper is not None:
        return f"({lst}.take {nat(sl.upper, lst)})"
    if sl.lower is not None and sl.upper is None:
        return f"({lst}.drop {nat(sl.lower, lst)})"
    fail(e, "expected a one-sided slice")


def reduce_of(e, lst):
    if not (isinstance(e, ast.Call) and isinstance(e.func, ast.Name) and e.func.id == "reduce" and len(e.args) == 2
            and isinstance(e.args[0], ast.Name)):
        fail(e, "expected reduce(op, slice)")
    op = {"mul": "redMul", "add": "redAdd"}.get(e.args[0].id)
    if op is None:
        fail(e, "unknown reduce operator")
    return f"{op} {slice_of(e.args[1], lst)}"


def is_eye(e, arg):
    """np.eye(<arg>) with arg a literal 1 or a name"""
    return isinstance(e, ast.Call) and ast.unparse(e.func) == "np.eye" and len(e.args) == 1 and ast.unparse(e.args[0]) == arg


def body_no_doc(fn):
    b = fn.body
    if b and isinstance(b[0], ast.Expr) and isinstance(b[0].value, ast.Constant) and isinstance(b[0].value.value, str):
        b = b[1:]
    return b


def guard(test, lst):
    if not (isinstance(test, ast.Compare) and len(test.ops) == 1 and isinstance(test.ops[0], ast.Lt)
            and isinstance(test.left, ast.Name) and test.left.id == "position"):
        fail(test, "expected `position < e`")
    return f"position < {nat(test.comparators[0], lst)}"


def identity_size(ifnode, target, lst):
    """`if position < e: T = np.eye(1) else: size = reduce(..); T = np.eye(size)` in either branch order -> Lean expression"""
    def branch(stmts):
        if len(stmts) == 1 and isinstance(stmts[0], ast.Assign) and ast.unparse(stmts[0].targets[0]) == target \
                and is_eye(stmts[0].value, "1"):
            return "1"
        if len(stmts) == 2 and isinstance(stmts[0], ast.Assign) and ast.unparse(stmts[0].targets[0]) == "size" \
                and isinstance(stmts[1], ast.Assign) and ast.unparse(stmts[1].targets[0]) == target and is_eye(stmts[1].value, "size"):
            return reduce_of(stmts[0].value, lst)
        fail(ifnode, f"unexpected branch for {target}")
    return f"if {guard(ifnode.test, lst)} then {branch(ifnode.body)} else {branch(ifnode.orelse)}"


def index_of(e, lst):
    if not (isinstance(e, ast.Subscript) and isinstance(e.value, ast.Name) and e.value.id == lst and not isinstance(e.slice, ast.Slice)):
        fail(e, "expected an element of " + lst)
    return f"{lst}[{nat(e.slice, lst)}]?"


def translate_left_perm(fn):
    lst = fn.args.args[1].arg
    if fn.args.args[0].arg != "position":
        fail(fn, "first parameter must be `position`")
    b = body_no_doc(fn)
    if len(b) != 5 or not isinstance(b[0], ast.If) or not isinstance(b[2], ast.If):
        fail(fn, "unexpected statement skeleton (expected if / K / if / kron / return)")
    head = identity_size(b[0], "I_head", lst)
    k = b[1]
    if not (isinstance(k, ast.Assign) and ast.unparse(k.targets[0]) == "K_matrix" and isinstance(k.value, ast.Call)
            and ast.unparse(k.value.func) == "_K" and len(k.value.args) == 2):
        fail(k, "expected K_matrix = _K(a, b)")
    ka, kb = index_of(k.value.args[0], lst), index_of(k.value.args[1], lst)
    tail = identity_size(b[2], "I_tail", lst)
    kr = b[3]
    if not (isinstance(kr, ast.Assign) and ast.unparse(kr.value) == "np.kron(np.kron(I_head, K_matrix), I_tail)"):
        fail(kr, "expected np.kron(np.kron(I_head, K_matrix), I_tail)")
    if not (isinstance(b[4], ast.Return) and ast.unparse(b[4].value) == ast.unparse(kr.targets[0])):
        fail(b[4], "expected return of the kron result")
    L = lst
    return f"""/-! ### quara/utils/matrix_util.py:{fn.lineno} `_left_permutation_matrix` -/

/-- size of `I_head` -/
def headSize (position : Nat) ({L} : List Nat) : Nat :=
  {head}

/-- the two arguments of `_K(…)` (`none` = IndexError) -/
def kArgs (position : Nat) ({L} : List Nat) : Option Nat × Option Nat :=
  ({ka}, {kb})

/-- size of `I_tail` -/
def tailSize (position : Nat) ({L} : List Nat) : Nat :=
  {tail}
"""


def translate_calc_perm(fn):
    start = accum = None
    swaps = {}
    for n in ast.walk(fn):
        if isinstance(n, ast.Assign) and ast.unparse(n.targets[0]) == "perm_matrix":
            if isinstance(n.value, ast.BinOp) and isinstance(n.value.op, ast.MatMult):
                l, r = ast.unparse(n.value.left), ast.unparse(n.value.right)
                if {l, r} != {"left_perm", "perm_matrix"}:
                    fail(n, "unexpected accumulation")
                accum = "true" if l == "left_perm" else "false"
            elif ast.unparse(n.value) == "np.eye(total_dim)":
                start = "eye"
            else:
                fail(n, "unexpected assignment to perm_matrix")
        if isinstance(n, ast.Assign) and ast.unparse(n.targets[0]) == "total_dim":
            if ast.unparse(n.value) != "np.prod(size_list)":
                fail(n, "expected total_dim = np.prod(size_list)")
        if isinstance(n, ast.Assign) and isinstance(n.targets[0], ast.Tuple) and len(n.targets[0].elts) == 2:
            t0, t1 = [ast.unparse(x) for x in n.targets[0].elts]
            name = t0.split("[")[0]
            if t0 != f"{name}[position - 1]" or t1 != f"{name}[position]":
                fail(n, "unexpected swap targets")
            if not (isinstance(n.value, ast.Tuple) and len(n.value.elts) == 2):
                fail(n, "unexpected swap value")
            m = {f"{name}[position - 1]": "p.1", f"{name}[position]": "p.2"}
            v = [ast.unparse(x) for x in n.value.elts]
            if any(x not in m for x in v):
                fail(n, "unexpected swap value")
            swaps[name] = f"({m[v[0]]}, {m[v[1]]})"
    if start != "eye" or accum is None or set(swaps) != {"tmp_system_order", "tmp_size_list"}:
        fail(fn, "calc_permutation_matrix: skeleton not found")
    return f"""/-! ### quara/utils/matrix_util.py:{fn.lineno} `calc_permutation_matrix` -/

/-- `perm_matrix = left_perm @ perm_matrix` has the new factor on the left -/
def accumOnLeft : Bool := {accum}

/-- new `(tmp_system_order[position-1], tmp_system_order[position])` from the old pair `p` -/
def swapOrder (p : Nat × Nat) : Nat × Nat := {swaps['tmp_system_order']}

/-- new `(tmp_size_list[position-1], tmp_size_list[position])` from the old pair `p` -/
def swapSizes (p : Nat × Nat) : Nat × Nat := {swaps['tmp_size_list']}
"""


def translate():
    path = os.path.join(common.REPO, "quara", "utils", "matrix_util.py")
    tree = ast.parse(open(path).read())
    fns = {n.name: n for n in tree.body if isinstance(n, ast.FunctionDef)}
    for need in ("_left_permutation_matrix", "calc_permutation_matrix"):
        if need not in fns:
            raise Untranslatable(f"{need} not found in matrix_util.py")
    out = ["/-! GENERATED on every run by harness/c07.py:translate (harness/c07_translate.py) from quara/utils/matrix_util.py — do not edit.",
           "Import-free. Integer expressions are over `Nat` (the loop only produces positions ≥ 1). -/",
           "namespace QGen.C07", "",
           "/-- `reduce(mul, l)` / `reduce(add, l)` on a non-empty list -/",
           "def redMul (l : List Nat) : Nat := l.foldl (· * ·) 1",
           "def redAdd (l : List Nat) : Nat := l.foldl (· + ·) 0", "",
           translate_left_perm(fns["_left_permutation_matrix"]),
           translate_calc_perm(fns["calc_permutation_matrix"]),
           "end QGen.C07", ""]
    new = "\n".join(out)
    dst = os.path.join(common.LEAN, "QGen", "C07.lean")
    if not os.path.exists(dst) or open(dst).read() != new:
        open(dst, "w").write(new)
    return []
